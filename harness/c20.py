"""C20 -- exports state exactly the calls they were given.

Correspondence: cnvlib.export.export_bed / export_vcf (segments2vcf, assign_ci_start_end) /
export_seg / merge_samples + fmt_cdt / fmt_jtv / export_nexus_basic (and the `cnvkit.py export ...`
commands) on generated tables, against the extracted Coq model (Model/Export.v, entries c20_*).
Every text output (BED / VCF / SEG / CDT / JTV / nexus file) is parsed back into fields here.

Direct oracles (independent of the model, typed from the property text, evaluated on the CODE's output):
  * BED: row i is present iff show=all, or ncopies_i != ploidy, or ncopies_i != expected_i, where
    ncopies_i = cn_i, or round-half-even(r_i * 2^log2_i) when the table has no cn column, and (r_i, expected_i)
    come from the property's class table (autosome / X / Y / PAR-X / PAR-Y x reference sex x sample sex);
    emitted rows carry the 0-based start, end, the label (or gene) and ncopies_i, in table order;
  * VCF: one record per row with ncopies_i != expected_i (and a numeric probe count), in order, with
    POS = start (1 where 0), END = end, SVTYPE/ALT DEL iff below / DUP iff above, SVLEN = +-(end - start),
    FORMAT/sample GT:GQ:CN:CNQ = 0/1:0:<ncopies>:<probes> for gains, GT:GQ = 1/1|0/1:<probes> for losses;
    BED `variant` rows and VCF records name the same segments;
  * SEG: per sample, in order, rows under its id with start + 1, end, probes, mean; chromosome ids = position
    of first appearance in the first sample when asked;
  * CDT / JTV / nexus-basic: one row per bin, label chrom:start-end:gene (nexus: chrom:start+1-end), one column
    per sample holding that sample's log2; differing bins or duplicate ids => ValueError."""
import os, json, math
from fractions import Fraction as F
import numpy as np
import pandas as pd
import vlib
from vlib import Err

LEVEL = 'proof'
HALF = F(1, 2)
AMBIG = 1e-7

PAR = {
    'grch37': {'X': [(60000, 2699520), (154931043, 155260560)], 'Y': [(10000, 2649520), (59034049, 59363566)]},
    'grch38': {'X': [(10000, 2781479), (155701382, 156030895)], 'Y': [(10000, 2781479), (56887902, 57217415)]},
}
KL = {'auto': 0, 'X': 1, 'Y': 2, 'parX': 3, 'parY': 4}


# --------------------------------------------------------------------------------------
# the property's tables, typed from the property text


def py_class(style_chr, build, chrom, lo, hi):
    xn, yn = ('chrX', 'chrY') if style_chr else ('X', 'Y')
    b = build.lower() if build else None
    if chrom == xn:
        return 'parX' if b and any(a <= lo and hi <= z for a, z in PAR[b]['X']) else 'X'
    if chrom == yn:
        return 'parY' if b and any(a <= lo and hi <= z for a, z in PAR[b]['Y']) else 'Y'
    return 'auto'


def py_copies(k, male_ref, female, kl):
    """(r, x): copies in the reference / expected in the sample"""
    if kl in ('auto', 'parX'):
        return k, k
    if kl == 'X':
        return (k // 2 if male_ref else k), (k if female else k // 2)
    if kl == 'Y':
        return k // 2, (0 if female else k // 2)
    return 0, 0


def rhe(q):
    """round half to even of an exact rational"""
    f = math.floor(q)
    d = q - f
    if d < HALF:
        return f
    if d > HALF:
        return f + 1
    return f if f % 2 == 0 else f + 1


def exp2(v):
    return F(float(np.float64(2.0) ** np.float64(v)))


def row_truth(cfg, has_cn, row):
    """(ncopies, expected, ambiguous) for a row of a consistently named table"""
    kl = py_class(cfg['style'], cfg['build'], row['chrom'], row['start'], row['end'])
    r, x = py_copies(cfg['ploidy'], cfg['hapx'], cfg['female'], kl)
    if has_cn:
        return row['cn'], x, False
    a = r * exp2(row['log2'])
    d = a - math.floor(a)
    amb = d != HALF and abs(float(d - HALF)) < AMBIG * max(1.0, float(a))
    return rhe(a), x, amb


# --------------------------------------------------------------------------------------
# building the code's inputs


def gene_tok(g):
    return '' if g is None else g


def make_cna(rows, has_cn, probes, sid='gen'):
    from cnvlib.cnary import CopyNumArray
    d = {
        'chromosome': pd.Series([r['chrom'] for r in rows], dtype=object),
        'start': np.array([r['start'] for r in rows], dtype=np.int64),
        'end': np.array([r['end'] for r in rows], dtype=np.int64),
        'gene': pd.Series([np.nan if r.get('gene') is None else r['gene'] for r in rows], dtype=object),
        'log2': np.array([r['log2'] for r in rows], dtype=np.float64),
    }
    if has_cn:
        d['cn'] = np.array([r['cn'] for r in rows], dtype=np.int64)
    if probes == 'int':
        d['probes'] = np.array([r['probes'] for r in rows], dtype=np.int64)
    elif probes == 'float':
        d['probes'] = np.array([float(r['probes']) for r in rows], dtype=np.float64)
    return CopyNumArray(pd.DataFrame(d), {'sample_id': sid})


def model_seg(row, probes):
    return [row['chrom'], row['start'], row['end'], gene_tok(row.get('gene')), F(row['log2']), exp2(row['log2']),
            int(row.get('cn', 0)), (row['probes'] if probes == 'int' else None)]


def model_cfg(cfg, has_cn):
    return [cfg['ploidy'], bool(cfg['hapx']), bool(cfg['female']), cfg['build'], bool(has_cn)]


def read_lines(path):
    with open(path) as fh:
        text = fh.read()
    lines = text.split('\n')
    if lines and lines[-1] == '':
        lines.pop()
    return [l.split('\t') for l in lines]


# --------------------------------------------------------------------------------------
# BED + VCF on one segment table


def run_bed(case, arr, show, label, scratch):
    """export_bed -> frame rows, and the same through the written file"""
    from cnvlib import export
    from cnvlib.cmdutil import write_dataframe
    cfg = case['cfg']
    try:
        tbl = export.export_bed(arr, cfg['ploidy'], cfg['hapx'], cfg['build'], cfg['female'], label, show)
    except AssertionError:
        return Err('AssertionError')
    nc = tbl['ncopies']
    if len(tbl) and not np.issubdtype(nc.dtype, np.integer):
        return Err('ncopies dtype %s is not an integer type' % nc.dtype)
    rows = []
    for ch, s, e, l, n in zip(tbl['chromosome'], tbl['start'], tbl['end'], tbl['label'], tbl['ncopies']):
        rows.append([str(ch), int(s), int(e), '' if (isinstance(l, float) and l != l) else str(l), int(n)])
    path = os.path.join(scratch, 'out.bed')
    write_dataframe(path, tbl, header=False)
    frows = []
    for f in read_lines(path):
        if len(f) != 5:
            return Err('BED line with %d fields: %r' % (len(f), f))
        frows.append([f[0], int(f[1]), int(f[2]), f[3], int(f[4])])
    os.remove(path)
    if frows != rows:
        return Err('BED file differs from the frame: %r vs %r' % (frows[:3], rows[:3]))
    return rows


def num_or_none(t):
    v = float(t)
    if v != v:
        return None
    if v != int(v):
        raise ValueError('non-integral CI bound %r' % t)
    return int(v)


def parse_vcf(header, body):
    """-> (column names, [record dict])"""
    if not header.startswith('##fileformat=VCFv4'):
        return Err('VCF header does not start with ##fileformat')
    lines = body.split('\n')
    if lines and lines[-1] == '':
        lines.pop()
    if not lines:
        return Err('VCF body has no column line')
    cols = lines[0].split('\t')
    recs = []
    for l in lines[1:]:
        f = l.split('\t')
        if len(f) != 10:
            return Err('VCF record with %d fields' % len(f))
        info = {}
        for item in f[7].split(';'):
            if '=' in item:
                k, v = item.split('=', 1)
                info[k] = v
            else:
                info[item] = True
        try:
            ci = None
            if 'CIPOS' in info or 'CIEND' in info:
                a, b = info['CIPOS'].strip('()').split(',')
                c, d = info['CIEND'].strip('()').split(',')
                ci = [num_or_none(a), num_or_none(b), num_or_none(c), num_or_none(d)]
            recs.append(dict(chrom=f[0], pos=int(f[1]), id=f[2], ref=f[3], alt=f[4], qual=f[5], filter=f[6],
                             imprecise=info.get('IMPRECISE') is True, svtype=info['SVTYPE'], end=int(info['END']),
                             svlen=int(info['SVLEN']), fold=float(info['FOLD_CHANGE']), log2=float(info['FOLD_CHANGE_LOG']),
                             probes=int(info['PROBES']), ci=ci, format=f[8], sample=f[9],
                             info_keys=[i.split('=')[0] for i in f[7].split(';')]))
        except (KeyError, ValueError) as ex:
            return Err('VCF INFO not parseable (%s): %s' % (ex, f[7]))
    return cols, recs


def run_vcf(case, arr, binarr, text=None):
    from cnvlib import export
    cfg = case['cfg']
    try:
        header, body = export.export_vcf(arr, cfg['ploidy'], cfg['hapx'], cfg['build'], cfg['female'],
                                         case.get('sample_id'), binarr)
    except AssertionError:
        return Err('AssertionError')
    except ValueError:
        return Err('ValueError')
    if text is not None:
        text['header'], text['body'] = header, body
    return parse_vcf(header, body)


# ---- the VCF text layer -------------------------------------------------------------------------

HEADER_FIXED = [
    '##INFO=<ID=CIEND,Number=2,Type=Integer,Description="Confidence interval around END for imprecise variants">',
    '##INFO=<ID=CIPOS,Number=2,Type=Integer,Description="Confidence interval around POS for imprecise variants">',
    '##INFO=<ID=END,Number=1,Type=Integer,Description="End position of the variant described in this record">',
    '##INFO=<ID=IMPRECISE,Number=0,Type=Flag,Description="Imprecise structural variation">',
    '##INFO=<ID=SVLEN,Number=1,Type=Integer,Description="Difference in length between REF and ALT alleles">',
    '##INFO=<ID=SVTYPE,Number=1,Type=String,Description="Type of structural variant">',
    '##INFO=<ID=FOLD_CHANGE,Number=1,Type=Float,Description="Fold change">',
    '##INFO=<ID=FOLD_CHANGE_LOG,Number=1,Type=Float,Description="Log fold change">',
    '##INFO=<ID=PROBES,Number=1,Type=Integer,Description="Number of probes in CNV">',
    '##ALT=<ID=DEL,Description="Deletion">',
    '##ALT=<ID=DUP,Description="Duplication">',
    '##ALT=<ID=CNV,Description="Copy number variable region">',
    '##FORMAT=<ID=GT,Number=1,Type=String,Description="Genotype">',
    '##FORMAT=<ID=GQ,Number=1,Type=Float,Description="Genotype quality">',
    '##FORMAT=<ID=CN,Number=1,Type=Integer,Description="Copy number genotype for imprecise events">',
    '##FORMAT=<ID=CNQ,Number=1,Type=Float,Description="Copy number genotype quality for imprecise events">',
]


def date_candidates():
    """VCF_HEADER is formatted when cnvlib.export is imported: today, or yesterday when the run crosses midnight"""
    import time
    now = time.time()
    return [time.strftime('%Y%m%d', time.localtime(now)), time.strftime('%Y%m%d', time.localtime(now - 86400))]


def cnvkit_version():
    from cnvlib._version import __version__
    return __version__


def float_tokens(v):
    """the texts of 2.0 ** log2 and of log2 in the INFO field (Python float printing: an oracle of the text model)"""
    v = float(v)
    return [str(2.0 ** v), str(v)]


def split_lines(text):
    lines = text.split('\n')
    if lines and lines[-1] == '':
        lines.pop()
    return lines


def py_ci(bins, rows):
    """direct oracle for CIPOS / CIEND: per table row [pos_left, pos_right, end_left, end_right] (None = no bin)"""
    margins = []
    for r in rows:
        ov = [(s, e) for c, s, e in bins if c == r['chrom'] and s < r['end'] and e > r['start']]
        margins.append((ov[0][1] - r['start'], r['end'] - ov[-1][0]) if ov else (None, None))
    out = []
    for i in range(len(rows)):
        pl = 0 if i == 0 else (None if margins[i - 1][1] is None else -margins[i - 1][1])
        er = 0 if i == len(rows) - 1 else margins[i + 1][0]
        out.append([pl, margins[i][0], margins[i][1], er])
    return out


def grouped_by_chrom(rows):
    seen, last = set(), None
    for r in rows:
        if r['chrom'] != last:
            if r['chrom'] in seen:
                return False
            seen.add(r['chrom'])
            last = r['chrom']
    return True


def expected_text_line(row, n, x, probes_val):
    """direct oracle for one record line, up to (not including) the CIPOS / CIEND items"""
    w = expected_vcf_record(row, n, x, probes_val)
    t = float_tokens(row['log2'])
    info = 'IMPRECISE;SVTYPE=%s;END=%d;SVLEN=%d;FOLD_CHANGE=%s;FOLD_CHANGE_LOG=%s;PROBES=%d' % (
        w['svtype'], w['end'], w['svlen'], t[0], t[1], probes_val)
    return [w['chrom'], str(w['pos']), '.', 'N', w['alt'], '.', '.', info, w['format'], w['sample']]


def check_vcf_text(ck, case, text, model_text, truth, amb, have_ci):
    """code text vs direct oracle (header, column line, record lines) and vs the model's text; -> #violations"""
    rows, probes, cfg = case['rows'], case['probes'], case['cfg']
    nv = 0
    hl = split_lines(text['header'])
    bl = split_lines(text['body'])
    sid = case.get('sample_id') or 'gen'
    dates = date_candidates()
    want_hdrs = [['##fileformat=VCFv4.2', '##fileDate=' + d, '##source=CNVkit v' + cnvkit_version()] + HEADER_FIXED for d in dates]
    if hl not in want_hdrs:
        ck.violation('VCF header lines are not the fixed VCFv4.2 header with today\'s date and the CNVkit version', case,
                     clause='C20_vcf_text_header', code=hl[:4], expected=want_hdrs[0][:4])
        return 1
    want_cols = '\t'.join(['#CHROM', 'POS', 'ID', 'REF', 'ALT', 'QUAL', 'FILTER', 'INFO', 'FORMAT', sid])
    if not bl or bl[0] != want_cols:
        ck.violation('VCF column line text is %r' % (bl[:1],), case, clause='C20_vcf_text_columns', code=bl[:1], expected=want_cols)
        return 1
    if truth is not None and not amb:
        want = []
        for row, (n, x, _) in zip(rows, truth):
            if n != x and probes == 'int' and row['probes'] >= 0:
                want.append('\t'.join(expected_text_line(row, n, x, row['probes'])))
        got = []
        for l in bl[1:]:
            f = l.split('\t')
            if len(f) == 10 and have_ci:
                items = f[7].split(';')
                if len(items) >= 2 and items[-2].startswith('CIPOS=(') and items[-1].startswith('CIEND=(') \
                        and items[-2].endswith(')') and items[-1].endswith(')'):
                    f[7] = ';'.join(items[:-2])
                else:
                    f[7] = f[7] + ' <no CIPOS/CIEND at the end>'
            got.append('\t'.join(f))
        if got != want:
            k = next((i for i, (a, b) in enumerate(zip(got, want)) if a != b), min(len(got), len(want)))
            ck.violation('VCF record line %d is not chrom, POS, ".", "N", <SVTYPE>, ".", ".", INFO, FORMAT, sample joined by tabs' % k, case,
                         clause='C20_vcf_text_line', code=got[k:k + 1], expected=want[k:k + 1])
            return 1
    # model vs code, on the text
    if model_text is None or amb:
        return nv
    m_hdr, m_body = model_text
    if isinstance(m_body, Err):
        ck.tie_break('model VCF text fails where the code does not', case, code=bl[:2], model=m_body)
        return nv
    m_hdr2 = [('##fileDate=' + dates[1]) if l == '##fileDate=' + dates[0] and hl[1] != l else l for l in m_hdr]
    if m_hdr2 != hl:
        ck.tie_break('model VCF header lines differ from the code', case, code=hl[:4], model=m_hdr[:4])
    if m_body != bl:
        k = next((i for i, (a, b) in enumerate(zip(bl, m_body)) if a != b), min(len(bl), len(m_body)))
        ck.tie_break('model VCF text line %d differs from the code' % k, case, code=bl[k:k + 1], model=m_body[k:k + 1])
    return nv


def rec_list(r):
    """record dict -> the model's field order"""
    return [r['chrom'], r['pos'], r['id'], r['ref'], r['alt'], r['qual'], r['filter'], r['svtype'], r['end'], r['svlen'],
            r['fold'], r['log2'], r['probes'], r['ci'], r['format'], r['sample']]


def recs_equal(code, model):
    if len(code) != len(model):
        return False
    for c, m in zip(code, model):
        c = rec_list(c)
        for j, (a, b) in enumerate(zip(c, m)):
            if j in (10, 11):
                if not vlib.close(a, b):
                    return False
            elif a != b:
                return False
    return True


SHOWS = ['all', 'ploidy', 'variant']


def is_consistent(cfg):
    return cfg.get('style') is not None and cfg['build'] in (None, 'grch37', 'grch38')


def bedvcf_requests(case):
    """model requests of a case: [(entry, value)]"""
    cfg, rows, probes = case['cfg'], case['rows'], case['probes']
    mc = model_cfg(cfg, case['has_cn'])
    segs = [model_seg(r, probes) for r in rows]
    reqs = [('c20_bed', [mc, case.get('label'), s, segs]) for s in SHOWS]
    reqs.append(('c20_vcf', [mc, case.get('sample_id'), 'gen', segs, case.get('bins')]))
    reqs.append(('c20_copies', [mc, segs]))
    if is_consistent(cfg):
        reqs.append(('c20_spec_bedvcf', [bool(cfg['style']), mc, case.get('label'), segs]))
    return reqs


def expected_vcf_record(row, n, x, probes_val):
    loss = n < x
    svtype = 'DEL' if loss else 'DUP'
    d = row['end'] - row['start']
    if loss:
        sample = '%s:%d' % ('1/1' if n == 0 else '0/1', probes_val)
        fmt = 'GT:GQ'
    else:
        sample = '0/1:0:%d:%d' % (n, probes_val)
        fmt = 'GT:GQ:CN:CNQ'
    return dict(chrom=row['chrom'], pos=(1 if row['start'] == 0 else row['start']), id='.', ref='N', alt='<%s>' % svtype,
                svtype=svtype, end=row['end'], svlen=(-d if loss else d), probes=probes_val, format=fmt, sample=sample)


def check_bedvcf(ck, case, scratch, model_out, count=True, src='', extra=None):
    """model_out: outputs of bedvcf_requests(case) in order"""
    cfg, rows, probes, has_cn = case['cfg'], case['rows'], case['probes'], case['has_cn']
    consistent = is_consistent(cfg)
    arr = make_cna(rows, has_cn, probes)
    binarr = None
    if case.get('bins') is not None:
        binarr = make_cna([dict(chrom=c, start=s, end=e, gene='-', log2=0.0) for c, s, e in case['bins']], False, 'none', sid='bins')
    m_bed = dict(zip(SHOWS, model_out[:3]))
    m_vcf = model_out[3]
    m_cop = model_out[4]
    if isinstance(m_cop, Err):
        raise RuntimeError('model c20_copies failed: %r' % m_cop)
    truth = [row_truth(cfg, has_cn, r) for r in rows] if consistent else None
    # ambiguity from the model's exact absolute value (used for the model comparison)
    amb_rows = set()
    if not has_cn:
        for i, (n, x, rf, ab) in enumerate(m_cop):
            d = ab - math.floor(ab)
            if d != HALF and abs(float(d - HALF)) < AMBIG * max(1.0, float(ab)):
                amb_rows.add(i)
        if truth:
            amb_rows |= {i for i, t in enumerate(truth) if t[2]}
    if amb_rows:
        ck.float_ambiguous += len(amb_rows)
    keys = [(r['chrom'], r['start'], r['end']) for r in rows]
    amb_keys = {keys[i] for i in amb_rows}
    key_index = {k: i for i, k in enumerate(keys)}
    nv = 0
    lab = case.get('label')
    if consistent and not amb_rows:
        # harness self-check: the oracle typed here == the Coq specification (Spec/Export.v) on this input
        spec = model_out[5]
        mine = []
        for show in SHOWS:
            mine.append([[r['chrom'], r['start'], r['end'], lab if lab else gene_tok(r.get('gene')), n]
                         for r, (n, x, _) in zip(rows, truth)
                         if show == 'all' or (show == 'ploidy' and n != cfg['ploidy']) or (show == 'variant' and n != x)])
        mine.append([[r['chrom'], r['end']] for r, (n, x, _) in zip(rows, truth) if n != x and probes == 'int' and r['probes'] >= 0])
        if spec != mine:
            raise RuntimeError('Coq Spec.Export disagrees with the python oracle on %r: %r vs %r' % (case, spec, mine))

    def viol(what, clause, **more):
        nonlocal nv
        nv += 1
        ck.violation(what, case, clause=clause, **more)

    # ---- BED -------------------------------------------------------------------------------
    bed_variant_keys = None
    for show in SHOWS:
        code = run_bed(case, arr, show, lab, scratch)
        model = m_bed[show]
        cls = '%sbed|%s|%s|%s' % (src, show, 'cn' if has_cn else 'log2', 'consistent' if consistent else 'edge')
        if isinstance(code, Err):
            if code.msg != 'AssertionError':
                viol('export_bed output malformed: %s' % code.msg, 'C20_bed_%s' % show, code=code)
            elif consistent:
                viol('export_bed refuses a supported configuration', 'C20_bed_%s' % show, code=code)
            elif code != model:
                ck.tie_break('error behaviour of export_bed differs from the model', case, code=code, model=model, show=show)
            if count:
                ck.count([show, case], nontrivial=False, cls=cls + '|error')
            continue
        bad = False
        if consistent:
            ckeys = [(r[0], r[1], r[2]) for r in code]
            if any(k not in key_index for k in ckeys) or [key_index[k] for k in ckeys] != sorted(set(key_index[k] for k in ckeys)):
                viol('export_bed(%s) emits rows that are not the table\'s segments in table order' % show,
                     'C20_bed_%s' % show, code=code)
                bad = True
            else:
                got = {k: r for k, r in zip(ckeys, code)}
                for i, (row, (n, x, amb)) in enumerate(zip(rows, truth)):
                    k = keys[i]
                    if k in amb_keys:
                        continue
                    keep = show == 'all' or (show == 'ploidy' and n != cfg['ploidy']) or (show == 'variant' and n != x)
                    want = [row['chrom'], row['start'], row['end'], lab if lab else gene_tok(row.get('gene')), n]
                    if keep != (k in got):
                        viol('export_bed(%s): segment %s with copy number %d (expected %d, ploidy %d) is %s' % (
                            show, k, n, x, cfg['ploidy'], 'missing' if keep else 'listed'), 'C20_bed_%s' % show,
                            code=code, expected=want if keep else None, row_index=i)
                        bad = True
                        break
                    if keep and got[k] != want:
                        viol('export_bed(%s): row for segment %s is %r' % (show, k, got[k]), 'C20_bed_%s' % show,
                             code=got[k], expected=want, row_index=i)
                        bad = True
                        break
                if show == 'variant' and not bad:
                    bed_variant_keys = [k for k in ckeys if k not in amb_keys]
        if count:
            ck.count([show, case], nontrivial=bool(code) and len(code) < len(rows) or (show == 'all' and bool(rows)), cls=cls)
        if bad:
            continue
        if isinstance(model, Err):
            ck.tie_break('model export_bed fails where the code does not', case, code=code[:4], model=model, show=show)
        else:
            c2 = [r for r in code if (r[0], r[1], r[2]) not in amb_keys]
            m2 = [r for r in model if (r[0], r[1], r[2]) not in amb_keys]
            if c2 != m2:
                ck.tie_break('model export_bed(%s) differs from the code' % show, case, code=c2[:6], model=m2[:6], show=show)

    # ---- VCF -------------------------------------------------------------------------------
    text = {}
    extra = extra or {}
    have_ci = bool(case.get('bins'))
    code = run_vcf(case, arr, binarr, text)
    cls = '%svcf|%s|%s|probes-%s%s' % (src, 'cn' if has_cn else 'log2', 'consistent' if consistent else 'edge', probes,
                                      '|ci' if binarr is not None else '')
    m_hdr, m_recs = m_vcf
    if isinstance(code, Err):
        if code.msg not in ('AssertionError', 'ValueError'):
            viol('export_vcf output malformed: %s' % code.msg, 'C20_vcf_fields', code=code)
        elif consistent and binarr is None:
            viol('export_vcf refuses a supported configuration', 'C20_vcf_rows', code=code)
        elif code != m_recs:
            ck.tie_break('error behaviour of export_vcf differs from the model', case, code=code, model=m_recs)
        if count:
            ck.count(['vcf', case], nontrivial=False, cls=cls + '|error')
        return nv
    cols, recs = code
    bad = False
    want_cols = ['#CHROM', 'POS', 'ID', 'REF', 'ALT', 'QUAL', 'FILTER', 'INFO', 'FORMAT', case.get('sample_id') or 'gen']
    if cols != want_cols:
        viol('VCF column line is %r' % cols, 'C20_vcf_fields', code=cols, expected=want_cols)
        bad = True
    if consistent and not bad:
        by_end = {(r['chrom'], r['end']): i for i, r in enumerate(rows)}
        idx = [by_end.get((r['chrom'], r['end'])) for r in recs]
        if any(i is None for i in idx) or idx != sorted(set(i for i in idx if i is not None)):
            viol('export_vcf emits records that are not the table\'s segments, one each, in table order', 'C20_vcf_rows',
                 code=[rec_list(r)[:10] for r in recs])
            bad = True
        else:
            got = dict(zip(idx, recs))
            for i, (row, (n, x, amb)) in enumerate(zip(rows, truth)):
                if keys[i] in amb_keys:
                    continue
                numeric = probes == 'int' and row['probes'] >= 0
                keep = n != x and numeric
                if keep != (i in got):
                    viol('export_vcf: segment %s with copy number %d (expected %d) has %s record' % (
                        keys[i], n, x, 'no' if keep else 'a'), 'C20_vcf_rows', code=[rec_list(r)[:10] for r in recs], row_index=i)
                    bad = True
                    break
                if not keep:
                    continue
                want = expected_vcf_record(row, n, x, row['probes'])
                g = got[i]
                diff = [f for f in want if g[f] != want[f]]
                if not g['imprecise']:
                    diff.append('IMPRECISE')
                if g['filter'] != '.' or g['qual'] != '.':
                    diff.append('QUAL/FILTER')
                if not vlib.close(g['fold'], exp2(row['log2'])) or not vlib.close(g['log2'], F(row['log2'])):
                    diff.append('FOLD_CHANGE')
                if diff:
                    viol('export_vcf: record of segment %s has wrong %s' % (keys[i], ', '.join(diff)), 'C20_vcf_fields',
                         code=rec_list(g), expected=want, row_index=i)
                    bad = True
                    break
            if not bad and bed_variant_keys is not None and probes == 'int' and all(r['probes'] >= 0 for r in rows):
                vkeys = [keys[i] for i in idx if keys[i] not in amb_keys]
                if vkeys != bed_variant_keys:
                    viol('BED variant rows and VCF records name different segments', 'C20_vcf_rows',
                         code={'bed': bed_variant_keys, 'vcf': vkeys})
                    bad = True
            # CIPOS / CIEND: carried iff a (non-empty) .cnr is given, and equal to the margins to the first / last bin
            if not bad:
                if any((g['ci'] is not None) != have_ci for g in recs):
                    viol('export_vcf: CIPOS/CIEND are %s although %s .cnr is given' % (
                        'missing' if have_ci else 'present', 'a' if have_ci else 'no'), 'C20_vcf_ci',
                        code=[rec_list(r)[13] for r in recs][:6])
                    bad = True
                elif have_ci and grouped_by_chrom(rows):
                    want_ci = py_ci(case['bins'], rows)
                    if extra.get('spec_ci') is not None and extra['spec_ci'] != want_ci:
                        raise RuntimeError('Coq Spec.Export.sp_ci disagrees with the python oracle on %r: %r vs %r' % (
                            case, extra['spec_ci'], want_ci))
                    for i, g in zip(idx, recs):
                        if g['ci'] != want_ci[i]:
                            viol('export_vcf: CIPOS/CIEND of segment %s are not the margins to the first / last bin inside it '
                                 '(and its neighbours\')' % (keys[i],), 'C20_vcf_ci', code=g['ci'], expected=want_ci[i], row_index=i)
                            bad = True
                            break
    if count:
        ck.count(['vcf', case], nontrivial=bool(recs), cls=cls)
    if bad:
        return nv
    if m_hdr != cols:
        ck.tie_break('model VCF column line differs', case, code=cols, model=m_hdr)
    if isinstance(m_recs, Err):
        ck.tie_break('model export_vcf fails where the code does not', case, code=[rec_list(r) for r in recs[:3]], model=m_recs)
    else:
        amb_ends = {(k[0], k[2]) for k in amb_keys}
        c2 = [r for r in recs if (r['chrom'], r['end']) not in amb_ends]
        m2 = [m for m in m_recs if (m[0], m[8]) not in amb_ends]
        if amb_ends and binarr is not None:
            pass        # CI columns of neighbours shift when a record is dropped: nothing more to compare
        elif not recs_equal(c2, m2):
            ck.tie_break('model export_vcf differs from the code', case, code=[rec_list(r) for r in c2[:4]], model=m2[:4])
    # the emitted text: header lines, column line, record lines (direct oracle + model)
    nv += check_vcf_text(ck, case, text, extra.get('text'), truth if consistent else None, bool(amb_rows), have_ci)
    # assign_ci_start_end on its own: brute-force overlap oracle
    if binarr is not None and rows:
        nv += check_assign_ci(ck, case, arr, binarr)
    return nv


def check_assign_ci(ck, case, arr, binarr):
    from cnvlib import export
    try:
        out = export.assign_ci_start_end(arr, binarr)
    except ValueError:
        return 0
    lefts = [None if v != v else int(v) for v in out.data['ci_left'].astype(float)]
    rights = [None if v != v else int(v) for v in out.data['ci_right'].astype(float)]
    for i, r in enumerate(case['rows']):
        ov = [(s, e) for c, s, e in case['bins'] if c == r['chrom'] and s < r['end'] and e > r['start']]
        want = (ov[0][1], ov[-1][0]) if ov else (None, None)
        if (lefts[i], rights[i]) != want:
            ck.violation('assign_ci_start_end: segment %d gets (%r, %r)' % (i, lefts[i], rights[i]), case,
                         clause='C20_vcf_fields', code=[lefts[i], rights[i]], expected=list(want))
            return 1
    return 0


# --------------------------------------------------------------------------------------
# generators for segment tables


def par_coords(build, sex):
    b = (build or 'grch37').lower()
    if b not in PAR:
        b = 'grch37'
    (a1, z1), (a2, z2) = PAR[b][sex]
    return [(a1, z1), (a1 + 1, z1 - 1), (a1 - 1, z1), (a1, z1 + 1), (z1 - 10, z1 + 10), (z1 + 1, a2 - 1),
            (a2, z2), (a2 + 1000, a2 + 2000), (a2 - 1, z2), (z2, z2 + 1000), (0, a1)]


def gen_chrom_segments(rng, chrom, build, sex, nmax):
    """non-overlapping, sorted (start, end) on one chromosome, unique ends"""
    if sex and rng.random() < 0.7:
        cands = par_coords(build, sex)
        pick = sorted(rng.sample(cands, rng.randint(1, min(nmax, 4))))
        out, last = [], -1
        for s, e in pick:
            if s >= last and e > s:
                out.append((s, e))
                last = e
        return out
    n = rng.randint(1, nmax)
    pos = 0 if rng.random() < 0.5 else rng.choice([1, 2, 100, rng.randint(0, 10 ** 6)])
    out = []
    for _ in range(n):
        ln = rng.choice([1, 2, 100, rng.randint(1, 10 ** 6), rng.randint(1, 5 * 10 ** 7)])
        out.append((pos, pos + ln))
        pos += ln + rng.choice([0, 0, 1, rng.randint(0, 10 ** 5)])
    return out


def boundary_log2(rng, r, x, k):
    """log2 values around the decisions: r*2^v crossing j + 1/2, equal to expected / ploidy, exact ties"""
    if r <= 0:
        return float(rng.choice([-1.0, 0.0, 1.0, rng.uniform(-3, 3)]))
    j = rng.choice([0, 0, 1, x, x, max(x - 1, 0), k, rng.randint(0, 9)])
    kind = rng.choice(['tie', 'near', 'near', 'int', 'int', 'rand'])
    if kind == 'int':
        return float(np.log2(j / r)) if j > 0 else rng.choice([-30.0, -8.0])
    if kind == 'rand':
        return rng.uniform(-4, 3)
    e = (j + 0.5) / r
    v = float(np.log2(e))
    if kind == 'tie':
        return v
    return v + rng.choice([-1e-6, 1e-6, -1e-4, 1e-4, -1e-9, 1e-9])


GENES = ['-', 'TP53', 'A,B', 'g.1', None, 'x-y', 'Antitarget', 'CGH']


def gen_case(rng, quick_rows=True):
    style = rng.random() < 0.5
    cfg = dict(ploidy=rng.randint(1, 6), hapx=rng.random() < 0.5, female=rng.random() < 0.5,
               build=rng.choice([None, None, 'grch37', 'grch38']), style=style)
    has_cn = rng.random() < 0.5
    probes = rng.choice(['int'] * 8 + ['none', 'float'])
    autos = [('chr%d' if style else '%d') % i for i in sorted(rng.sample(range(1, 23), rng.randint(0, 3)))]
    chroms = [(c, None) for c in autos]
    if rng.random() < 0.8:
        chroms.append(('chrX' if style else 'X', 'X'))
    if rng.random() < 0.7:
        chroms.append(('chrY' if style else 'Y', 'Y'))
    if not chroms:
        chroms = [('chr1' if style else '1', None)]
    if rng.random() < 0.15:
        rng.shuffle(chroms)            # a sex chromosome may come first: the labels must not depend on it
    rows = []
    for chrom, sex in chroms:
        for s, e in gen_chrom_segments(rng, chrom, cfg['build'], sex, 4):
            kl = py_class(style, cfg['build'], chrom, s, e)
            r, x = py_copies(cfg['ploidy'], cfg['hapx'], cfg['female'], kl)
            v = boundary_log2(rng, r, x, cfg['ploidy'])
            cn = rng.choice([x, x, cfg['ploidy'], x + 1, max(x - 1, 0), 0, rng.randint(0, 8)])
            pr = rng.choice([0, 1, 5, rng.randint(1, 3000)]) if rng.random() < 0.97 else -rng.randint(1, 5)
            rows.append(dict(chrom=chrom, start=s, end=e, gene=rng.choice(GENES), log2=v, cn=cn, probes=pr))
    if rng.random() < 0.03:
        rows = []
    case = dict(kind='bedvcf', cfg=cfg, has_cn=has_cn, probes=probes, rows=rows,
                label=rng.choice([None, None, '', 'LBL', 'sample 1']), sample_id=rng.choice([None, None, 'ZZ', '']), bins=None)
    if rows and rng.random() < 0.2:
        case['bins'] = gen_bins(rng, rows)
    return resample_ambiguous(rng, case)


def resample_ambiguous(rng, case):
    """replace log2 values whose r*2^log2 lies within 1e-7 of k + 1/2 without being an exact tie"""
    if case['has_cn'] or case['cfg'].get('style') is None:
        return case
    for r in case['rows']:
        for _ in range(5):
            if not row_truth(case['cfg'], False, r)[2]:
                break
            r['log2'] = r['log2'] + rng.choice([-1e-5, 1e-5])
    return case


def gen_bins(rng, rows):
    """sorted disjoint bins per chromosome around the segments (some chromosomes without any bin)"""
    bins = []
    seen = []
    for r in rows:
        if r['chrom'] not in seen:
            seen.append(r['chrom'])
    for c in seen:
        if rng.random() < 0.15:
            continue
        segs = [r for r in rows if r['chrom'] == c]
        pos = max(0, segs[0]['start'] - rng.choice([0, 0, 50]))
        stop = segs[-1]['end'] + rng.choice([0, 0, 100])
        cuts = {pos, stop}
        for r in segs:
            if rng.random() < 0.8:
                cuts.add(r['start'])
            if rng.random() < 0.8:
                cuts.add(r['end'])
            for _ in range(rng.randint(0, 3)):
                if r['end'] - r['start'] > 2:
                    cuts.add(rng.randint(r['start'] + 1, r['end'] - 1))
        cuts = sorted(cuts)
        for a, b in zip(cuts, cuts[1:]):
            if rng.random() < 0.85:
                if rng.random() < 0.2 and b - a > 3:
                    b = b - 1
                bins.append([c, a, b])
    return bins or None


EDGE_NAMES = ['chr1', '1', 'chrX', 'X', 'chrY', 'Y', 'chrx', 'x', 'chry', 'CHRX', 'chrXX', 'chr', 'chrM', ' chrX', 'chr23']


def gen_edge_case(rng):
    cfg = dict(ploidy=rng.randint(1, 6), hapx=rng.random() < 0.5, female=rng.random() < 0.5,
               build=rng.choice([None, 'grch37', 'grch38', 'GRCh38', 'GRCH37', 'hg19', 'grch39', '']), style=None)
    rows, used = [], set()
    for i in range(rng.randint(0, 8)):
        chrom = rng.choice(EDGE_NAMES)
        sex = 'Y' if 'y' in chrom.lower() else 'X'
        s, e = rng.choice(par_coords(cfg['build'], sex))
        e = e + i            # unique (chrom, end)
        if (chrom, e) in used or e <= s:
            continue
        used.add((chrom, e))
        rows.append(dict(chrom=chrom, start=s, end=e, gene=rng.choice(GENES), log2=float(rng.choice([rng.uniform(-4, 3), -1.0, 0.0, 1.0])),
                         cn=rng.randint(0, 6), probes=rng.randint(0, 50)))
    case = dict(kind='bedvcf', cfg=cfg, has_cn=rng.random() < 0.5, probes=rng.choice(['int', 'int', 'none', 'float']), rows=rows,
                label=rng.choice([None, 'L']), sample_id=None, bins=None)
    # nudge ambiguous values (judged through the model later); here only exact-looking numbers are used
    return case


def run_bedvcf_cases(ck, cases, scratch, count=True, src=''):
    reqs = [bedvcf_requests(c) for c in cases]
    flat = {}
    for ci, rq in enumerate(reqs):
        for j, (entry, val) in enumerate(rq):
            flat.setdefault(entry, []).append((ci, j, val))
    outs = [[None] * len(rq) for rq in reqs]
    for entry, items in flat.items():
        res = vlib.model_batch_parallel(entry, [v for _, _, v in items])
        for (ci, j, _), r in zip(items, res):
            outs[ci][j] = r
    # second phase: the text layer (needs the float tokens of the records the model emits) and the CI specification
    version, date = cnvkit_version(), date_candidates()[0]
    treq, tidx, sreq, sidx = [], [], [], []
    for ci, (c, o) in enumerate(zip(cases, outs)):
        m_vcf = o[3]
        if isinstance(m_vcf, list) and len(m_vcf) == 2 and isinstance(m_vcf[1], list):
            by_end = {}
            for r in c['rows']:
                by_end.setdefault((r['chrom'], r['end']), r)
            toks = [float_tokens(by_end[(m[0], m[8])]['log2']) if (m[0], m[8]) in by_end else ['?', '?'] for m in m_vcf[1]]
            mc = model_cfg(c['cfg'], c['has_cn'])
            segs = [model_seg(r, c['probes']) for r in c['rows']]
            treq.append([mc, c.get('sample_id'), 'gen', segs, c.get('bins'), toks, date, version])
            tidx.append(ci)
        if c.get('bins') and c['rows'] and grouped_by_chrom(c['rows']):
            sreq.append([c['bins'], [model_seg(r, c['probes']) for r in c['rows']]])
            sidx.append(ci)
    extras = [dict() for _ in cases]
    if treq:
        for ci, r in zip(tidx, vlib.model_batch_parallel('c20_vcf_text', treq)):
            extras[ci]['text'] = r
    if sreq:
        for ci, r in zip(sidx, vlib.model_batch('c20_spec_ci', sreq)):
            extras[ci]['spec_ci'] = r
    nv = 0
    for c, o, x in zip(cases, outs, extras):
        nv += check_bedvcf(ck, c, scratch, o, count=count, src=src, extra=x)
    return nv


# --------------------------------------------------------------------------------------
# files for the sample-based exports (SEG, CDT, JTV, nexus)


def fmt_float(v):
    return repr(float(v))


def write_table(path, rows, probes=True, gene=True, extra_weight=False):
    os.makedirs(os.path.dirname(path), exist_ok=True)
    cols = ['chromosome', 'start', 'end'] + (['gene'] if gene else []) + ['log2'] + (['probes'] if probes else []) \
        + (['weight'] if extra_weight else [])
    with open(path, 'w') as fh:
        fh.write('\t'.join(cols) + '\n')
        for r in rows:
            f = [r['chrom'], str(r['start']), str(r['end'])]
            if gene:
                f.append('' if r.get('gene') is None else r['gene'])
            f.append(fmt_float(r['log2']))
            if probes:
                f.append(str(r['probes']))
            if extra_weight:
                f.append('1.0')
            fh.write('\t'.join(f) + '\n')


def loaded_rows(path):
    """the table as the exporters see it (cmdutil.read_cna): rows in the reader's order"""
    from cnvlib.cmdutil import read_cna
    arr = read_cna(path)
    d = arr.data
    out = []
    for i in range(len(d)):
        g = d['gene'].iat[i] if 'gene' in d else None
        out.append(dict(chrom=str(d['chromosome'].iat[i]), start=int(d['start'].iat[i]), end=int(d['end'].iat[i]),
                        gene=None if (g is None or (isinstance(g, float) and g != g)) else str(g),
                        log2=float(d['log2'].iat[i]),
                        probes=int(d['probes'].iat[i]) if 'probes' in d else None))
    return arr.sample_id, out


def natural_table(rng, style, nmax_chrom=4, nmax_rows=4, sex=True):
    """rows already in the reader's order: autosomes by number, X, Y; starts ascending"""
    autos = [('chr%d' if style else '%d') % i for i in sorted(rng.sample(range(1, 23), rng.randint(1, nmax_chrom)))]
    chroms = autos + ([('chrX' if style else 'X')] if sex and rng.random() < 0.6 else []) \
        + ([('chrY' if style else 'Y')] if sex and rng.random() < 0.4 else [])
    rows = []
    for c in chroms:
        for s, e in gen_chrom_segments(rng, c, None, None, nmax_rows):
            rows.append(dict(chrom=c, start=s, end=e, gene=rng.choice(GENES),
                             log2=rng.choice([rng.uniform(-5, 5), 0.0, -1.0, 1e-7, -20.0, round(rng.uniform(-3, 3), 3)]),
                             probes=rng.randint(0, 5000)))
    return rows


def frame_text(v):
    if isinstance(v, float) and v != v:
        return None
    return v


def seg_model_sample(sid, rows, probes):
    return [sid, [[r['chrom'], r['start'], r['end'], gene_tok(r.get('gene')), F(r['log2']), F(0), 0,
                   (r['probes'] if probes else None)] for r in rows]]


def run_seg(case, scratch):
    """-> (frame rows, file rows) or Err; also the loaded tables"""
    from cnvlib import export
    from cnvlib.cmdutil import write_dataframe
    fnames, loaded = [], []
    for j, smp in enumerate(case['samples']):
        p = os.path.join(scratch, 'seg', 'd%d' % j, smp['id'] + '.cns')
        write_table(p, smp['rows'], probes=smp['probes'])
        fnames.append(p)
        loaded.append(loaded_rows(p))
    kw = {}
    if case['chrom_ids'] != 'default':
        kw['chrom_ids'] = {'None': None, 'True': True, 'False': False}[case['chrom_ids']]
    try:
        tbl = export.export_seg(fnames, **kw)
    except ValueError:
        return Err('ValueError'), loaded
    has_probes = 'num.mark' in tbl.columns
    rows = []
    for i in range(len(tbl)):
        pm = tbl['num.mark'].iat[i] if has_probes else None
        rows.append([str(tbl['ID'].iat[i]), str(tbl['chrom'].iat[i]), int(tbl['loc.start'].iat[i]), int(tbl['loc.end'].iat[i]),
                     None if (pm is None or pm != pm) else int(pm), float(tbl['seg.mean'].iat[i])])
    path = os.path.join(scratch, 'out.seg')
    write_dataframe(path, tbl)
    lines = read_lines(path)
    os.remove(path)
    hdr = lines[0]
    want_hdr = ['ID', 'chrom', 'loc.start', 'loc.end'] + (['num.mark'] if has_probes else []) + ['seg.mean']
    if sorted(hdr) != sorted(want_hdr):
        return Err('SEG header is %r' % hdr), loaded
    pos = {h: i for i, h in enumerate(hdr)}
    frows = []
    for f in lines[1:]:
        if len(f) != len(hdr):
            return Err('SEG line with %d fields' % len(f)), loaded
        pm = f[pos['num.mark']] if has_probes else ''
        frows.append([f[pos['ID']], f[pos['chrom']], int(f[pos['loc.start']]), int(f[pos['loc.end']]),
                      None if pm == '' else int(float(pm)), float(f[pos['seg.mean']])])
    return (rows, frows), loaded


def seg_rows_equal(code, want, tol):
    if len(code) != len(want):
        return False
    for c, w in zip(code, want):
        if c[:5] != list(w[:5]):
            return False
        if not vlib.close(c[5], w[5], tol):
            return False
    return True


def seg_want(samples, enumerate_ids):
    """direct oracle: the SEG rows of the generated samples (tables sorted by construction)"""
    first_names = []
    if samples:
        for r in samples[0]['rows']:
            if r['chrom'] not in first_names:
                first_names.append(r['chrom'])
    want = []
    for smp in samples:
        for r in smp['rows']:
            ch = r['chrom']
            if enumerate_ids and ch in first_names:
                ch = str(first_names.index(ch) + 1)
            want.append([smp['id'], ch, r['start'] + 1, r['end'], r['probes'] if smp['probes'] else None, F(r['log2'])])
    return want


def check_seg(ck, case, scratch, count=True, model=None):
    res, loaded = run_seg(case, scratch)
    req = [{'default': None, 'None': 'None', 'True': True, 'False': False}[case['chrom_ids']],
           [seg_model_sample(sid, rows, smp['probes']) for (sid, rows), smp in zip(loaded, case['samples'])]]
    if model is None:
        model = vlib.model_batch('c20_seg', [req])[0]
    enumerate_ids = case['chrom_ids'] in ('None', 'True')
    want = seg_want(case['samples'], enumerate_ids)
    if case.get('sorted', True):
        spec = vlib.model_batch('c20_spec_seg', [[enumerate_ids, [seg_model_sample(smp['id'], smp['rows'], smp['probes'])
                                                                   for smp in case['samples']]]])[0]
        if spec != [list(w) for w in want]:
            raise RuntimeError('Coq Spec.Export.sp_seg_rows disagrees with the python oracle on %r: %r vs %r' % (case, spec, want))
    cls = 'seg|ids-%s|%d samples' % (case['chrom_ids'], len(case['samples']))
    if count:
        ck.count(case, nontrivial=bool(want), cls=cls)
    if isinstance(res, Err):
        if case['samples'] or res.msg != 'ValueError':
            ck.violation('export_seg fails: %s' % res.msg, case, clause='C20_seg', code=res)
            return 1
        if model != res:
            ck.tie_break('error behaviour of export_seg differs from the model', case, code=res, model=model)
        return 0
    rows, frows = res
    if not case.get('sorted', True):
        ok = sorted(map(repr, [r[:5] for r in rows])) == sorted(map(repr, [w[:5] for w in want])) if not enumerate_ids else True
        ok_f = ok
    else:
        ok = seg_rows_equal(rows, want, vlib.TOL)
        ok_f = seg_rows_equal(frows, want, 1e-5)
    if not ok or not ok_f:
        ck.violation('export_seg %s does not list each sample\'s segments under its id with start+1, end, probes, mean' % (
            'frame' if not ok else 'file'), case, clause='C20_seg', code=(rows if not ok else frows)[:8], expected=want[:8])
        return 1
    if isinstance(model, Err) or not seg_rows_equal(rows, model, vlib.TOL):
        ck.tie_break('model export_seg differs from the code', case, code=rows[:8], model=model if isinstance(model, Err) else model[:8])
    return 0


def gen_seg_case(rng):
    style = rng.random() < 0.5
    n = rng.choice([1, 1, 2, 3, 4, 5])
    samples = []
    all_probes = rng.random() < 0.8
    for j in range(n):
        rows = natural_table(rng, style)
        if j > 0 and rng.random() < 0.3:
            # chromosomes the first sample does not have / different breakpoints
            rows = natural_table(rng, style, nmax_chrom=6)
        if rng.random() < 0.05:
            rows = []
        samples.append(dict(id=rng.choice(['S%d' % j, 'sample_%d' % j, 'T-%d' % j, 'S0']), rows=rows,
                            probes=all_probes if rng.random() < 0.9 else not all_probes))
    if rng.random() < 0.15 and samples[0]['rows']:
        # numeric names that already are (or collide with) ids
        m = {}
        for r in samples[0]['rows']:
            m.setdefault(r['chrom'], None)
        names = sorted(rng.sample(range(1, 9), min(len(m), 8)))
        for c, nm in zip(list(m), names):
            m[c] = str(nm)
        for smp in samples:
            for r in smp['rows']:
                r['chrom'] = m.get(r['chrom'], r['chrom'])
            smp['rows'].sort(key=lambda r: (int(r['chrom']) if r['chrom'].isdigit() else 10 ** 6, r['start'], r['end']))
        if any(not r['chrom'].isdigit() for smp in samples for r in smp['rows']):
            # mixed numeric / named: keep the reader's order simple by dropping the named rows
            for smp in samples:
                smp['rows'] = [r for r in smp['rows'] if r['chrom'].isdigit()]
    return dict(kind='seg', chrom_ids=rng.choice(['default', 'False', 'True', 'None']), samples=samples, sorted=True)


# --------------------------------------------------------------------------------------
# merge_samples + CDT / JTV, nexus-basic


def run_matrix(case, scratch):
    from cnvlib import export
    from cnvlib.cmdutil import write_tsv
    from cnvlib.core import fbase
    fnames, loaded = [], []
    for j, smp in enumerate(case['samples']):
        p = os.path.join(scratch, 'mat', smp.get('dir', 'd%d' % j), smp['id'] + '.cnr')
        if not os.path.exists(p) or not smp.get('same_file'):
            write_table(p, smp['rows'], probes=False, extra_weight=True)
        fnames.append(p)
        loaded.append(loaded_rows(p))
    ids = [fbase(f) for f in fnames]
    try:
        table = export.merge_samples(fnames)
    except ValueError as ex:
        msg = str(ex)
        kind = 'Mismatched' if msg.startswith('Mismatched row coordinates') else 'Duplicate' if msg.startswith('Duplicate sample ID') else 'Other: ' + msg[:80]
        which = None
        if kind == 'Mismatched':
            which = fnames.index(msg.split(' in ', 1)[1]) if msg.split(' in ', 1)[1] in fnames else None
        elif kind == 'Duplicate':
            which = msg.split(': ', 1)[1]
        return Err(kind), which, loaded, ids
    if isinstance(table, list):
        return None, None, loaded, ids
    out = {}
    for name, fn in (('cdt', export.fmt_cdt), ('jtv', export.fmt_jtv)):
        hdr, rows = fn(ids, table)
        path = os.path.join(scratch, 'out.' + name)
        write_tsv(path, rows, colnames=hdr)
        out[name] = read_lines(path)
        os.remove(path)
    return out, None, loaded, ids


def bins_of(rows):
    return [[r['chrom'], r['start'], r['end'], 'nan' if r.get('gene') is None else r['gene'], F(r['log2'])] for r in rows]


def floats_close(texts, vals):
    if len(texts) != len(vals):
        return False
    for t, v in zip(texts, vals):
        try:
            if not vlib.close(float(t), v):
                return False
        except ValueError:
            return False
    return True


def matrix_bad(gen, cdt, jtv):
    """direct oracle for the CDT / JTV text of matching samples `gen`: None or what is wrong; also the labels"""
    n = len(gen[0]['rows'])
    labels = ['%s:%d-%d:%s' % (r['chrom'], r['start'], r['end'], 'nan' if r.get('gene') is None else r['gene']) for r in gen[0]['rows']]
    cols = [[F(r['log2']) for r in s['rows']] for s in gen]
    sids = [s['id'] for s in gen]
    bad = None
    if cdt is not None:
        if cdt[0] != ['GID', 'CLID', 'NAME', 'GWEIGHT'] + sids or len(cdt) != n + 3:
            return 'CDT header / row count', labels
        if cdt[1] != ['AID', '', '', ''] + ['ARRY%03dX' % i for i in range(len(sids))] or cdt[2] != ['EWEIGHT', '', '', ''] + ['1'] * len(sids):
            return 'CDT AID / EWEIGHT rows', labels
    if jtv is not None and (jtv[0] != ['CloneID', 'Name'] + sids or len(jtv) != n + 1):
        return 'JTV header / row count', labels
    for i in range(n):
        vals = [col[i] for col in cols]
        if cdt is not None:
            c = cdt[i + 3]
            if c[:4] != ['GENE%dX' % i, 'IMAGE:%d' % i, labels[i], '1'] or not floats_close(c[4:], vals):
                return 'CDT row %d' % i, labels
        if jtv is not None:
            j = jtv[i + 1]
            if j[:2] != ['IMAGE:', labels[i]] or not floats_close(j[2:], vals):
                return 'JTV row %d' % i, labels
    return None, labels


def check_matrix(ck, case, scratch, count=True):
    res, which, loaded, ids = run_matrix(case, scratch)
    samples = [[sid, bins_of(rows)] for sid, rows in loaded]
    m_cdt, m_jtv = vlib.model_batch('c20_cdt', [[ids, samples]])[0], vlib.model_batch('c20_jtv', [[ids, samples]])[0]
    # direct oracle from the generated tables
    gen = case['samples']
    key = lambda r: (r['chrom'], r['start'], r['end'], r.get('gene'))
    mismatch = any([key(r) for r in s['rows']] != [key(r) for r in gen[0]['rows']] for s in gen[1:])
    dup = len(set(s['id'] for s in gen)) < len(gen)
    cls = 'matrix|%d samples|%s' % (len(gen), 'mismatch' if mismatch else 'duplicate' if dup else 'ok')
    if count:
        ck.count(case, nontrivial=bool(gen and gen[0]['rows']), cls=cls)
    if not gen:
        if res is not None:
            ck.violation('merge_samples([]) is not empty', case, clause='C20_matrix', code=res)
            return 1
        if m_cdt is not None:
            ck.tie_break('model merge of no samples differs', case, code=None, model=m_cdt)
        return 0
    if mismatch or dup:
        if not isinstance(res, Err):
            ck.violation('merge_samples accepts %s' % ('samples whose bins differ' if mismatch else 'a duplicate sample id'), case,
                         clause='C20_matrix', code='table', expected='ValueError')
            return 1
        if not (res.msg in ('Mismatched', 'Duplicate')):
            ck.violation('merge_samples fails with %s' % res.msg, case, clause='C20_matrix', code=res)
            return 1
        want = ['Mismatched', which] if res.msg == 'Mismatched' else ['Duplicate', which]
        if m_cdt != want or m_jtv != want:
            ck.tie_break('model merge_samples error differs from the code', case, code=want, model=m_cdt)
        return 0
    if isinstance(res, Err):
        ck.violation('merge_samples refuses matching samples: %s' % res.msg, case, clause='C20_matrix', code=res)
        return 1
    n = len(gen[0]['rows'])
    sids = [s['id'] for s in gen]
    cdt, jtv = res['cdt'], res['jtv']
    bad, labels = matrix_bad(gen, cdt, jtv)
    spec = vlib.model_batch('c20_spec_matrix', [[[smp['id'], bins_of(smp['rows'])] for smp in gen]])[0]
    if spec != [[l, [F(smp['rows'][i]['log2']) for smp in gen]] for i, l in enumerate(labels)]:
        raise RuntimeError('Coq Spec.Export.sp_matrix disagrees with the python oracle on %r: %r' % (case, spec))
    if bad:
        ck.violation('CDT/JTV table is not one row per bin with its label and each sample\'s log2 in its own column: %s' % bad,
                     case, clause='C20_matrix', code={'cdt': cdt[:6], 'jtv': jtv[:4]}, expected={'labels': labels[:3], 'ids': sids})
        return 1
    # model vs code
    ok = (not isinstance(m_cdt, Err) and isinstance(m_cdt, list) and m_cdt and m_cdt[0] == 'ok' and m_cdt[1] == cdt[0]
          and m_cdt[2] == cdt[1] and m_cdt[3] == cdt[2] and len(m_cdt[4]) == n
          and all(r[:3] == c[:3] and str(r[3]) == c[3] and floats_close(c[4:], r[4]) for r, c in zip(m_cdt[4], cdt[3:])))
    if not ok:
        ck.tie_break('model fmt_cdt differs from the code', case, code=cdt[:6], model=m_cdt if not isinstance(m_cdt, list) else m_cdt[:4])
    ok = (isinstance(m_jtv, list) and m_jtv and m_jtv[0] == 'ok' and m_jtv[1] == jtv[0] and len(m_jtv[2]) == n
          and all(r[:2] == c[:2] and floats_close(c[2:], r[2]) for r, c in zip(m_jtv[2], jtv[1:])))
    if not ok:
        ck.tie_break('model fmt_jtv differs from the code', case, code=jtv[:4], model=m_jtv if not isinstance(m_jtv, list) else m_jtv[:3])
    return 0


def gen_matrix_case(rng):
    style = rng.random() < 0.5
    base = natural_table(rng, style, nmax_chrom=3, nmax_rows=3)
    if rng.random() < 0.04:
        base = []
    n = rng.choice([1, 2, 2, 3, 4, 5])
    samples = []
    for j in range(n):
        rows = [dict(r, log2=rng.choice([rng.uniform(-5, 5), 0.0, float(j), r['log2']])) for r in base]
        samples.append(dict(id='S%d' % j, rows=rows))
    mode = rng.choice(['ok'] * 5 + ['mismatch'] * 3 + ['dup'] * 2) if n > 1 else 'ok'
    if mode == 'mismatch' and base:
        j = rng.randint(1, n - 1)
        rows = samples[j]['rows']
        how = rng.choice(['drop', 'add', 'start', 'end', 'gene', 'chrom', 'swap-gene'])
        i = rng.randrange(len(rows))
        if how == 'drop':
            del rows[i]
        elif how == 'add':
            last = rows[-1]
            rows.append(dict(last, start=last['end'] + 5, end=last['end'] + 50))
        elif how == 'start':
            # keep the order and start < end
            lo = rows[i - 1]['end'] if i > 0 and rows[i - 1]['chrom'] == rows[i]['chrom'] else 0
            cand = [s for s in (rows[i]['start'] + 1, rows[i]['start'] - 1) if lo <= s < rows[i]['end']]
            if cand:
                rows[i] = dict(rows[i], start=cand[0])
            else:
                rows[i] = dict(rows[i], gene='other')
        elif how == 'end':
            hi = rows[i + 1]['start'] if i + 1 < len(rows) and rows[i + 1]['chrom'] == rows[i]['chrom'] else rows[i]['end'] + 10
            cand = [e for e in (rows[i]['end'] + 1, rows[i]['end'] - 1) if rows[i]['start'] < e <= hi and e != rows[i]['end']]
            if cand:
                rows[i] = dict(rows[i], end=cand[0])
            else:
                rows[i] = dict(rows[i], gene='other')
        elif how in ('gene', 'swap-gene'):
            rows[i] = dict(rows[i], gene='other' if rows[i].get('gene') != 'other' else None)
        elif how == 'chrom':
            # rename the last chromosome's rows (keeps the reader's order)
            lastc = rows[-1]['chrom']
            newc = ('chr%d' if style else '%d') % 22 if lastc not in ('chr22', '22', 'chrX', 'X', 'chrY', 'Y') else lastc + '_alt'
            for k in range(len(rows)):
                if rows[k]['chrom'] == lastc:
                    rows[k] = dict(rows[k], chrom=newc)
    elif mode == 'mismatch':
        samples[1]['rows'] = [dict(chrom='chr1' if style else '1', start=0, end=10, gene='-', log2=0.5)]
    elif mode == 'dup':
        a, b = sorted(rng.sample(range(n), 2))
        samples[b]['id'] = samples[a]['id']
        if rng.random() < 0.4:
            samples[b]['dir'] = samples[a].get('dir', 'd%d' % a)
            samples[b]['same_file'] = True
            samples[b]['rows'] = samples[a]['rows']
    return dict(kind='matrix', samples=samples)


def check_nexus(ck, case, scratch, count=True):
    from cnvlib import export
    from cnvlib.cmdutil import read_cna, write_dataframe
    p = os.path.join(scratch, 'nexus', case['id'] + '.cnr')
    write_table(p, case['rows'], probes=False, extra_weight=True)
    sid, loaded = loaded_rows(p)
    tbl = export.export_nexus_basic(read_cna(p))
    path = os.path.join(scratch, 'out.nexus')
    write_dataframe(path, tbl)
    lines = read_lines(path)
    os.remove(path)
    model = vlib.model_batch('c20_nexus', [[[r['chrom'], r['start'], r['end'], gene_tok(r.get('gene')), F(r['log2'])] for r in loaded]])[0]
    if count:
        ck.count(case, nontrivial=bool(case['rows']), cls='nexus-basic')
    want_hdr = ['chromosome', 'start', 'end', 'gene', 'log2', 'probe']
    rows = case['rows']
    bad = None
    if lines[0] != want_hdr or len(lines) != len(rows) + 1:
        bad = 'header / row count'
    else:
        for i, (f, r) in enumerate(zip(lines[1:], rows)):
            if f[:4] != [r['chrom'], str(r['start']), str(r['end']), gene_tok(r.get('gene'))] \
                    or f[5] != '%s:%d-%d' % (r['chrom'], r['start'] + 1, r['end']) or not vlib.close(float(f[4]), F(r['log2']), 1e-5):
                bad = 'row %d' % i
                break
    if bad:
        ck.violation('nexus-basic table is not one row per bin with its label and log2: %s' % bad, case, clause='C20_matrix',
                     code=lines[:5])
        return 1
    frame = [[str(tbl['chromosome'].iat[i]), int(tbl['start'].iat[i]), int(tbl['end'].iat[i]),
              gene_tok(frame_text(tbl['gene'].iat[i])), float(tbl['log2'].iat[i]), str(tbl['probe'].iat[i])] for i in range(len(tbl))]
    ok = len(frame) == len(model) and all(a[:4] == b[:4] and a[5] == b[5] and vlib.close(a[4], b[4]) for a, b in zip(frame, model))
    if not ok:
        ck.tie_break('model export_nexus_basic differs from the code', case, code=frame[:4], model=model[:4])
    return 0


# --------------------------------------------------------------------------------------
# nexus-ogt: bins x per-bin BAF


def make_varr(variants, paired):
    from cnvlib.vary import VariantArray
    d = {
        'chromosome': pd.Series([v['chrom'] for v in variants], dtype=object),
        'start': np.array([v['start'] for v in variants], dtype=np.int64),
        'end': np.array([v['end'] for v in variants], dtype=np.int64),
        'ref': pd.Series(['A'] * len(variants), dtype=object),
        'alt': pd.Series(['C'] * len(variants), dtype=object),
        'zygosity': np.array([v['zyg'] for v in variants], dtype=np.float64),
        'alt_freq': np.array([np.nan if v['freq'] is None else v['freq'] for v in variants], dtype=np.float64),
    }
    if paired:
        d['n_zygosity'] = np.array([v['n_zyg'] for v in variants], dtype=np.float64)
    return VariantArray(pd.DataFrame(d), {'sample_id': 'v'})


def varr_to_model(varr):
    """a VariantArray as the model sees it: [label, chrom, start, end, zygosity, alt_freq|None, n_zygosity|None]"""
    d = varr.data
    paired = 'n_zygosity' in d
    out = []
    for i in range(len(d)):
        f = float(d['alt_freq'].iat[i])
        out.append([int(d.index[i]) if isinstance(d.index[i], (int, np.integer)) else i, str(d['chromosome'].iat[i]),
                    int(d['start'].iat[i]), int(d['end'].iat[i]),
                    F(float(d['zygosity'].iat[i])) if 'zygosity' in d else F(1, 2), None if f != f else F(f),
                    F(float(d['n_zygosity'].iat[i])) if paired else None])
    return paired, out


def make_ogt_cna(bins, has_weight):
    from cnvlib.cnary import CopyNumArray
    d = {
        'chromosome': pd.Series([b['chrom'] for b in bins], dtype=object),
        'start': np.array([b['start'] for b in bins], dtype=np.int64),
        'end': np.array([b['end'] for b in bins], dtype=np.int64),
        'gene': pd.Series(['-'] * len(bins), dtype=object),
        'log2': np.array([b['log2'] for b in bins], dtype=np.float64),
    }
    if has_weight:
        d['weight'] = np.array([np.nan if b['weight'] is None else b['weight'] for b in bins], dtype=np.float64)
    frame = pd.DataFrame(d)
    if any('label' in b for b in bins):
        frame.index = [b.get('label', i) for i, b in enumerate(bins)]
    return CopyNumArray(frame, {'sample_id': 'bins'})


def fmedian(vals):
    s = sorted(vals)
    n = len(s)
    return s[n // 2] if n % 2 else (s[n // 2 - 1] + s[n // 2]) / 2


def py_baf(variants, paired, b):
    """direct oracle for one bin (C18's clause, restated): the heterozygous variants sharing a base with the bin; none -> missing,
    one -> its frequency as it is, several -> mirrored to the side of the majority (median > 1/2), then the median"""
    germ = lambda v: v['n_zyg'] if paired else v['zyg']
    het = [v for v in variants if germ(v) not in (0.0, 1.0)] or variants
    hits = [v['freq'] for v in het if v['chrom'] == b['chrom'] and v['start'] < b['end'] and v['end'] > b['start']]
    if not hits:
        return None
    if len(hits) == 1:
        return None if hits[0] is None else F(hits[0])
    fin = [F(h) for h in hits if h is not None]
    if not fin:
        return None
    above = fmedian(fin) > HALF
    return fmedian([(HALF + abs(x - HALF)) if above else (HALF - abs(x - HALF)) for x in fin])


def gen_ogt_case(rng):
    style = rng.random() < 0.5
    base = natural_table(rng, style, nmax_chrom=3, nmax_rows=4)
    if rng.random() < 0.04:
        base = []
    has_weight = rng.random() < 0.8
    bins = [dict(chrom=r['chrom'], start=r['start'], end=r['end'], log2=r['log2'],
                 weight=rng.choice([0.0, 0.3, 0.5, 0.5, 0.9, 1.0, round(rng.random(), 3), None])) for r in base]
    paired = rng.random() < 0.3
    variants = []
    for b in bins:
        for _ in range(rng.choice([0, 0, 1, 1, 2, 3, 4])):
            if b['end'] - b['start'] < 1:
                continue
            p = rng.randint(b['start'], b['end'] - 1)
            variants.append(dict(chrom=b['chrom'], start=p, end=p + rng.choice([1, 1, 1, 2, 5]),
                                 zyg=rng.choice([0.5, 0.5, 0.5, 0.0, 1.0]), n_zyg=rng.choice([0.5, 0.5, 0.0, 1.0]),
                                 freq=rng.choice([0.5, 0.25, 0.75, round(rng.random(), 3), round(rng.random(), 3), 0.0, 1.0, None])))
        if rng.random() < 0.2:
            # just outside the bin / abutting
            variants.append(dict(chrom=b['chrom'], start=b['end'], end=b['end'] + 1, zyg=0.5, n_zyg=0.5, freq=0.9))
    if rng.random() < 0.1:
        for v in variants:
            v['zyg'] = v['n_zyg'] = rng.choice([0.0, 1.0])     # nothing heterozygous: the documented fallback keeps all
    variants.sort(key=lambda v: ([b['chrom'] for b in bins].index(v['chrom']), v['start'], v['end']))
    how = rng.choice(['default'] * 8 + ['gaps', 'permuted'])
    if how == 'gaps':                      # a table filtered by the caller: labels kept, rows removed
        lab = 0
        for b in bins:
            lab += rng.choice([0, 0, 1, 2])
            b['label'] = lab
            lab += 1
    elif how == 'permuted':
        perm = list(range(len(bins)))
        rng.shuffle(perm)
        for b, l in zip(bins, perm):
            b['label'] = l
    return dict(kind='ogt', bins=bins, has_weight=has_weight, variants=variants, paired=paired,
                min_weight=rng.choice([0.0, 0.0, 0.3, 0.5, 0.5, 1.0, 2.0, -1.0]))


def ogt_frame_rows(tbl):
    cols = list(tbl.columns)
    vals = tbl.values.tolist()
    out = []
    for r in vals:
        bf = r[4]
        out.append([str(r[0]), int(r[1]), int(r[2]), float(r[3]), None if bf != bf else float(bf)])
    return cols, out


def check_ogt(ck, case, scratch, count=True, varr=None, src=''):
    from cnvlib import export
    from cnvlib.cmdutil import write_dataframe
    bins, hw, mw = case['bins'], case['has_weight'], case['min_weight']
    if varr is None:
        varr = make_varr(case['variants'], case['paired'])
    paired, mvars = varr_to_model(varr)
    mbins = [[b['chrom'], b['start'], b['end'], F(b['log2']), None if (not hw or b['weight'] is None) else F(b['weight'])] for b in bins]
    model, m_keep = vlib.model_batch('c20_nexus_ogt', [[paired, mvars, F(mw), hw, mbins]])[0]
    keep = [not (mw != 0 and hw and b['weight'] is not None and b['weight'] < mw) for b in bins]
    if m_keep != keep:
        raise RuntimeError('Coq Spec.Export.sp_ogt_keeps disagrees with the python oracle on %r' % (case,))
    kept = [b for b, k in zip(bins, keep) if k]
    cls = '%sogt|%s|%s' % (src, 'weights' if hw else 'no weight column', 'threshold' if mw else 'no threshold')
    if count:
        nontrivial = bool(kept)
        if nontrivial and case.get('variants') is not None:
            nontrivial = any(py_baf(case['variants'], case['paired'], b) is not None for b in kept)
        ck.count(case, nontrivial=nontrivial, cls=cls)
    given = make_ogt_cna(bins, hw)
    before = (list(given.data.index), given.data['start'].tolist(), given.data['log2'].tolist())
    try:
        tbl = export.export_nexus_ogt(given, varr, mw)
    except TypeError:
        if kept:
            ck.violation('export_nexus_ogt fails (TypeError) although bins remain', case, clause='C20_nexus_ogt_rows', code='TypeError')
            return 1
        if model != Err('TypeError'):
            ck.tie_break('error behaviour of export_nexus_ogt differs from the model', case, code='TypeError', model=model)
        return 0
    cols, rows = ogt_frame_rows(tbl)
    want_cols = ['Chromosome', 'Position', 'Position', 'Log R Ratio', 'B-Allele Frequency']
    bad = None
    if cols != want_cols or len(rows) != len(kept):
        bad = 'columns / row count (%d rows for %d bins kept)' % (len(rows), len(kept))
    else:
        for i, (r, b) in enumerate(zip(rows, kept)):
            if r[:3] != [b['chrom'], b['start'], b['end']] or not vlib.close(r[3], F(b['log2'])):
                bad = 'row %d is not the bin %s:%d-%d with its log2' % (i, b['chrom'], b['start'], b['end'])
                break
            if case.get('variants') is not None:
                w = py_baf(case['variants'], case['paired'], b)
                if (w is None) != (r[4] is None) or (w is not None and not vlib.close(r[4], w)):
                    bad = 'row %d: BAF %r, expected %r' % (i, r[4], None if w is None else float(w))
                    break
    if bad:
        ck.violation('nexus-ogt table is not one row per kept bin with chromosome, start, end, log2 and the bin\'s BAF: %s' % bad, case,
                     clause='C20_nexus_ogt', code=rows[:6])
        return 1
    # the caller's .cnr array is left as it was (repaired in /repo 5dbf38e: low-weight bins were dropped from it)
    after = (list(given.data.index), given.data['start'].tolist(), given.data['log2'].tolist())
    if after != before:
        ck.violation('export_nexus_ogt changes the .cnr array it is given (%d rows before, %d after)' % (len(before[0]), len(after[0])), case,
                     clause='C20_nexus_ogt_rows', code=after[1][:8], expected=before[1][:8])
        return 1
    # the written file
    path = os.path.join(scratch, 'out.ogt')
    write_dataframe(path, tbl)
    lines = read_lines(path)
    os.remove(path)
    okf = lines[0] == want_cols and len(lines) == len(rows) + 1 and all(
        f[:3] == [r[0], str(r[1]), str(r[2])] and vlib.close(float(f[3]), r[3], 1e-5)
        and ((f[4] == '') == (r[4] is None)) and (r[4] is None or vlib.close(float(f[4]), r[4], 1e-5)) for f, r in zip(lines[1:], rows))
    if not okf:
        ck.violation('nexus-ogt file differs from the table', case, clause='C20_nexus_ogt', code=lines[:5])
        return 1
    if isinstance(model, Err) or len(model) != len(rows) or not all(
            m[:3] == r[:3] and vlib.close(r[3], m[3]) and (m[4] is None) == (r[4] is None) and (m[4] is None or vlib.close(r[4], m[4]))
            for m, r in zip(model, rows)):
        ck.tie_break('model export_nexus_ogt differs from the code', case, code=rows[:6], model=model if isinstance(model, Err) else model[:6])
    return 0


# --------------------------------------------------------------------------------------
# THetA: per-segment tumor / normal read-count estimates


def py_is_auto(name):
    d = name[3:] if name.startswith('chr') else name
    return d != '' and all(c in '0123456789' for c in d)


def make_theta_cna(rows, hp, hw, sid='tumor'):
    from cnvlib.cnary import CopyNumArray
    d = {
        'chromosome': pd.Series([r['chrom'] for r in rows], dtype=object),
        'start': np.array([r['start'] for r in rows], dtype=np.int64),
        'end': np.array([r['end'] for r in rows], dtype=np.int64),
        'gene': pd.Series(['-'] * len(rows), dtype=object),
        'log2': np.array([r['log2'] for r in rows], dtype=np.float64),
    }
    if hp:
        d['probes'] = np.array([r['probes'] for r in rows], dtype=np.int64)
    if hw:
        d['weight'] = np.array([r['weight'] for r in rows], dtype=np.float64)
    return CopyNumArray(pd.DataFrame(d), {'sample_id': sid})


def theta_oracle(case, en):
    """direct oracle: (kept rows, keys [[id, chrm, start, end]], tumor values, normal values (None = missing), reference means)"""
    rows, hp, hw, normal = case['rows'], case['hp'], case['hw'], case['normal']
    kept = [r for r in rows if py_is_auto(r['chrom'])] or rows
    names = []
    for r in kept:
        if r['chrom'] not in names:
            names.append(r['chrom'])
    keys = []
    for r in kept:
        ch = names.index(r['chrom']) + 1
        keys.append(['start_%d_%d:end_%d_%d' % (ch, r['start'], ch, r['end']), ch, r['start'], r['end']])
    val = lambda e, nb: nb * 200 * (e * 500) / 100
    if normal:
        nk = [b for b in normal if py_is_auto(b['chrom'])] or normal
        means = []
        for r in kept:
            ov = [F(b['log2']) for b in nk if b['chrom'] == r['chrom'] and b['start'] < r['end'] and b['end'] > r['start']]
            means.append(sum(ov) / len(ov) if ov else None)
        nb = [F(r['probes']) for r in kept] if hp else None
        if nb is None:
            return kept, keys, None, None, means
        tv = [val(exp2(r['log2']), n) for r, n in zip(kept, nb)]
        nv = [None if m is None else val(e, n) for m, e, n in zip(means, en, nb)]
        return kept, keys, tv, nv, means
    ws = [F(r['weight']) for r in kept]
    if hw and any(w > 1 for w in ws):
        d = max(ws) / (sum(ws) / len(ws))
        nb = [w / d for w in ws]
    else:
        if hp:
            nb = [F(r['probes']) for r in kept]
        else:
            sizes = [F(r['end'] - r['start']) for r in kept]
            m = sum(sizes) / len(sizes)
            nb = [s / m for s in sizes]
        if hw:
            m = sum(ws) / len(ws)
            nb = [b * (w / m) for b, w in zip(nb, ws)]
    tv = [val(exp2(r['log2']), n) for r, n in zip(kept, nb)]
    nv = [val(F(1), n) for n in nb]
    return kept, keys, tv, nv, [F(0)] * len(kept)


def count_ok(code, v, exact_ties):
    """code's integer against round-half-even of the exact value; None = ambiguous (not compared)"""
    if v is None:
        return code == 0
    d = v - math.floor(v)
    if abs(float(d - HALF)) < AMBIG * max(1.0, float(v)) and not (exact_ties and d == HALF):
        return None
    return code == rhe(v)


def gen_theta_case(rng):
    style = rng.random() < 0.5
    kind = rng.choice(['mixed'] * 6 + ['sex-only', 'odd-names'])
    rows = natural_table(rng, style, nmax_chrom=3, nmax_rows=3, sex=True)
    if kind == 'sex-only':
        rows = [r for r in rows if not py_is_auto(r['chrom'])] or [dict(rows[0], chrom='chrX' if style else 'X')]
    elif kind == 'odd-names':
        last = rows[-1]
        rows.append(dict(last, chrom=rng.choice(['chr1_alt', 'chrUn', 'chr', 'MT', 'chr05']), start=0, end=rng.randint(1, 500)))
    if rng.random() < 0.04:
        rows = []
    hp, hw = rng.random() < 0.75, rng.random() < 0.5
    new_w = rng.random() < 0.5
    for r in rows:
        r['probes'] = rng.choice([1, 1, 2, 3, 5, 7, rng.randint(1, 400)])
        r['weight'] = rng.choice([0.25, 0.5, 1.0, 0.75, round(rng.uniform(0.05, 1.0), 3)]) * (rng.choice([1, 2, 4, r['probes']]) if new_w else 1)
        # 2^log2 * probes * 1000 on .5 (exact ties), next to it, or anywhere
        r['log2'] = rng.choice([-4.0, -5.0, -3.0, -4.0 + rng.choice([-1e-9, 1e-9]), 0.0, 1.0, rng.uniform(-6, 3), round(rng.uniform(-3, 3), 2)])
    normal = None
    how = rng.choice(['none', 'none', 'bins', 'bins', 'bins', 'empty', 'elsewhere'])
    if how == 'empty':
        normal = []
    elif how == 'elsewhere':
        normal = [dict(chrom='chr21' if style else '21', start=0, end=100, log2=0.3)]
    elif how == 'bins' and rows:
        normal = []
        seen = []
        for r in rows:
            if r['chrom'] not in seen:
                seen.append(r['chrom'])
        for c in seen:
            if rng.random() < 0.15:
                continue
            segs = [r for r in rows if r['chrom'] == c]
            cuts = {segs[0]['start'], segs[-1]['end'] + rng.choice([0, 10])}
            for r in segs:
                cuts.add(r['start'])
                if rng.random() < 0.7:
                    cuts.add(r['end'])
                for _ in range(rng.randint(0, 3)):
                    if r['end'] - r['start'] > 2:
                        cuts.add(rng.randint(r['start'] + 1, r['end'] - 1))
            cuts = sorted(cuts)
            for a, b in zip(cuts, cuts[1:]):
                if rng.random() < 0.85:
                    normal.append(dict(chrom=c, start=a, end=b, log2=rng.choice([0.0, -1.0, round(rng.uniform(-1, 1), 3), rng.uniform(-2, 2)])))
        if rng.random() < 0.3:
            normal.append(dict(chrom='chrM' if style else 'MT', start=0, end=50, log2=-2.0))
    ungrouped = False
    if len(rows) > 2 and rng.random() < 0.08:
        # chromosomes interleaved: outside the precondition of the row-wise statements (model vs code only)
        rows = rows[1:] + rows[:1]
        ungrouped = not grouped_by_chrom(rows)
    return dict(kind='theta', rows=rows, hp=hp, hw=hw, normal=normal, ungrouped=ungrouped)


def check_theta(ck, case, scratch, count=True, src=''):
    from cnvlib import export
    rows, hp, hw, normal = case['rows'], case['hp'], case['hw'], case['normal']
    tumor = make_theta_cna(rows, hp, hw)
    ncna = None
    if normal is not None:
        ncna = make_theta_cna(normal, False, False, sid='normal')
    # the oracle values 2 ** ref_mean, from the code's own float means
    en, code_means = [], None
    kept_rows = [r for r in rows if py_is_auto(r['chrom'])] or rows
    if normal and rows:
        code_means, _ = export.ref_means_nbins(make_theta_cna(rows, hp, hw).autosomes(also=[]),
                                               make_theta_cna(normal, False, False).autosomes(also=[]))
        code_means = [None if m != m else float(m) for m in code_means]
        en = [F(1) if m is None else exp2(m) for m in code_means]
    mrows = [[r['chrom'], r['start'], r['end'], exp2(r['log2']), int(r['probes']), F(r['weight'])] for r in rows]
    mnorm = None if normal is None else [[b['chrom'], b['start'], b['end'], F(b['log2'])] for b in normal]
    model = vlib.model_batch('c20_theta', [[hp, hw, mrows, mnorm, en]])[0]
    cls = '%stheta|%s|%s|%s%s' % (src, 'probes' if hp else 'no probes', 'weight' if hw else 'no weight',
                                  'normal' if normal else 'no normal', '|ungrouped' if case.get('ungrouped') else '')
    if count:
        ck.count(case, nontrivial=bool(rows) and len(kept_rows) < len(rows) or bool(normal), cls=cls)
    try:
        tbl = export.export_theta(tumor, ncna)
    except AttributeError:
        # bin counts as an ndarray have no .fillna: a normal is given and the segments have no probes column
        if not (normal and not hp and rows):
            ck.violation('export_theta raises AttributeError', case, clause='C20_theta_rows', code='AttributeError')
            return 1
        if model != Err('AttributeError'):
            ck.tie_break('error behaviour of export_theta differs from the model', case, code='AttributeError', model=model)
        return 0
    want_cols = ['#ID', 'chrm', 'start', 'end', 'tumorCount', 'normalCount']
    if list(tbl.columns) != want_cols:
        ck.violation('export_theta columns are %r' % list(tbl.columns), case, clause='C20_theta_rows', code=list(tbl.columns))
        return 1
    if not rows:
        if len(tbl):
            ck.violation('export_theta of an empty table has rows', case, clause='C20_theta_rows', code=len(tbl))
            return 1
        if model != 'empty':
            ck.tie_break('model export_theta of an empty table differs', case, code='empty', model=model)
        return 0
    code = [[str(a), int(b), int(c), int(d), int(e), int(f)] for a, b, c, d, e, f in tbl.values.tolist()]
    for col in ('tumorCount', 'normalCount', 'chrm'):
        if not np.issubdtype(tbl[col].dtype, np.integer):
            ck.violation('export_theta column %s has dtype %s' % (col, tbl[col].dtype), case, clause='C20_theta_counts', code=str(tbl[col].dtype))
            return 1
    # the written file (as the command writes it)
    path = os.path.join(scratch, 'out.theta')
    tbl.to_csv(path, sep='\t', index=False)
    lines = read_lines(path)
    os.remove(path)
    if lines[0] != want_cols or [[f[0]] + [int(x) for x in f[1:]] for f in lines[1:]] != code:
        ck.violation('THetA file differs from the table', case, clause='C20_theta_rows', code=lines[:4])
        return 1
    kept, keys, tv, nv, means = theta_oracle(case, en)
    if not case.get('ungrouped'):
        if [r[:4] for r in code] != keys:
            ck.violation('export_theta rows are not the autosomal segments with chrm = rank of first appearance, 0-based start, end '
                         'and #ID start_<chrm>_<start>:end_<chrm>_<end>', case, clause='C20_theta_rows', code=[r[:4] for r in code][:8],
                         expected=keys[:8])
            return 1
        if code_means is not None and any((a is None) != (b is None) or (a is not None and not vlib.close(a, b))
                                          for a, b in zip(code_means, means)):
            ck.violation('ref_means_nbins: reference means are not the means of the normal\'s bins inside each segment', case,
                         clause='C20_theta_ref_means', code=code_means[:8], expected=[None if m is None else float(m) for m in means][:8])
            return 1
        exact = hp and not hw and not (hw and any(r['weight'] > 1 for r in kept))
        for i, r in enumerate(code):
            a, b = count_ok(r[4], tv[i], exact), count_ok(r[5], nv[i], exact and not normal)
            if a is None or b is None:
                ck.float_ambiguous += 1
            if a is False or b is False:
                ck.violation('export_theta: read counts of row %d are not round(nbins * 200 * (2^log2 * 500) / 100)' % i, case,
                             clause='C20_theta_counts', code=r[4:], expected=[float(tv[i]), None if nv[i] is None else float(nv[i])],
                             row_index=i)
                return 1
    # model vs code
    if isinstance(model, Err) or model == 'empty':
        ck.tie_break('model export_theta fails where the code does not', case, code=code[:6], model=model)
        return 0
    m_rows, m_vals, m_keys = model
    if not case.get('ungrouped') and m_keys != keys:
        raise RuntimeError('Coq Spec.Export.sp_theta_key disagrees with the python oracle on %r: %r vs %r' % (case, m_keys, keys))
    ok = len(m_rows) == len(code)
    if ok:
        m_tv, m_nv = m_vals[0], m_vals[1]
        exact = hp and not hw
        for i, (m, c) in enumerate(zip(m_rows, code)):
            if m[:4] != c[:4]:
                ok = False
                break
            for j, v in ((4, m_tv[i]), (5, m_nv[i])):
                if m[j] != c[j]:
                    st = count_ok(c[j], v, exact and (j == 4 or not normal))
                    if st is None:
                        ck.float_ambiguous += 1
                    else:
                        ok = False
    if not ok:
        ck.tie_break('model export_theta differs from the code', case, code=code[:6], model=m_rows[:6])
    elif code_means is not None:
        mm = m_vals[2]
        if len(mm) != len(code_means) or any((a is None) != (b is None) or (a is not None and not vlib.close(a, b))
                                             for a, b in zip(code_means, mm)):
            ck.tie_break('model reference means differ from ref_means_nbins', case, code=code_means[:6], model=mm[:6])
    return 0


# --------------------------------------------------------------------------------------
# command line


def run_cli(argv):
    from cnvlib import commands
    args = commands.parse_args(argv)
    args.func(args)


def check_cli(ck, scratch, n):
    """`cnvkit.py export bed|vcf|seg|cdt|jtv|nexus-basic` on written files (in-process through commands.parse_args)"""
    rng = ck.rng
    done = 0
    for it in range(n):
        style = rng.random() < 0.5
        cfg = dict(ploidy=rng.randint(1, 6), hapx=rng.random() < 0.5, female=rng.random() < 0.5,
                   build=rng.choice([None, 'grch37', 'grch38']), style=style)
        has_cn = rng.random() < 0.5
        rows = []
        for chrom, sex in [('chr1' if style else '1', None), ('chr7' if style else '7', None), ('chrX' if style else 'X', 'X'),
                           ('chrY' if style else 'Y', 'Y')]:
            for s, e in gen_chrom_segments(rng, chrom, cfg['build'], sex, 3):
                kl = py_class(style, cfg['build'], chrom, s, e)
                r, x = py_copies(cfg['ploidy'], cfg['hapx'], cfg['female'], kl)
                rows.append(dict(chrom=chrom, start=s, end=e, gene=rng.choice(['-', 'G1', 'A,B']), log2=boundary_log2(rng, r, x, cfg['ploidy']),
                                 cn=rng.choice([x, x + 1, max(x - 1, 0), 0]), probes=rng.randint(1, 99)))
        case = resample_ambiguous(rng, dict(kind='bedvcf', cfg=cfg, has_cn=has_cn, probes='int', rows=rows, label=None, sample_id=None, bins=None))
        if not has_cn:
            # the log2 column goes through a decimal file: keep r*2^log2 away from j+1/2 altogether (exact ties included)
            for r in rows:
                kl = py_class(style, cfg['build'], r['chrom'], r['start'], r['end'])
                rr = py_copies(cfg['ploidy'], cfg['hapx'], cfg['female'], kl)[0]
                for _ in range(20):
                    a = rr * exp2(r['log2'])
                    if abs(float(a - math.floor(a) - HALF)) >= 1e-6 * max(1.0, float(a)):
                        break
                    r['log2'] += 1e-3
        d = os.path.join(scratch, 'cli%d' % it)
        os.makedirs(d, exist_ok=True)
        fn = os.path.join(d, 'smp.cns')
        with open(fn, 'w') as fh:
            fh.write('chromosome\tstart\tend\tgene\tlog2\t%sprobes\n' % ('cn\t' if has_cn else ''))
            for r in rows:
                fh.write('%s\t%d\t%d\t%s\t%s\t%s%d\n' % (r['chrom'], r['start'], r['end'], r['gene'], fmt_float(r['log2']),
                                                         ('%d\t' % r['cn']) if has_cn else '', r['probes']))
        common = ['--ploidy', str(cfg['ploidy']), '-x', 'female' if cfg['female'] else 'male'] + (['-y'] if cfg['hapx'] else []) \
            + (['--diploid-parx-genome', cfg['build']] if cfg['build'] else [])
        truth = [row_truth(cfg, has_cn, r) for r in rows]
        if any(t[2] for t in truth):
            continue
        show = rng.choice(SHOWS)
        out = os.path.join(d, 'o.bed')
        run_cli(['export', 'bed', fn, '--show', show, '-o', out] + common)
        got = [[f[0], int(f[1]), int(f[2]), f[3], int(f[4])] for f in read_lines(out)]
        want = [[r['chrom'], r['start'], r['end'], 'smp', n] for r, (n, x, _) in zip(rows, truth)
                if show == 'all' or (show == 'ploidy' and n != cfg['ploidy']) or (show == 'variant' and n != x)]
        ck.count(['cli-bed', case, show], nontrivial=bool(want), cls='cli|bed|' + show)
        if got != want:
            ck.violation('cnvkit.py export bed --show %s writes other rows than the property states' % show, dict(case, show=show),
                         clause='C20_bed_%s' % show, code=got[:8], expected=want[:8])
        out = os.path.join(d, 'o.vcf')
        run_cli(['export', 'vcf', fn, '-i', 'SID', '-o', out] + common)
        text = open(out).read()
        hdr = ''.join(l + '\n' for l in text.split('\n') if l.startswith('##'))
        body = ''.join(l + '\n' for l in text.split('\n') if l and not l.startswith('##'))
        parsed = parse_vcf(hdr, body)
        ck.count(['cli-vcf', case], nontrivial=True, cls='cli|vcf')
        if isinstance(parsed, Err):
            ck.violation('cnvkit.py export vcf output malformed: %s' % parsed.msg, case, clause='C20_vcf_fields', code=parsed)
        else:
            cols, recs = parsed
            wantr = [expected_vcf_record(r, n, x, r['probes']) for r, (n, x, _) in zip(rows, truth) if n != x]
            gotr = [{k: g[k] for k in w} for g, w in zip(recs, wantr)]
            if cols[-1] != 'SID' or len(recs) != len(wantr) or gotr != wantr:
                ck.violation('cnvkit.py export vcf writes other records than the property states', case, clause='C20_vcf_rows',
                             code=[rec_list(r)[:10] for r in recs[:6]], expected=wantr[:6])
        done += 1
    ck.extra['cli_round_trips'] = done


# --------------------------------------------------------------------------------------
# corpus, run, replay


def check_cli_samples(ck, scratch, n):
    """`cnvkit.py export seg|cdt|jtv|nexus-basic` on written files, outputs parsed back and held against the direct oracles"""
    rng = ck.rng
    for it in range(n):
        style = rng.random() < 0.5
        base = natural_table(rng, style, nmax_chrom=3, nmax_rows=3)
        if not base:
            continue
        k = rng.randint(1, 4)
        gen = [dict(id='c%d' % j, probes=True, rows=[dict(r, log2=rng.choice([rng.uniform(-4, 4), float(j), r['log2']])) for r in base])
               for j in range(k)]
        d = os.path.join(scratch, 'clis%d' % it)
        cnr, cns = [], []
        for smp in gen:
            p = os.path.join(d, smp['id'] + '.cnr')
            write_table(p, smp['rows'], probes=False, extra_weight=True)
            cnr.append(p)
            p = os.path.join(d, smp['id'] + '.cns')
            write_table(p, smp['rows'], probes=True)
            cns.append(p)
        case = dict(kind='matrix', samples=[dict(id=s['id'], rows=s['rows']) for s in gen])
        outs = {}
        for fmt in ('cdt', 'jtv'):
            out = os.path.join(d, 'o.' + fmt)
            run_cli(['export', fmt] + cnr + ['-o', out])
            outs[fmt] = read_lines(out)
        bad, labels = matrix_bad(gen, outs['cdt'], outs['jtv'])
        ck.count(['cli-matrix', case], nontrivial=True, cls='cli|cdt+jtv|%d samples' % k)
        if bad:
            ck.violation('cnvkit.py export cdt/jtv: not one row per bin with its label and each sample\'s log2 in its own column: %s' % bad,
                         case, clause='C20_matrix', code={'cdt': outs['cdt'][:6], 'jtv': outs['jtv'][:4]})
        enum = rng.random() < 0.5
        out = os.path.join(d, 'o.seg')
        run_cli(['export', 'seg'] + cns + (['--enumerate-chroms'] if enum else []) + ['-o', out])
        lines = read_lines(out)
        want = seg_want(gen, enum)
        hdr = lines[0]
        scase = dict(kind='seg', chrom_ids='True' if enum else 'False', sorted=True, samples=gen)
        ck.count(['cli-seg', scase], nontrivial=True, cls='cli|seg|%s' % ('ids' if enum else 'names'))
        try:
            pos = {h: i for i, h in enumerate(hdr)}
            got = [[f[pos['ID']], f[pos['chrom']], int(f[pos['loc.start']]), int(f[pos['loc.end']]), int(f[pos['num.mark']]),
                    float(f[pos['seg.mean']])] for f in lines[1:]]
            ok = seg_rows_equal(got, want, 1e-5)
        except (KeyError, ValueError, IndexError):
            got, ok = lines[:5], False
        if not ok:
            ck.violation('cnvkit.py export seg does not list each sample\'s segments under its id with start+1, end, probes, mean',
                         scase, clause='C20_seg', code=got[:8], expected=want[:8])
        out = os.path.join(d, 'o.nexus')
        run_cli(['export', 'nexus-basic', cnr[0], '-o', out])
        lines = read_lines(out)
        rows = gen[0]['rows']
        ok = lines and lines[0] == ['chromosome', 'start', 'end', 'gene', 'log2', 'probe'] and len(lines) == len(rows) + 1 and all(
            f[:4] == [r['chrom'], str(r['start']), str(r['end']), gene_tok(r.get('gene'))]
            and f[5] == '%s:%d-%d' % (r['chrom'], r['start'] + 1, r['end']) and vlib.close(float(f[4]), F(r['log2']), 1e-5)
            for f, r in zip(lines[1:], rows))
        ck.count(['cli-nexus', gen[0]], nontrivial=True, cls='cli|nexus-basic')
        if not ok:
            ck.violation('cnvkit.py export nexus-basic: not one row per bin with its label and log2', dict(kind='nexus', id='c0', rows=rows),
                         clause='C20_matrix', code=lines[:5])
        vlib.shutil.rmtree(d, ignore_errors=True)


def check_cli_ogt_theta(ck, scratch, n):
    """`cnvkit.py export nexus-ogt <cnr> <vcf>` and `export theta <cns> [-r <cnr>]` on written files: the command's file must be
    the table the API call gives on the loaded inputs, and that call is checked like every other case"""
    from cnvlib import export
    from cnvlib.cmdutil import read_cna, load_het_snps
    rng = ck.rng
    for it in range(n):
        d = os.path.join(scratch, 'clio%d' % it)
        os.makedirs(d, exist_ok=True)
        # ---- nexus-ogt
        case = gen_ogt_case(rng)
        if case['bins']:
            cnr = os.path.join(d, 'b.cnr')
            with open(cnr, 'w') as fh:
                fh.write('chromosome\tstart\tend\tgene\tlog2%s\n' % ('\tweight' if case['has_weight'] else ''))
                for b in case['bins']:
                    fh.write('%s\t%d\t%d\t-\t%s%s\n' % (b['chrom'], b['start'], b['end'], fmt_float(b['log2']),
                                                        ('\t' + ('' if b['weight'] is None else fmt_float(b['weight']))) if case['has_weight'] else ''))
            vcf = os.path.join(d, 'v.vcf')
            chroms = []
            for b in case['bins']:
                if b['chrom'] not in chroms:
                    chroms.append(b['chrom'])
            with open(vcf, 'w') as fh:
                fh.write('##fileformat=VCFv4.2\n')
                for c in chroms:
                    fh.write('##contig=<ID=%s,length=500000000>\n' % c)
                fh.write('##FORMAT=<ID=GT,Number=1,Type=String,Description="g">\n##FORMAT=<ID=AD,Number=R,Type=Integer,Description="a">\n'
                         '##FORMAT=<ID=DP,Number=1,Type=Integer,Description="d">\n#CHROM\tPOS\tID\tREF\tALT\tQUAL\tFILTER\tINFO\tFORMAT\tT\n')
                seen = set()
                for v in case['variants']:
                    if (v['chrom'], v['start']) in seen:
                        continue
                    seen.add((v['chrom'], v['start']))
                    alt = int(round((0.5 if v['freq'] is None else v['freq']) * 40))
                    gt = {0.0: '0/0', 0.5: '0/1', 1.0: '1/1'}[v['zyg']]
                    fh.write('%s\t%d\t.\tA\tC\t.\tPASS\t.\tGT:AD:DP\t%s:%d,%d:40\n' % (v['chrom'], v['start'] + 1, gt, 40 - alt, alt))
            out = os.path.join(d, 'o.ogt')
            argv = ['export', 'nexus-ogt', cnr, vcf, '-o', out] + (['-w', str(case['min_weight'])] if case['min_weight'] > 0 else [])
            mw = case['min_weight'] if case['min_weight'] > 0 else 0.0
            varr = load_het_snps(vcf, None, None, 20, None)
            loaded = read_cna(cnr)
            lb = [dict(chrom=str(c), start=int(s), end=int(e), log2=float(l), weight=(None if w != w else float(w)))
                  for c, s, e, l, w in zip(loaded['chromosome'], loaded['start'], loaded['end'], loaded['log2'],
                                           loaded['weight'] if 'weight' in loaded else [float('nan')] * len(loaded))]
            kept_any = any(not (mw and case['has_weight'] and b['weight'] is not None and b['weight'] < mw) for b in lb)
            if kept_any:
                run_cli(argv)
                got = read_lines(out)
                sub = dict(kind='ogt', bins=lb, has_weight=case['has_weight'], variants=None, paired=False, min_weight=mw)
                check_ogt(ck, sub, scratch, varr=varr, src='cli|')
                from cnvlib.cmdutil import write_dataframe
                ref = os.path.join(d, 'ref.ogt')
                write_dataframe(ref, export.export_nexus_ogt(read_cna(cnr), varr, mw))
                if got != read_lines(ref):
                    ck.violation('cnvkit.py export nexus-ogt writes another table than export_nexus_ogt on the loaded inputs', sub,
                                 clause='C20_nexus_ogt', code=got[:5], expected=read_lines(ref)[:5])
        # ---- theta
        case = gen_theta_case(rng)
        if case['rows'] and not case.get('ungrouped') and (case['hp'] or not case['normal']):
            cns = os.path.join(d, 't.cns')
            cols = ['chromosome', 'start', 'end', 'gene', 'log2'] + (['probes'] if case['hp'] else []) + (['weight'] if case['hw'] else [])
            with open(cns, 'w') as fh:
                fh.write('\t'.join(cols) + '\n')
                for r in case['rows']:
                    f = [r['chrom'], str(r['start']), str(r['end']), '-', fmt_float(r['log2'])]
                    f += [str(r['probes'])] if case['hp'] else []
                    f += [fmt_float(r['weight'])] if case['hw'] else []
                    fh.write('\t'.join(f) + '\n')
            argv = ['export', 'theta', cns, '-o', os.path.join(d, 'o.theta')]
            if case['normal']:
                ncnr = os.path.join(d, 'n.cnr')
                with open(ncnr, 'w') as fh:
                    fh.write('chromosome\tstart\tend\tgene\tlog2\n')
                    for b in case['normal']:
                        fh.write('%s\t%d\t%d\t-\t%s\n' % (b['chrom'], b['start'], b['end'], fmt_float(b['log2'])))
                argv += ['-r', ncnr]
            run_cli(argv)
            got = read_lines(os.path.join(d, 'o.theta'))
            # the command reads (and sorts) the files: compare with the API call on the loaded tables
            tbl = export.export_theta(read_cna(cns), read_cna(ncnr) if case['normal'] else None)
            want = [list(tbl.columns)] + [[str(x) for x in r] for r in tbl.values.tolist()]
            ck.count(['cli-theta', case], nontrivial=True, cls='cli|theta')
            if got != want:
                ck.violation('cnvkit.py export theta writes another table than export_theta on the same tables', case,
                             clause='C20_theta_rows', code=got[:5], expected=want[:5])
            check_theta(ck, case, scratch, count=False)
        vlib.shutil.rmtree(d, ignore_errors=True)


def load_corpus():
    p = os.path.join(vlib.VERIF, 'corpus', 'c20.json')
    return json.load(open(p)) if os.path.exists(p) else []


def check_case(ck, case, scratch, count=True):
    k = case.get('kind')
    if k == 'bedvcf':
        return run_bedvcf_cases(ck, [case], scratch, count=count)
    if k == 'seg':
        return check_seg(ck, case, scratch, count=count)
    if k == 'matrix':
        return check_matrix(ck, case, scratch, count=count)
    if k == 'nexus':
        return check_nexus(ck, case, scratch, count=count)
    if k == 'ogt':
        return check_ogt(ck, case, scratch, count=count)
    if k == 'theta':
        return check_theta(ck, case, scratch, count=count)
    raise RuntimeError('unknown case kind %r' % k)


def check_spec_table(ck):
    """the class table typed here == Coq Spec/Call.v (entry c01_spec_table); disagreement = infrastructure error"""
    reqs, exp = [], []
    for style in (True, False):
        xn, yn = ('chrX', 'chrY') if style else ('X', 'Y')
        for build in (None, 'grch37', 'grch38'):
            inst = [('chr1' if style else '1', 5, 10), (xn, 3000000, 3100000), (yn, 3000000, 3100000)]
            for sex, nm in (('X', xn), ('Y', yn)):
                inst += [(nm, a, z) for a, z in par_coords(build, sex)]
            for chrom, lo, hi in inst:
                for k in range(1, 7):
                    for mr in (False, True):
                        for fs in (False, True):
                            kl = py_class(style, build, chrom, lo, hi)
                            r, x = py_copies(k, mr, fs, kl)
                            reqs.append([style, build, chrom, lo, hi, k, mr, fs])
                            exp.append([KL[kl], r, x])
    got = vlib.model_batch('c01_spec_table', reqs)
    for q, g, e in zip(reqs, got, exp):
        if g != e:
            raise RuntimeError('Coq Spec.Call table disagrees with the python oracle table on %r: %r vs %r' % (q, g, e))
    ck.extra['spec_table_points'] = len(reqs)


def run(ck, scratch):
    ck.rule = ('segment tables: ploidy 1..6 x haploid/diploid-X reference x female/male sample x chr/plain naming x build None/grch37/'
               'grch38, with or without a cn column, 0..3 autosomes + X + Y, segments starting at 0, inside / one base off / straddling '
               'each PAR, genes incl. missing and "-", probes as integer / float / missing column (and negative counts); log2 values put '
               'on r*2^v = j, j+1/2 (exact ties), j+1/2 +- 1e-9..1e-4 and random; cn values at / next to the expected copies; every '
               'table goes through export_bed for show = all / ploidy / variant (frame and written file) and export_vcf (text parsed '
               'back), 20% with a .cnr for CIPOS/CIEND; edge stream: inconsistently named tables, unsupported / mixed-case builds '
               '(model vs code only); SEG: 1..5 samples written as .cns files, chrom_ids default / False / True / None, frame and '
               'written file; CDT/JTV: 1..5 .cnr files incl. bins that differ (dropped / added / shifted / renamed bin, other gene) and '
               'duplicate ids (same basename in another directory, same file twice); nexus-basic; `cnvkit.py export bed|vcf|seg|cdt|jtv|nexus-basic` '
               'on written files, in-process through commands.parse_args. VCF text: header / column / record lines of every table '
               'against a direct text oracle and the model\'s text, CIPOS/CIEND against a brute-force margin oracle (bins cut at / inside / '
               'off the breakpoints, chromosomes without bins). nexus-ogt: 0..3 chromosomes + X/Y, weights incl. 0 / NaN / no column, '
               'thresholds 0 / 0.3 / 0.5 / 1 / 2 / -1, row labels default / with gaps / permuted, 0..4 variants per bin (het / hom / ref, '
               'NaN frequency, abutting, all non-heterozygous), paired or not; THetA: autosomes + X/Y, only sex chromosomes, odd names '
               '(chr1_alt, chr, MT, chr05), probes / weight columns present or not, new- and old-style weights, log2 on exact rounding '
               'ties (2^-4 x odd probes), normal None / empty / bins cut around the segments / elsewhere, 8% interleaved chromosomes; '
               'both also through `cnvkit.py export nexus-ogt|theta`. '
               'non-trivial = a filter that removes some but not all rows / a VCF with records / non-empty tables; distinct by case hash')
    if not ck.build_status.get('driver_ok'):
        raise RuntimeError('model driver unavailable')
    check_spec_table(ck)
    rng = ck.rng
    quick = ck.tier == 'quick'
    # corpus first
    corpus = load_corpus()
    for c in corpus:
        case = dict(c)
        case.pop('name', None)
        check_case(ck, case, scratch)
    ck.extra['corpus_cases'] = len(corpus)
    # BED / VCF
    n_tab = 500 if quick else 6000
    step = 150
    for i in range(0, n_tab, step):
        run_bedvcf_cases(ck, [gen_case(rng) for _ in range(min(step, n_tab - i))], scratch)
    run_bedvcf_cases(ck, [gen_edge_case(rng) for _ in range(100 if quick else 1000)], scratch)
    # SEG
    for _ in range(60 if quick else 1000):
        check_seg(ck, gen_seg_case(rng), scratch)
        vlib.shutil.rmtree(os.path.join(scratch, 'seg'), ignore_errors=True)
    # matrix formats
    for _ in range(70 if quick else 1000):
        check_matrix(ck, gen_matrix_case(rng), scratch)
        vlib.shutil.rmtree(os.path.join(scratch, 'mat'), ignore_errors=True)
    for i in range(15 if quick else 200):
        check_nexus(ck, dict(kind='nexus', id='N%d' % i, rows=natural_table(rng, rng.random() < 0.5)), scratch)
    for _ in range(60 if quick else 1500):
        check_ogt(ck, gen_ogt_case(rng), scratch)
    for _ in range(120 if quick else 3000):
        check_theta(ck, gen_theta_case(rng), scratch)
    check_cli(ck, scratch, 6 if quick else 100)
    check_cli_samples(ck, scratch, 5 if quick else 60)
    check_cli_ogt_theta(ck, scratch, 4 if quick else 60)
    ck.unproved_remainder = [
        'that numpy 2**v is within 1e-12 of the real function is trusted (the harness supplies the library value to the model as an '
        'exact rational, as in C01)',
        'rows whose exact r*2^log2 lies within 1e-7 (relative) of j+1/2 without being an exact tie are counted float_ambiguous and '
        'their copy number / membership is not compared',
        'printing of floats: the two float texts of a VCF record (FOLD_CHANGE = str(2.0 ** log2), FOLD_CHANGE_LOG = str(log2)) are '
        'oracle strings handed to the text model (everything else of the VCF text -- header lines, column line, record lines, CIPOS/CIEND '
        'in integer and float columns -- is model text compared line by line); repr in CDT / JTV and %.6g in SEG / nexus files, and the '
        'tokenisation of those files, stay on the code side; to_csv quoting of a sample id containing a tab / quote is not modelled',
        'CIPOS/CIEND texts are proved for tables in which every segment has a bin (integer columns); the float rendering when some '
        'segment has none (0.0 / -100.0 / nan) is modelled and compared only',
        'THetA: the exp2 values (2**log2, 2**reference mean) are oracle inputs; counts whose exact value lies within 1e-7 of j+1/2 are not '
        'compared (exact ties are, on the integer-probes path); the reference means are compared to 1e-9; tables whose chromosomes are '
        'interleaved are outside the row-wise theorems (model vs code only); a normal without a probes column (AttributeError) and a '
        'nexus-ogt table with no bin left (TypeError) are modelled as error outcomes',
        'nexus-ogt: a VariantArray without alt_freq column is not modelled; the per-bin BAF clause is C18\'s (Model/VBaf.v reused)',
        'not modelled (stated precondition sp_ids_ok of C20_matrix): a sample id equal to one of merge_samples\' own column names '
        '(chromosome, start, end, gene, label); the model returns MergeReserved for it and the generators never produce such ids',
        'stated precondition of the VCF clauses: the probes column is present and integer (as cnvkit writes segment tables); a missing / '
        'float probes column or a negative count makes export_vcf skip the row (`not str(probes).isdigit()`), which the model mirrors '
        '(sp_numeric) and the generators exercise, but the property text is only claimed for numeric probe counts',
    ]


def replay(ck, body):
    case = body.get('case')
    if not isinstance(case, dict) or 'kind' not in case:
        print('replay: no case in file (%s)' % body.get('what'))
        return 0
    scratch = vlib.scratch_dir('C20-replay')
    try:
        print('case:', json.dumps(case)[:2000])
        check_case(ck, case, scratch, count=False)
    finally:
        vlib.rm_scratch(scratch)
    bad = bool(ck.violations or ck.tie_breaks)
    what = [v[1] for v in ck.violations] + [t[0] for t in ck.tie_breaks]
    print('replay: %s' % (('still failing: %s' % what) if bad else 'passes now'))
    return 1 if bad else 0
