"""C15 -- centring is a uniform shift zeroing the autosomes; sample sex is inferred right.

Correspondence and search for CopyNumArray.center_all / autosomes / drop_low_coverage /
compare_sex_chromosomes / guess_xx / shift_xx / expect_flat_log2 and commands.do_sex against the
extracted Coq model (Model/Center.v, Model/Sex.v; entries c15_*).

Direct oracles (independent of the code and of the model, exact `fractions.Fraction`):
  * centring: result - input is one constant (every other column and the row order unchanged); the
    chosen estimator (two-level or flat) of the RESULT's autosomal bins -- the bins selected on the
    input by the property's own rule: numeric names (optional "chr"), PAR-X with a PAR build, all rows
    when no name is numeric, null-coverage bins ignored when asked -- is 0 (|.| <= 1e-9);
  * shift_xx: X bins move by exactly the amount that brings a correctly sexed X to the autosomal
    level, nothing else moves;  expect_flat_log2: 0 / -1 by chromosome class;
  * sex: generated samples of the quantifier (sex x reference x Y x weights x sd x nX) must be
    inferred as their true sex by compare_sex_chromosomes / guess_xx / do_sex (monitoring: this clause
    is statistical, a failure is reported with the concrete sample).
The KDE arg-max (mode) and the G statistic of Mood's median test are oracles supplied from scipy."""
import os, json, math
from fractions import Fraction as F
import numpy as np
import pandas as pd
import vlib
from vlib import Err

LEVEL = 'proof'

GRID = 1024
LOW_CUT = F(-15)          # NULL_LOG2_COVERAGE - MIN_REF_COVERAGE = -20 - (-5)
BW_C, BW_EPS, BW_ITER = F(6), F(1e-3), 5       # biweight location: c = 6, epsilon = 1e-3 (the float), 5 iterations
EST_NAMES = ['median', 'mean', 'biweight', 'mode']
COLS = ['chromosome', 'start', 'end', 'gene', 'log2', 'depth', 'weight']

UNPROVED = [
    'noisy sex inference (Gaussian bin noise sd 0.01..0.3, 40..400 chrX bins): PROVED for bounded noise -- '
    'C15_sex_bounded_noise: every bin within eps < 1/4 of its level (C15_sex_bounded_noise_corollary: 0.24), and '
    'C15_sex_centred_noise: only the three (weighted) medians within eps < 1/4 -- for every reference sex x PAR build x Y x '
    'weights, outright on the route without median-test statistics and, on the route with them, under the contract that '
    'the statistic is not larger / smaller for the hypothesis whose shifted chromosome median is closer to the '
    "autosomes' (1/4 is sharp: C15_sex_quarter_is_sharp; the contract cannot be dropped: C15_sex_contract_needed). "
    'STILL STATISTICAL, sampled only: (i) the Gaussian tails -- a sample whose median of chrX / chrY / autosomal bins '
    'strays 1/4 or more from its level (at sd 0.3 and 40 bins a 4-sigma event); (ii) that scipy.stats.median_test meets '
    'the contract on the sample: evaluated on every generated sample, counts in coverage.sex_noise (per stream: '
    'contract_met / contract_unmet / under_theorem / wrong_calls). compare_sex_chromosomes / guess_xx / do_sex are run '
    'on generated samples of the quantifier and every wrong call is reported as a concrete failing input; a third of '
    'the samples carry PAR-X / PAR-Y bins and are judged under a PAR build',
    'weighted medians inside compare_sex_chromosomes: the model arranges equal values stably, numpy.argsort (default kind) '
    'need not; a table where that can change the weighted median (the cumulative weight reaches the midpoint at the end of '
    'a run of equal values that holds a zero-weight bin) is not compared with the model when the two differ (class '
    'sex:weighted-median-tie-order; C19 treats the order as an oracle)',
    'do_sex: C15_do_sex_row / _rows / _columns / _sign state the table before number formatting; the "%.3g" rendering of the two '
    'ratios is compared as text with the code (same_3g), not modelled',
    "mode: the Gaussian-KDE arg-max index is an oracle (scipy.stats.gaussian_kde); C15_zero_mode holds for every index "
    "function that is invariant under a common shift of the sorted values; the KDE itself is sampled",
    "Mood's median test: the contingency table is modelled exactly, the G statistic (scipy chi2_contingency, "
    'log-likelihood, Yates) is an oracle value per table',
    'float rounding: theorems are about exact rational arithmetic; code and model are compared at 1e-9',
    'expect_flat_log2 on PAR-Y bins with a male reference and a PAR build: open known finding c15-flat-pary-male-ref '
    '(C15_flat excludes exactly that situation, C15_flat_pary_refuted exhibits it)',
]


# ----------------------------------------------------------------------------------------------
# tables

def par_tables():
    from cnvlib import params
    return params.PSEUDO_AUTSOMAL_REGIONS


def fl(x):
    return None if x is None else float(x)


def mk_cna(rows, has_depth, has_weight, meta=None):
    from cnvlib.cnary import CopyNumArray as CNA
    cols = {'chromosome': [r[0] for r in rows], 'start': [int(r[1]) for r in rows], 'end': [int(r[2]) for r in rows],
            'gene': [r[3] for r in rows], 'log2': np.array([float(r[4]) for r in rows], dtype=float)}
    if has_depth:
        cols['depth'] = np.array([float(r[5]) for r in rows], dtype=float)
    if has_weight:
        cols['weight'] = np.array([float(r[6]) for r in rows], dtype=float)
    df = pd.DataFrame(cols)
    if not rows:
        df = df.astype({'chromosome': str, 'start': int, 'end': int, 'gene': str})
    m = {'sample_id': 's', 'filename': None}
    if meta:
        m.update(meta)
    return CNA(df, m)


def model_bins(rows, has_depth, has_weight):
    return [[r[0], int(r[1]), int(r[2]), r[3], F(r[4]), (F(r[5]) if has_depth else None),
             (F(r[6]) if has_weight else None)] for r in rows]


def case_rows(rows):
    """JSON-able copy of a table (grid values are exact in decimal)."""
    return [[r[0], int(r[1]), int(r[2]), r[3], float(r[4]), fl(r[5]), fl(r[6])] for r in rows]


def rows_of_case(rows):
    return [(r[0], int(r[1]), int(r[2]), r[3], F(r[4]), (None if r[5] is None else F(r[5])),
             (None if r[6] is None else F(r[6]))) for r in rows]


# ----------------------------------------------------------------------------------------------
# the property's own rules, in Python

def py_is_auto(name):
    s = name[3:] if name.startswith('chr') else name
    return len(s) > 0 and all(c in '0123456789' for c in s)


def py_labels(rows):
    if not rows:
        return '', ''
    return ('chrX', 'chrY') if rows[0][0].startswith('chr') else ('X', 'Y')


def py_in_par(build, keys, start, end):
    tab = par_tables()[build.lower()]
    return any(tab[k][0] <= start and end <= tab[k][1] for k in keys)


def py_is_low(r, has_depth):
    return r[4] < LOW_CUT or (has_depth and r[5] == 0)


def py_selected(rows, has_depth, skip_low, build):
    """indices of the bins the estimate is taken over"""
    kept = [i for i, r in enumerate(rows) if not (skip_low and py_is_low(r, has_depth))]
    if not any(py_is_auto(rows[i][0]) for i in kept):
        return kept                                   # none named like autosomes: all (usable) rows
    xl, _ = py_labels([rows[i] for i in kept])
    return [i for i in kept if py_is_auto(rows[i][0]) or
            (build is not None and rows[i][0] == xl and py_in_par(build, ('PAR1X', 'PAR2X'), rows[i][1], rows[i][2]))]


def f_median(l):
    s = sorted(l)
    n = len(s)
    return s[n // 2] if n % 2 else (s[n // 2 - 1] + s[n // 2]) / 2


def f_mean(l):
    return sum(l) / len(l)


BW_ROUND = 1 << 200


def f_biweight(l, count=None):
    """biweight location: start at the median, iterate <= 5 times, stop when the step is <= 1e-3.  Rational
    arithmetic; each iterate is rounded to a multiple of 2^-200 (exact iterates grow ~20x in size per round)"""
    if len(l) == 1:
        return l[0]
    initial = f_median(l)
    result = initial
    for _ in range(BW_ITER):
        if count is not None:
            count[0] += 1
        d = [x - initial for x in l]
        mad = f_median([abs(x) for x in d])
        den = max(BW_C * mad, BW_EPS)
        num = tot = F(0)
        for x in d:
            u = x / den
            if abs(u) < 1:
                w = (1 - u * u) ** 2
                num += x * w
                tot += w
        result = initial if tot == 0 else initial + num / tot
        result = F(round(result * BW_ROUND), BW_ROUND)
        if abs(result - initial) <= BW_EPS:
            break
        initial = result
    return result


def q_bits(x):
    return max(abs(x.numerator).bit_length(), x.denominator.bit_length(), 10)


def bw_model_cost(lists, by_chrom):
    """estimated seconds the exact (unrounded) Coq model needs: one biweight round multiplies the size of the iterate
    by ~5 (measured), arithmetic on the extracted inductive integers is quadratic: ~8e-8 s x bits^2 per value and
    round.  With by_chrom the per-chromosome results (already large) are the input of the outer evaluation."""
    def one(l, bits):
        if len(l) < 2:
            return 0.0, bits
        k = [0]
        f_biweight(l, k)
        cost = sum(len(l) * 8e-8 * (bits * 5 ** j) ** 2 for j in range(1, k[0] + 1))
        return cost, bits * 5 ** k[0]
    total, out_bits = 0.0, 10
    for l in lists:
        c, ob = one(l, max(q_bits(x) for x in l))
        total += c
        out_bits = max(out_bits, ob)
    if by_chrom:
        c, _ = one([f_biweight(l) for l in lists], out_bits)
        total += c
    return total


def kde_index(sorted_floats):
    """the oracle: scipy's Gaussian-KDE arg-max over the sorted values (as modal_location calls it)"""
    from scipy import stats
    arr = np.asarray(sorted_floats, dtype=float)
    kde = stats.gaussian_kde(arr)
    return int(kde.evaluate(arr).argmax())


def f_mode(l, kde_tab=None):
    if len(l) == 1:
        return l[0]
    s = sorted(l)
    if s[0] == s[-1]:
        return s[0]
    idx = kde_index([float(x) for x in s])
    if kde_tab is not None:
        kde_tab.append([list(s), idx])
    return s[idx]


def estimator_fn(name, kde_tab=None):
    if name == 'mode':
        return lambda l: f_mode(l, kde_tab)
    return {'median': f_median, 'mean': f_mean, 'biweight': f_biweight}[name]


def py_groups(rows, idx):
    """per-chromosome log2 lists of the selected rows, chromosomes in order of first appearance"""
    order, g = [], {}
    for i in idx:
        c = rows[i][0]
        if c not in g:
            g[c] = []
            order.append(c)
        g[c].append(rows[i][4])
    return [g[c] for c in order]


def py_stat(est, by_chrom, rows, idx, values=None):
    vals = values if values is not None else [r[4] for r in rows]
    if by_chrom:
        order, g = [], {}
        for i in idx:
            c = rows[i][0]
            if c not in g:
                g[c] = []
                order.append(c)
            g[c].append(vals[i])
        return est([est(g[c]) for c in order])
    return est([vals[i] for i in idx])


# ----------------------------------------------------------------------------------------------
# centring: running the code

def run_center(rows, has_depth, has_weight, est, by_chrom, skip_low, build, defaults=False):
    cna = mk_cna(rows, has_depth, has_weight)
    try:
        if defaults:
            cna.center_all()
        else:
            cna.center_all(est, by_chrom=by_chrom, skip_low=skip_low, diploid_parx_genome=build)
    except AssertionError:
        return Err('Assertion')
    except ValueError:
        return Err('ValueError')
    d = cna.data
    out = {'log2': [float(x) for x in d['log2'].values],
           'keys': [[str(a), int(b), int(c), str(g)] for a, b, c, g in
                    zip(d['chromosome'].values, d['start'].values, d['end'].values, d['gene'].values)],
           'depth': [float(x) for x in d['depth'].values] if has_depth else None,
           'weight': [float(x) for x in d['weight'].values] if has_weight else None,
           'columns': list(d.columns)}
    return out


def run_selection(rows, has_depth, has_weight, skip_low, build):
    cna = mk_cna(rows, has_depth, has_weight)
    try:
        sel = (cna.drop_low_coverage() if skip_low else cna).autosomes(diploid_parx_genome=build)
    except AssertionError:
        return Err('Assertion')
    return [[str(c), int(s)] for c, s in zip(sel.chromosome.values, sel.start.values)]


class CenterBatch:
    """collects centring cases; evaluates oracles per case, the model in one batch"""

    def __init__(self, ck):
        self.ck = ck
        self.items = []

    def add(self, rows, has_depth, has_weight, est, by_chrom, skip_low, build, cls, defaults=False):
        ck = self.ck
        case = {'kind': 'center', 'rows': case_rows(rows), 'has_depth': has_depth, 'has_weight': has_weight,
                'estimator': est, 'by_chrom': by_chrom, 'skip_low': skip_low, 'build': build, 'defaults': defaults}
        code = run_center(rows, has_depth, has_weight, est, by_chrom, skip_low, build, defaults)
        bad_est = est not in EST_NAMES
        bad_build = build is not None and build.lower() not in par_tables()
        kde_tab = []
        nontriv = False
        skip_model = False
        if bad_est or bad_build:
            exp = Err('ValueError') if bad_est else Err('Assertion')
            if code != exp:
                ck.violation('center_all: expected %r' % exp, case, code=code, expected=exp, clause='C15 (malformed arguments)')
            code_sel = None
        else:
            if isinstance(code, Err):
                ck.violation('center_all raised %s on a valid table' % code.msg, case, code=code, clause='C15_uniform_shift')
                return
            idx = py_selected(rows, has_depth, skip_low, build)
            nontriv = self.oracle(case, rows, has_depth, has_weight, est, by_chrom, idx, code, kde_tab)
            if est == 'biweight' and idx:
                lists = py_groups(rows, idx) if by_chrom else [[rows[i][4] for i in idx]]
                if bw_model_cost(lists, by_chrom) > (1.0 if ck.tier == 'quick' else 2.5):
                    skip_model = True      # the exact model is out of reach (iterates of 10^5.. bits); oracles still apply
                    ck.cls('center:biweight:model-skipped(deep iteration)')
            code_sel = run_selection(rows, has_depth, has_weight, skip_low, build)
            exp_sel = [[rows[i][0], int(rows[i][1])] for i in idx]
            if code_sel != exp_sel:
                ck.violation('the bins the estimate is taken over are not the autosomal bins of the property', case,
                             code=code_sel, expected=exp_sel,
                             clause='C15_no_autosomes' if not any(py_is_auto(r[0]) for r in rows) else 'C15_zero (selection)')
        ck.count(case, nontrivial=nontriv, cls=cls)
        if not skip_model:
            self.items.append((case, rows, has_depth, has_weight, code, code_sel, kde_tab))

    def oracle(self, case, rows, has_depth, has_weight, est, by_chrom, idx, code, kde_tab):
        ck = self.ck
        n = len(rows)
        # every other column and the row order untouched
        exp_keys = [[r[0], int(r[1]), int(r[2]), r[3]] for r in rows]
        if code['keys'] != exp_keys or (has_depth and code['depth'] != [float(r[5]) for r in rows]) or \
                (has_weight and code['weight'] != [float(r[6]) for r in rows]) or len(code['log2']) != n:
            ck.violation('center_all changed a column other than log2 / the row order', case, code=code,
                         clause='C15_uniform_shift')
            return False
        if n == 0:
            return False
        out = [F(x) if x == x else None for x in code['log2']]
        if any(x is None for x in out):
            ck.violation('center_all produced NaN', case, code=code, clause='C15_uniform_shift')
            return False
        diffs = [o - r[4] for o, r in zip(out, rows)]
        c0 = diffs[0]
        worst = max(abs(d - c0) for d in diffs)
        if worst > F(1, 10 ** 9):
            ck.violation('center_all is not a uniform shift (result - input varies by %.3g)' % float(worst), case,
                         code=code['log2'], expected='one constant added to every bin', clause='C15_uniform_shift')
            return False
        if not idx:
            if c0 != 0:
                ck.violation('no usable bin, yet the table was shifted', case, code=code['log2'], clause='C15_uniform_shift')
            return False
        # the estimator of the result's autosomal bins is 0
        if est == 'mode':
            # KDE arg-max: an oracle.  Evaluate on the input (this also fills the table handed to the model) ...
            before = py_stat(estimator_fn('mode', kde_tab), by_chrom, rows, idx)
            after = py_stat(estimator_fn('mode'), by_chrom, rows, idx, values=out)
            if abs(after) > F(1, 10 ** 9):
                # ... the contract "index invariant under a common shift" may fail for scipy on (near-)ties
                if self.kde_shift_invariant(rows, idx, by_chrom, out):
                    ck.violation('mode of the centred autosomal bins is %.6g, not 0' % float(after), case,
                                 code=code['log2'], expected=0, clause='C15_zero_mode')
                else:
                    ck.float_ambiguous += 1
                    ck.cls('mode:kde-argmax-not-shift-invariant')
            return c0 != 0 or before == 0
        res = py_stat(estimator_fn(est), by_chrom, rows, idx, values=out)
        if abs(res) > F(1, 10 ** 9):
            ck.violation('%s%s of the centred autosomal bins is %.6g, not 0' % (
                est, ' of per-chromosome values' if by_chrom else '', float(res)), case,
                code=code['log2'], expected=0, clause='C15_zero')
            return False
        return True

    def kde_shift_invariant(self, rows, idx, by_chrom, out):
        """do scipy's arg-max indices agree between the input lists and the shifted lists?"""
        def indices(vals):
            got = []
            lists = py_groups([(r[0], 0, 0, '', v) for r, v in zip(rows, vals)], idx) if by_chrom else [[vals[i] for i in idx]]
            firsts = []
            for l in lists:
                s = sorted(l)
                if len(s) > 1 and s[0] != s[-1]:
                    k = kde_index([float(x) for x in s])
                    got.append(k)
                    firsts.append(s[k])
                else:
                    got.append(-1)
                    firsts.append(s[0])
            if by_chrom:
                s = sorted(firsts)
                got.append(kde_index([float(x) for x in s]) if len(s) > 1 and s[0] != s[-1] else -1)
            return got
        return indices([r[4] for r in rows]) == indices(out)

    def flush(self):
        ck = self.ck
        items, self.items = self.items, []
        if not items:
            return
        reqs, sreqs = [], []
        for case, rows, hd, hw, code, code_sel, kde_tab in items:
            bins = model_bins(rows, hd, hw)
            if case['defaults']:
                reqs.append(None)
            else:
                reqs.append([case['estimator'], case['by_chrom'], case['skip_low'], case['build'], kde_tab, bins])
            sreqs.append([case['skip_low'], case['build'], bins] if code_sel is not None else None)
        dflt = vlib.model_call('c15_defaults', None)
        for i, (case, rows, hd, hw, code, code_sel, kde_tab) in enumerate(items):
            if reqs[i] is None:
                reqs[i] = ['median', dflt[0], dflt[1], None, [], model_bins(rows, hd, hw)]
        res = vlib.model_batch_parallel('c15_center', reqs)
        live = [i for i, r in enumerate(sreqs) if r is not None]
        sres = dict(zip(live, vlib.model_batch_parallel('c15_selection', [sreqs[i] for i in live])))
        for i, (case, rows, hd, hw, code, code_sel, kde_tab) in enumerate(items):
            m = res[i]
            if isinstance(code, Err) or isinstance(m, Err):
                if code != m:
                    ck.tie_break('center_all: code and model disagree on the error', case, code=code, model=m)
                continue
            mshift, mlog2 = m
            ok = len(mlog2) == len(code['log2']) and all(vlib.close(c, x) for c, x in zip(code['log2'], mlog2))
            if not ok:
                if case['estimator'] == 'biweight' and self.biweight_ambiguous(rows, hd, case):
                    ck.float_ambiguous += 1
                    continue
                ck.tie_break('center_all: code and model differ', case, code=code['log2'],
                             model=[float(x) for x in mlog2], model_shift=mshift)
            if i in sres and sres[i] != code_sel:
                ck.tie_break('autosome selection: code and model differ', case, code=code_sel, model=sres[i])

    def biweight_ambiguous(self, rows, hd, case):
        """is one convergence test of the biweight iteration within 1e-7 of its boundary?"""
        idx = py_selected(rows, hd, case['skip_low'], case['build'])
        lists = py_groups(rows, idx) if case['by_chrom'] else [[rows[i][4] for i in idx]]
        if case['by_chrom']:
            lists = lists + [[f_biweight(l) for l in lists]]
        lists = [l for l in lists if len(l) > 1]
        steps = vlib.model_batch('c15_biweight_steps', lists)
        return any(abs(float(s) - 1e-3) < 1e-7 for st in steps for s in st)


# ----------------------------------------------------------------------------------------------
# centring: generators

NON_NUMERIC = ['chrA', 'chrB', 'scaffold_1', 'X', 'Y', 'chrM', 'MT', 'I', 'II', 'III', 'IV', 'chr1_random',
               '1_random', 'chr2L', '2L', '2R', 'contig7b', 'chrUn_gl000220', 'chr', 'chr_1', 'HLA-A', 'EBV', 'V', 'chr1b',
               'chrX', 'chrY', 'c1', 'ch12', 'Chr3', 'CHR4', '5p', 'chr 6']


def grid(rng, lo, hi):
    return F(rng.randint(int(lo * GRID), int(hi * GRID)), GRID)


def natural_key(name):
    s = name[3:] if name.startswith('chr') else name
    return (0, int(s)) if s.isdigit() else (1, {'X': 0, 'Y': 1}.get(s, 2), s)


def x_positions(rng, build, n):
    """n bin coordinates on X, biased to the PAR boundaries of the build"""
    pos = []
    tab = par_tables()[(build or rng.choice(['grch37', 'grch38'])).lower()]
    (s1, e1), (s2, e2) = tab['PAR1X'], tab['PAR2X']
    cand = [(s1, s1 + 100), (e1 - 100, e1), (e1 - 100, e1 + 1), (s1 - 1, s1 + 50), (s2, e2), (s2 - 1, e2), (s2, e2 + 1),
            (s1, e1), (s1 + 5000, s1 + 5100), (s2 + 10, s2 + 90), (e1, e1 + 100), (e2, e2 + 100), (0, 100)]
    for _ in range(n):
        if rng.random() < 0.55:
            pos.append(rng.choice(cand))
        else:
            a = rng.randint(3000000, 150000000)
            pos.append((a, a + rng.randint(50, 5000)))
    return sorted(set(pos))


def y_positions(rng, build, n, allow_par):
    tab = par_tables()[(build or rng.choice(['grch37', 'grch38'])).lower()]
    (s1, e1), (s2, e2) = tab['PAR1Y'], tab['PAR2Y']
    cand = [(s1, s1 + 100), (e1 - 100, e1), (s2, e2), (s2 + 10, s2 + 90)]
    edge = [(e1 - 100, e1 + 1), (s1 - 1, s1 + 50), (s2 - 1, e2), (s2, e2 + 1), (e1, e1 + 100)]
    pos = []
    for _ in range(n):
        u = rng.random()
        if u < 0.3 and allow_par:
            pos.append(rng.choice(cand))
        elif u < 0.5:
            pos.append(rng.choice(edge))
        else:
            a = rng.randint(3000000, 50000000)
            pos.append((a, a + rng.randint(50, 5000)))
    return sorted(set(pos))


def gen_table(rng, tier, build=None, style=None, allow_pary=True, max_bins=None, tame=False, max_chroms=24):
    """a bin table with 1..24 chromosomes, per-chromosome levels, null-coverage bins"""
    style = style or rng.choice(['chr', 'plain', 'none', 'chr', 'plain'])
    k = min(max_chroms, rng.choice([1, 1, 2, 3, rng.randint(1, 24), rng.randint(1, 24), 24]))
    if style == 'none':
        names = rng.sample(NON_NUMERIC, min(k, len(NON_NUMERIC)))
    else:
        pool = [str(i) for i in range(1, 23)] + ['X', 'Y']
        names = rng.sample(pool, k)
        if build is not None and 'X' not in names and rng.random() < 0.7:
            names[rng.randrange(len(names))] = 'X'
        if rng.random() < 0.15:
            names.append(rng.choice(['M', 'MT', 'Un_gl000220', '1_gl000191_random', '6_hap1']))
        if rng.random() < 0.8:
            names.sort(key=natural_key)
        if style == 'chr':
            names = ['chr' + n for n in names]
    mb = max_bins or (8 if tier == 'quick' else rng.choice([8, 8, 20, 40]))
    has_depth = rng.random() < 0.5
    has_weight = rng.random() < 0.3
    nulls = rng.random() < (0.2 if tame else 0.45)
    flat_noise = rng.random() < 0.15
    amp = rng.choice([0.01, 0.03, 0.06]) if tame else 0.3
    rows = []
    for name in names:
        if tame:
            level = rng.choice([F(0), F(0), F(1, 8), F(-1, 8), grid(rng, -0.2, 0.2), grid(rng, -0.2, 0.2)])
        else:
            level = rng.choice([F(0), F(0), F(1, 2), F(-1, 2), F(1), F(-1), grid(rng, -2, 2), grid(rng, -2, 2)])
        nb = rng.choice([1, 1, 2, 3, rng.randint(1, mb), rng.randint(1, mb)])
        base = name[3:] if name.startswith('chr') else name
        if base == 'X' and style != 'none':
            pos = x_positions(rng, build, nb)
        elif base == 'Y' and style != 'none':
            pos = y_positions(rng, build, nb, allow_pary)
        else:
            a = rng.randint(0, 5000)
            pos = []
            for _ in range(nb):
                w = rng.randint(50, 3000)
                pos.append((a, a + w))
                a += w + rng.choice([0, 0, rng.randint(1, 5000)])
        for (s, e) in pos:
            noise = F(0) if flat_noise else (rng.choice([F(0), grid(rng, -amp, amp), grid(rng, -amp, amp), F(rng.randint(-3, 3), 8 if amp > 0.1 else 256)]))
            v = level + noise
            depth = grid(rng, 0.01, 50)
            if nulls and rng.random() < 0.2:
                u = rng.random()
                if u < 0.6:
                    v = rng.choice([F(-20), LOW_CUT - F(1, GRID), LOW_CUT, F(-25), LOW_CUT + F(1, GRID), F(-20) + grid(rng, -1, 1)])
                if u > 0.4:
                    depth = F(0)
            weight = rng.choice([F(1), grid(rng, 0.05, 1), grid(rng, 0.05, 1), F(0)])
            rows.append((name, s, e, rng.choice(['g', '-', 'Antitarget', 'A,B']), v, depth, weight))
    if rng.random() < 0.12:
        rng.shuffle(rows)               # rows of one chromosome need not be contiguous
    return rows, has_depth, has_weight, style


def check_center(ck):
    rng = ck.rng
    tier = ck.tier
    batch = CenterBatch(ck)
    n_cases = 400 if tier == 'quick' else 6000
    builds = [None, None, 'grch37', 'grch38', 'GRCh37', 'GRCh38']
    # every estimator x by_chrom x skip_low x build on a few tables first
    for est in EST_NAMES:
        for bc in (True, False):
            for sl in (True, False):
                for build in (None, 'grch37', 'grch38'):
                    rows, hd, hw, style = gen_table(rng, tier, build, max_bins=(4 if est == 'biweight' else None))
                    batch.add(rows, hd, hw, est, bc, sl, build, 'center:grid:%s' % style)
    for i in range(n_cases):
        build = rng.choice(builds)
        est = rng.choice(EST_NAMES)
        bc = rng.random() < 0.6
        # biweight: small chromosomes (and mostly few of them for the two-level estimate), so that the exact model --
        # whose iterates grow ~5x in size per round, per level -- stays affordable; larger tables are still oracle-checked
        bw = est == 'biweight'
        rows, hd, hw, style = gen_table(rng, tier, build, max_bins=(rng.choice([3, 4, 6]) if bw else None),
                                         tame=(bw and rng.random() < 0.7),
                                         max_chroms=(rng.choice([3, 5, 8]) if bw and bc and rng.random() < 0.7 else 24))
        sl = rng.random() < 0.5
        cls = 'center:%s:%s' % (est, style)
        ck.cls('center:opt:by_chrom' if bc else 'center:opt:flat')
        if sl:
            ck.cls('center:opt:skip_low')
        if build:
            ck.cls('center:opt:par-build')
        batch.add(rows, hd, hw, est, bc, sl, build, cls)
        if i % 25 == 0:
            batch.add(rows, hd, hw, 'median', True, False, None, 'center:defaults', defaults=True)
        if len(batch.items) >= 400:
            batch.flush()
    # edge / malformed stream
    for i in range(30 if tier == 'quick' else 300):
        rows, hd, hw, style = gen_table(rng, tier, None, max_bins=4)
        u = rng.random()
        if u < 0.25:
            batch.add(rows, hd, hw, rng.choice(['Median', 'trimmed', '', 'biweight ']), True, False, None, 'center:edge:bad-estimator')
        elif u < 0.5:
            batch.add(rows, hd, hw, rng.choice(EST_NAMES), True, False, rng.choice(['hg19', 'grch36', 'mm10', '']), 'center:edge:bad-build')
        elif u < 0.6:
            batch.add([], hd, hw, rng.choice(EST_NAMES), rng.random() < 0.5, rng.random() < 0.5, rng.choice([None, 'grch38']), 'center:edge:empty')
        elif u < 0.8:
            # every bin null-coverage: with skip_low nothing is left and the table must stay as it is
            rows = [(r[0], r[1], r[2], r[3], F(-20) - grid(rng, 0, 2), F(0), r[6]) for r in rows]
            batch.add(rows, hd, hw, rng.choice(EST_NAMES), rng.random() < 0.5, True, None, 'center:edge:all-low')
        else:
            # all numerically named chromosomes null, sex chromosomes alive
            rows = [(r[0], r[1], r[2], r[3], (F(-20) if py_is_auto(r[0]) else r[4]), r[5], r[6]) for r in rows]
            batch.add(rows, hd, hw, rng.choice(EST_NAMES), rng.random() < 0.5, True, None, 'center:edge:autosomes-low')
    batch.flush()


def check_estimators(ck):
    """the four estimators on plain lists: the code's functions move with the data (the fact C15_zero rests on),
    and agree with the model's est_fun"""
    from cnvlib import descriptives as D
    rng = ck.rng
    fns = {'median': pd.Series.median, 'mean': pd.Series.mean, 'biweight': D.biweight_location, 'mode': D.modal_location}
    reqs, codes, cases = [], [], []
    for i in range(160 if ck.tier == 'quick' else 2000):
        est = EST_NAMES[i % 4]
        n = rng.choice([1, 2, 3, 4, 5, rng.randint(2, 12), rng.randint(2, 40)])
        amp = rng.choice([0.02, 0.1, 0.3]) if est == 'biweight' else rng.choice([0.3, 2])
        base = grid(rng, -2, 2)
        l = [base + rng.choice([F(0), grid(rng, -amp, amp), grid(rng, -amp, amp)]) for _ in range(n)]
        if rng.random() < 0.2:
            l[rng.randrange(n)] = rng.choice([F(-20), F(5), F(-25)])
        c = grid(rng, -3, 3)
        case = {'kind': 'estimator', 'estimator': est, 'values': [float(x) for x in l], 'shift': float(c)}
        code = float(fns[est](pd.Series([float(x) for x in l])))
        moved = float(fns[est](pd.Series([float(x + c) for x in l])))
        ck.count(case, nontrivial=n > 1, cls='estimator:%s' % est)
        ok = vlib.close(moved, F(code) + c)
        if not ok and est == 'mode':
            s = sorted(l)
            if len(s) > 1 and s[0] != s[-1] and kde_index([float(x) for x in s]) != kde_index([float(x + c) for x in s]):
                ck.float_ambiguous += 1
                ck.cls('mode:kde-argmax-not-shift-invariant')
                ok = True
        if not ok:
            ck.violation('%s does not move with the data: est(x + c) = %r, est(x) + c = %r' % (est, moved, code + float(c)), case,
                         code=moved, expected=code + float(c), clause='C15_estimators_equivariant')
        if est == 'biweight' and bw_model_cost([l], False) > 1.0:
            continue
        kt = []
        if est == 'mode':
            f_mode(l, kt)
        reqs.append([est, kt, l])
        codes.append(code)
        cases.append(case)
    res = vlib.model_batch_parallel('c15_est', reqs)
    for case, code, m in zip(cases, codes, res):
        if isinstance(m, Err) or not vlib.close(code, m):
            ck.tie_break('estimator %s: code and model differ' % case['estimator'], case, code=code, model=vlib.jsonable(m))


def check_names(ck):
    """the 'named like an autosome' rule, model vs gary.autosomes vs the property's wording"""
    from skgenome import GenomicArray as GA
    rng = ck.rng
    names = list(NON_NUMERIC) + [str(i) for i in range(0, 30)] + ['chr%d' % i for i in range(0, 30)] + \
        ['01', 'chr01', '1 ', ' 1', 'chr1 ', '1.', '1e3', '-1', '+1', 'chrchr1', 'chr1chr', 'CHR1', 'cHr1', '123456789012',
         'chrX1', 'X1', '1X', 'chr1X', '²', 'chr', 'ch1', 'hr1', 'r1']
    for _ in range(200 if ck.tier == 'quick' else 3000):
        n = rng.randint(0, 6)
        names.append(''.join(rng.choice('chr0123456789XY_ ') for _ in range(n)))
    names = sorted(set(n for n in names if n != ''))
    ms = vlib.model_batch('c15_is_auto', names)
    for name, m in zip(names, ms):
        # a two-row table: the name under test and one numeric name, so that the fallback does not hide the answer
        ga = GA.from_rows([(name, 0, 10), ('7', 0, 10)])
        code = len(ga.autosomes()) == 2
        exp = py_is_auto(name)
        case = {'kind': 'name', 'name': name}
        ck.count(case, nontrivial=exp, cls='name:auto' if exp else 'name:other')
        if code != exp:
            ck.violation('autosomes(): %r %s counted as an autosome' % (name, 'is' if code else 'is not'), case,
                         code=code, expected=exp, clause='C15_autosome_names')
        elif m != code:
            ck.tie_break('is_auto_name: code and model differ', case, code=code, model=m)


# ----------------------------------------------------------------------------------------------
# chromosomal sex

def py_mood_table(s1, s2):
    gm = f_median(list(s1) + list(s2))
    return [sum(1 for x in s1 if x > gm), sum(1 for x in s2 if x > gm),
            sum(1 for x in s1 if x < gm), sum(1 for x in s2 if x < gm)]


def mood_valid(t):
    a1, a2, b1, b2 = t
    return a1 + a2 != 0 and b1 + b2 != 0 and not (a1 == 0 and b1 == 0) and not (a2 == 0 and b2 == 0)


def gstat_of_table(t):
    from scipy.stats import chi2_contingency
    stat = chi2_contingency(np.array([[t[0], t[1]], [t[2], t[3]]], dtype=np.int64), lambda_='log-likelihood', correction=True)[0]
    return float(stat)


def sex_parts(rows, build):
    """the rows compare_sex_chromosomes compares: (autosomal incl. PAR-X with a build, chrX outside PAR-X, chrY outside PAR-Y)"""
    xl, yl = py_labels(rows)
    def on(label, keys, r):
        return r[0] == label and not (build is not None and py_in_par(build, keys, r[1], r[2]))
    any_auto = any(py_is_auto(r[0]) for r in rows)
    auto = [r for r in rows if (not any_auto) or py_is_auto(r[0]) or
            (build is not None and r[0] == xl and py_in_par(build, ('PAR1X', 'PAR2X'), r[1], r[2]))]
    chrx = [r for r in rows if on(xl, ('PAR1X', 'PAR2X'), r)]
    chry = [r for r in rows if on(yl, ('PAR1Y', 'PAR2Y'), r)]
    return auto, chrx, chry


def wmedian_tie_sensitive(rows, build):
    """can descriptives.weighted_median of one of the three sets of bins depend on how numpy's unstable argsort arranges
    equal values?  Exactly when the cumulative weight reaches the midpoint at the END of a run of equal values that holds
    a zero-weight bin next to a weighted one: with the zero-weight bin last the search stops inside the run (-> that
    value), otherwise at its end (-> mean of that value and the next)."""
    for part in sex_parts(rows, build):
        tot = sum(F(r[6]) for r in part)
        if tot <= 0:
            continue
        groups = {}
        for r in part:
            groups.setdefault(F(r[4]), []).append(F(r[6]))
        cum = F(0)
        for v in sorted(groups):
            ws = groups[v]
            cum += sum(ws)
            if len(ws) > 1 and cum * 2 == tot and min(ws) == 0 and max(ws) > 0:
                return True
    return False


def scipy_contract(rows, hw, hap, build):
    """The contract of C15_sex_bounded_noise evaluated on scipy's own median_test, per chromosome, the way
    compare_to_auto calls it: {'x': {...}, 'y': {...}|None}; route 1 = both tests gave a statistic; ok = contract met
    (vacuously when route 0); margin = |f_diff - m_diff| (a tie there makes the contract's premise float-ambiguous)."""
    from scipy.stats import median_test
    from cnvlib import descriptives
    auto, chrx, chry = sex_parts(rows, build)
    auto_l = np.array([float(r[4]) for r in auto])
    auto_w = np.array([float(r[6]) for r in auto]) if hw else None

    def to_auto(vals, w):
        try:
            stat, _p, _m, cont = median_test(auto_l, vals, ties='ignore', lambda_='log-likelihood')
        except ValueError:
            stat = None
        else:
            if stat == 0 and 0 in cont:
                stat = None
        if hw:
            d = abs(descriptives.weighted_median(auto_l, auto_w) - descriptives.weighted_median(vals, w))
        else:
            d = abs(np.median(auto_l) - np.median(vals))
        return (None if stat is None else float(stat)), float(d)

    def chrom(sub, fs, ms):
        vals = np.array([float(r[4]) for r in sub])
        w = np.array([float(r[6]) for r in sub]) if hw else None
        f, fd = to_auto(vals + fs, w)
        m, md = to_auto(vals + ms, w)
        if f is None or m is None:
            return {'route': 0, 'ok': True, 'f': f, 'm': m, 'f_diff': fd, 'm_diff': md, 'margin': abs(fd - md)}
        ok = f >= 0 and m >= 0 and (not fd < md or f <= m) and (not md < fd or (m < f and f > 0.01))
        return {'route': 1, 'ok': bool(ok), 'f': f, 'm': m, 'f_diff': fd, 'm_diff': md, 'margin': abs(fd - md)}

    fx, mx = (-1, 0) if hap else (0, 1)
    return {'x': chrom(chrx, fx, mx), 'y': chrom(chry, 3, 0) if chry else None}


def sex_tables(rows, hap, build):
    """the contingency tables compare_sex_chromosomes will hand to the G test, with scipy's statistic"""
    if not rows:
        return []
    auto, chrx, chry = [[r[4] for r in part] for part in sex_parts(rows, build)]
    out = []
    shifts = []
    if chrx:
        shifts += [(chrx, s) for s in ((-1, 0) if hap else (0, 1))]
    if chrx and chry:
        shifts += [(chry, 3), (chry, 0)]
    for vals, s in shifts:
        t = py_mood_table(auto, [v + s for v in vals])
        if mood_valid(t) and t not in [o[0] for o in out]:
            out.append([t, gstat_of_table(t)])
    return out


def strsign(x):
    return '+%.3g' % x if x > 0 else '%.3g' % x


def run_sex(rows, hd, hw, hap, build):
    from cnvlib.commands import do_sex
    cna = mk_cna(rows, hd, hw)
    try:
        is_xy, stats = cna.compare_sex_chromosomes(hap, build)
        gx = cna.guess_xx(hap, build, verbose=False)
        tab = do_sex([mk_cna(rows, hd, hw)], hap, build)
    except AssertionError:
        return Err('Assertion')
    label, xs, ys = tab['sex'].iat[0], tab['X_logratio'].iat[0], tab['Y_logratio'].iat[0]
    if is_xy is None:
        return {'is_xy': None, 'guess_xx': (None if gx is None else bool(gx)), 'label': label, 'x_str': xs, 'y_str': ys}
    return {'is_xy': bool(is_xy), 'guess_xx': (None if gx is None else bool(gx)),
            'score': float(stats['combined_score']), 'x_lr': float(stats['chrx_male_lr']),
            'y_lr': float(stats['chry_male_lr']), 'x_ratio': float(stats['chrx_ratio']), 'y_ratio': float(stats['chry_ratio']),
            'label': label, 'x_str': xs, 'y_str': ys}


def same_3g(code_str, model_val):
    """do_sex prints %.3g with a sign; compare the printed number with the model's value"""
    if model_val is None:
        return code_str in ('nan', 'NA')
    if code_str == strsign(float(model_val)):
        return True
    try:
        v = float(code_str)
    except ValueError:
        return False
    return abs(v - float(model_val)) <= 6e-3 * max(abs(float(model_val)), 1e-12) + 1e-300


class SexBatch:
    def __init__(self, ck):
        self.ck = ck
        self.items = []

    def add(self, rows, hd, hw, hap, build, cls, truth=None, info=None, noise=None):
        """truth: 'm' / 'f' for a generated sample of the quantifier (direct oracle), None for correspondence-only.
        noise: {'eps': Fraction, 'a': Fraction, 'stream': name, 'bounded': bool[, 'female': bool]} -- evaluate the
        hypotheses of C15_sex_bounded_noise / C15_sex_centred_noise on the sample (model: c15_noise_check; scipy:
        scipy_contract)"""
        ck = self.ck
        case = {'kind': 'sex', 'rows': case_rows(rows), 'has_depth': hd, 'has_weight': hw, 'hap': hap, 'build': build,
                'truth': truth, 'info': info}
        if noise is not None:
            case['noise'] = {'eps': str(F(noise['eps'])), 'a': str(F(noise['a'])), 'stream': noise['stream'],
                             'bounded': bool(noise.get('bounded')), 'female': bool(noise.get('female', truth == 'f')),
                             'expect': noise.get('expect')}
        code = run_sex(rows, hd, hw, hap, build)
        xl, _ = py_labels(rows)
        ck.count(case, nontrivial=any(r[0] == xl for r in rows), cls=cls)
        if truth is not None:
            if isinstance(code, Err):
                ck.violation('sex inference raised %s' % code.msg, case, code=code, clause='C15_sex')
                return
            want_xy = (truth == 'm')
            if code['is_xy'] is not want_xy or code['guess_xx'] is not (not want_xy) or \
                    code['label'] != ('Male' if want_xy else 'Female'):
                ck.violation('a %s sample (%s) is reported as is_xy=%r guess_xx=%r sex=%r' % (
                    'male' if want_xy else 'female', info, code['is_xy'], code['guess_xx'], code['label']), case,
                    code=code, expected={'is_xy': want_xy, 'guess_xx': not want_xy},
                    clause='C15_sex_idealised' if (info or {}).get('sd') == 0 else
                    ('C15_sex_bounded_noise (bounded noise: proved under the contract; see coverage.sex_noise)'
                     if (noise or {}).get('bounded') else 'C15_sex (noisy: monitored)'))
        self.items.append((case, rows, hd, hw, hap, build, code))

    def flush(self):
        ck = self.ck
        items, self.items = self.items, []
        if not items:
            return
        reqs = []
        for case, rows, hd, hw, hap, build, code in items:
            reqs.append([hap, build, sex_tables(rows, hap, build) if not isinstance(code, Err) else [], model_bins(rows, hd, hw)])
        res = vlib.model_batch_parallel('c15_sex', reqs)
        for (case, rows, hd, hw, hap, build, code), m in zip(items, res):
            if isinstance(code, Err) or isinstance(m, Err):
                if code != m:
                    ck.tie_break('compare_sex_chromosomes: code and model disagree on the error', case, code=code, model=m)
                continue
            if m[0] is None:
                ok = code['is_xy'] is None and code['guess_xx'] is m[1] and code['label'] == m[2] and \
                    code['x_str'] == 'NA' and code['y_str'] == 'NA'
            else:
                is_xy, gx, score, x_lr, y_lr, x_ratio, y_ratio, label = m
                # the decision `combined_score > 1`: compared when the score is clear of 1, or exactly 1 on both sides
                if abs(float(score) - 1.0) < 1e-7 and not (score == 1 and code['score'] == 1.0):
                    ck.float_ambiguous += 1
                    continue
                if score == 1:
                    ck.cls('sex:score-exactly-1')
                ok = (code['is_xy'] is is_xy and code['guess_xx'] is gx and code['label'] == label and
                      vlib.close(code['score'], score) and vlib.close(code['x_lr'], x_lr) and vlib.close(code['y_lr'], y_lr) and
                      vlib.close(code['x_ratio'], x_ratio) and vlib.close(code['y_ratio'], y_ratio) and
                      same_3g(code['x_str'], x_ratio) and same_3g(code['y_str'], y_ratio))
            if not ok and hw and m[0] is not None and wmedian_tie_sensitive(rows, build):
                # descriptives.weighted_median sorts with numpy's default (unstable) argsort: among EQUAL values with
                # DIFFERENT weights the arrangement, and with it the value returned when the cumulative weight hits the
                # midpoint inside the tie, is numpy's choice (C19 models this with the order as an oracle); the model
                # here arranges stably.  Such a table is not compared (seen: autosomal values 0, 0 with weights 1, 0).
                ck.cls('sex:weighted-median-tie-order (not compared)')
                ck.float_ambiguous += 1
                continue
            if not ok:
                ck.tie_break('compare_sex_chromosomes / guess_xx / do_sex: code and model differ', case, code=code,
                             model=vlib.jsonable(m))
        self.flush_noise(items, reqs, res)

    def flush_noise(self, items, reqs, sexres):
        """the hypotheses of the bounded-noise theorems on every sample that carries a `noise` record"""
        ck = self.ck
        sel = [(it, rq, sm) for it, rq, sm in zip(items, reqs, sexres)
               if it[0].get('noise') and not isinstance(it[6], Err) and not isinstance(sm, Err)]
        if not sel:
            return
        nreqs = []
        for (case, rows, hd, hw, hap, build, code), rq, sm in sel:
            nz = case['noise']
            nreqs.append([F(nz['eps']), F(nz['a']), bool(nz['female']), hap, build, rq[2], rq[3]])
        res = vlib.model_batch_parallel('c15_noise_check', nreqs)
        st = ck.extra.setdefault('sex_noise', {})
        for ((case, rows, hd, hw, hap, build, code), rq, sm), m in zip(sel, res):
            nz = case['noise']
            if isinstance(m, Err):
                raise RuntimeError('c15_noise_check failed on a generated sample: %r' % (m,))
            bounded_b, centred_b, cx, cy, rx, ry, c_auto, c_x, c_y = m
            is_xy = sm[0]            # the model's decision on the same input (c15_sex)
            sc = scipy_contract(rows, hw, hap, build)
            rec = st.setdefault(nz['stream'], {'samples': 0, 'bins_within_eps': 0, 'centres_within_eps': 0,
                                               'route_statistics_x': 0, 'route_statistics_y': 0, 'y_present': 0,
                                               'contract_met': 0, 'contract_unmet': 0, 'contract_unmet_x': 0,
                                               'contract_unmet_y': 0, 'under_theorem': 0, 'wrong_calls': 0,
                                               'wrong_calls_under_theorem': 0, 'unmet_examples': []})
            rec['samples'] += 1
            rec['bins_within_eps'] += bool(bounded_b)
            rec['centres_within_eps'] += bool(centred_b)
            rec['route_statistics_x'] += int(rx)
            rec['route_statistics_y'] += int(ry)
            rec['y_present'] += sc['y'] is not None
            # scipy's median_test against the contract, and the same through the model (fed scipy's G per table)
            py_x, py_y = sc['x']['ok'], (sc['y']['ok'] if sc['y'] else True)
            for name, py_ok, py_route, mod_ok, mod_route, part in (
                    ('chrX', py_x, sc['x']['route'], cx, rx, sc['x']),
                    ('chrY', py_y, sc['y']['route'] if sc['y'] else 0, cy, ry, sc['y'])):
                if part is not None and part['margin'] < 1e-9:
                    ck.float_ambiguous += 1
                    continue
                if py_ok is not bool(mod_ok) or int(py_route) != int(mod_route):
                    ck.tie_break('the contract of C15_sex_bounded_noise on %s: scipy.stats.median_test and the model '
                                 '(fed the G statistic per table) disagree' % name, case,
                                 code={'contract_met': py_ok, 'route': py_route, 'detail': part},
                                 model={'contract_met': bool(mod_ok), 'route': int(mod_route)})
            met = bool(cx) and bool(cy)
            rec['contract_met' if met else 'contract_unmet'] += 1
            rec['contract_unmet_x'] += not cx
            rec['contract_unmet_y'] += not cy
            ck.cls('sex-noise:%s:%s' % (nz['stream'], 'contract-met' if met else 'contract-UNMET'))
            if not met and len(rec['unmet_examples']) < 5:
                rec['unmet_examples'].append({'info': case.get('info'), 'chrX': sc['x'], 'chrY': sc['y'],
                                              'code_is_xy': code.get('is_xy'), 'truth': case.get('truth')})
            # (the model is regenerated from the source's constants -- PAR table, shifts, weighted-median constants --, so
            #  after a change of the code these can fail: reported as a broken tie, never as a harness error)
            if nz['bounded'] and not bounded_b:
                ck.tie_break('a sample generated with every bin within eps of its level is outside bounded_noise_b of the '
                             '(regenerated) model', case, code={'info': case.get('info')}, model={'bounded_noise_b': False})
            if bounded_b and not centred_b:
                ck.tie_break('bins within eps but the centres of the (regenerated) model are not: C15_bounded_is_centred no '
                             'longer holds of it', case, code={'info': case.get('info')},
                             model={'centres': vlib.jsonable([c_auto, c_x, c_y])})
            want_xy = not nz['female']
            under = bool(centred_b) and met and F(nz['eps']) < F(1, 4)
            rec['under_theorem'] += under
            wrong = code.get('is_xy') is not want_xy
            rec['wrong_calls'] += wrong
            if nz.get('expect') is not None:
                # a fixed witness of Props/C15.v: what the theorem about it says must be what the code does
                exp = nz['expect']
                got = {'is_xy': code.get('is_xy'), 'contract_met': met, 'bins_within_eps': bool(bounded_b)}
                if any(got[k] != v for k, v in exp.items()):
                    ck.tie_break('witness %s of Props/C15.v: the code / scipy do not behave as the theorem about the '
                                 'witness says' % nz['stream'], case, code=got, model=exp)
            if under:
                ck.cls('sex-noise:%s:under-theorem' % nz['stream'])
                if is_xy is not want_xy:
                    ck.tie_break('the (regenerated) model calls a sample that passes noise_check by the wrong sex: '
                                 'C15_sex_noise_check no longer holds of it', case, code={'is_xy': code.get('is_xy')},
                                 model={'is_xy': is_xy, 'want': want_xy})
                if wrong:
                    rec['wrong_calls_under_theorem'] += 1
                    ck.violation('a %s sample that meets every hypothesis of C15_sex_centred_noise (centres within %s of '
                                 'their levels, scipy within the contract) is called is_xy=%r' % (
                                     'female' if nz['female'] else 'male', nz['eps'], code.get('is_xy')), case,
                                 code=code, expected={'is_xy': want_xy}, clause='C15_sex_centred_noise')


X_LEVEL = {('m', True): F(0), ('f', True): F(1), ('m', False): F(-1), ('f', False): F(0)}


def gen_sexed_sample(rng, sex, hap, with_y, with_w, sd, nx, style, tier, noise=None, level=F(0), ylevels=None):
    """autosomes at `level` (0), chrX / chrY at the levels expected for `sex` against the reference, Gaussian noise of sd
    `sd` rounded to the 1/1024 grid -- or the noise drawn by `noise()` (bounded-noise stream)"""
    pre = 'chr' if style == 'chr' else ''
    def noisy(lv):
        if noise is not None:
            return lv + level + noise()
        return lv + (F(round(rng.gauss(0.0, sd) * GRID), GRID) if sd > 0 else 0)
    rows = []
    per = rng.randint(3, 10 if tier == 'quick' else 25)
    autos = list(range(1, 23)) if rng.random() < 0.7 else sorted(rng.sample(range(1, 23), rng.randint(4, 21)))
    def wt():
        return rng.choice([F(1), grid(rng, 0.1, 1), grid(rng, 0.1, 1)])
    for c in autos:
        a = 10000
        for _ in range(per):
            rows.append((pre + str(c), a, a + 500, 'g', noisy(F(0)), F(10), wt()))
            a += 20000
    a = 3000000
    for _ in range(nx):
        rows.append((pre + 'X', a, a + 500, 'g', noisy(X_LEVEL[(sex, hap)]), F(10), wt()))
        a += 20000
    if with_y:
        ny = rng.randint(5, 60)
        ylev = F(0) if sex == 'm' else rng.choice(ylevels or [F(-20), F(-20), F(-10), F(-6), F(-4)])
        a = 3000000
        for _ in range(ny):
            rows.append((pre + 'Y', a, a + 500, 'g', noisy(ylev), (F(10) if sex == 'm' else F(0)), wt()))
            a += 20000
    return rows


def with_par_bins(rng, rows, build, style, sd, n=None, noise=None, level=F(0)):
    """the same sample as seen with a PAR build: bins inside PAR1X / PAR2X sit at the autosomal level for both sexes
    (two copies), bins inside PAR1Y / PAR2Y -- when the sample has chrY bins -- carry no reads (everything maps to X)"""
    pre = 'chr' if style == 'chr' else ''
    tab = par_tables()[build.lower()]
    def noisy(lv):
        if noise is not None:
            return lv + level + noise()
        return lv + (F(round(rng.gauss(0.0, sd) * GRID), GRID) if sd > 0 else 0)
    out = list(rows)
    n = n if n is not None else rng.randint(1, 6)
    for key in ('PAR1X', 'PAR2X'):
        s0, e0 = tab[key]
        a = s0 + rng.choice([0, 0, 1000])
        for _ in range(n if key == 'PAR1X' else rng.randint(0, 2)):
            if a + 500 > e0:
                break
            out.append((pre + 'X', a, a + 500, 'g', noisy(F(0)), F(10), rng.choice([F(1), grid(rng, 0.1, 1)])))
            a += 20000
    if any(r[0] == pre + 'Y' for r in rows):
        s0, e0 = tab['PAR1Y']
        a = s0 + rng.choice([0, 500])
        for _ in range(rng.randint(0, 3)):
            out.append((pre + 'Y', a, a + 500, 'g', F(-20), F(0), F(1)))
            a += 20000
    return out


def shift_oracle(ck, rows, hd, hw, hap, is_xx, build, case, guessed_from=None):
    """shift_xx: X bins -- outside PAR1X/PAR2X when a PAR build is given, those already sit at the autosomal level --
    move by -1 (female, male reference), +1 (male, female reference), else not; others never"""
    cna = mk_cna(rows, hd, hw)
    snap = [float(r[4]) for r in rows]
    out = cna.shift_xx(hap, is_xx, build)
    code = [float(x) for x in out.data['log2'].values]
    xl, _ = py_labels(rows)
    xx = guessed_from if is_xx is None else is_xx
    delta = (-1 if (xx and hap) else (1 if (not xx and not hap) else 0))
    def moved(r):
        return r[0] == xl and not (build is not None and py_in_par(build, ('PAR1X', 'PAR2X'), r[1], r[2]))
    exp = [float(r[4] + (delta if moved(r) else 0)) for r in rows]
    if code != exp:
        ck.violation('shift_xx does not move exactly the (non-PAR) X bins by %+d' % delta, case, code=code, expected=exp, clause='C15_shift_xx')
    if [float(x) for x in cna.data['log2'].values] != snap:
        ck.violation('shift_xx changed its input', case, clause='C15_shift_xx')
    return code


def check_sex(ck):
    rng = ck.rng
    tier = ck.tier
    batch = SexBatch(ck)
    shift_reqs, shift_codes, shift_cases = [], [], []
    n_samples = 480 if tier == 'quick' else 4500

    def add_shift(rows, hd, hw, hap, is_xx, build, case, guess=None):
        code = shift_oracle(ck, rows, hd, hw, hap, is_xx, build, case, guessed_from=guess)
        mxx = is_xx if is_xx is not None else guess
        shift_reqs.append([hap, mxx, build, model_bins(rows, hd, hw)])
        shift_codes.append(code)
        shift_cases.append(case)

    # idealised: noise-free, every class, both namings
    for sex in 'mf':
        for hap in (True, False):
            for with_y in (True, False):
                for with_w in (True, False):
                    for style in ('chr', 'plain'):
                        nx = rng.choice([40, 41, rng.randint(40, 400)])
                        rows = gen_sexed_sample(rng, sex, hap, with_y, with_w, 0, nx, style, tier)
                        info = {'sex': sex, 'hap': hap, 'with_y': with_y, 'weights': with_w, 'sd': 0, 'nx': nx}
                        batch.add(rows, True, with_w, hap, None, 'sex:idealised', truth=sex, info=info)
                        case = {'kind': 'shift_xx', 'rows': case_rows(rows), 'has_weight': with_w, 'hap': hap, 'is_xx': sex == 'f', 'build': None}
                        add_shift(rows, True, with_w, hap, sex == 'f', None, case)
                        # ... and the shifted X sits at the autosomal level
                        xl, _ = py_labels(rows)
                        xs = [F(c) for c, r in zip(shift_codes[-1], rows) if r[0] == xl]
                        if any(x != 0 for x in xs):
                            ck.violation('shift_xx leaves a correctly sexed noise-free X off the autosomal level', case,
                                         code=[float(x) for x in xs[:5]], expected=0, clause='C15_shift_xx')
                        # the same sample on a PAR build: its PAR-X bins sit at the autosomal level already and
                        # must stay there (defect repaired in dff7a3e), the rest of X must come to it
                        build = rng.choice(['grch37', 'grch38', 'GRCh38'])
                        pre = 'chr' if style == 'chr' else ''
                        prow = [(pre + 'X', s, e, 'g', F(0), F(10), F(1)) for (s, e) in x_positions(rng, build, 4)
                                if py_in_par(build, ('PAR1X', 'PAR2X'), s, e)]
                        rows2 = rows + prow
                        rows3 = with_par_bins(rng, rows, build, style, 0)
                        info3 = dict(info, build=build)
                        batch.add(rows3, True, with_w, hap, build, 'sex:idealised:par', truth=sex, info=info3)
                        case = {'kind': 'shift_xx', 'rows': case_rows(rows2), 'has_weight': with_w, 'hap': hap, 'is_xx': sex == 'f', 'build': build}
                        add_shift(rows2, True, with_w, hap, sex == 'f', build, case)
                        xs = [F(c) for c, r in zip(shift_codes[-1], rows2) if r[0] == xl]
                        if any(x != 0 for x in xs):
                            ck.violation('shift_xx with a PAR build leaves chrX (PAR or not) off the autosomal level', case,
                                         code=[float(x) for x in xs[-5:]], expected=0, clause='C15_shift_xx')
    # noisy samples of the quantifier
    for i in range(n_samples):
        sex = rng.choice('mf')
        hap = rng.random() < 0.5
        with_y = rng.random() < 0.6
        with_w = rng.random() < 0.5
        sd = rng.choice([0.01, 0.05, 0.1, 0.2, 0.3, 0.3, round(rng.uniform(0.01, 0.3), 3)])
        nx = rng.choice([40, 40, 41, 50, rng.randint(40, 120), rng.randint(40, 400)])
        style = rng.choice(['chr', 'plain'])
        rows = gen_sexed_sample(rng, sex, hap, with_y, with_w, sd, nx, style, tier)
        info = {'sex': sex, 'hap': hap, 'with_y': with_y, 'weights': with_w, 'sd': sd, 'nx': nx}
        nbuild = None
        if i % 3 == 2:
            # the quantifier's "x PAR genome": the same kind of sample with PAR-X bins at the autosomal level
            nbuild = rng.choice(['grch37', 'grch38', 'GRCh38'])
            rows = with_par_bins(rng, rows, nbuild, style, sd)
            info['build'] = nbuild
        # Gaussian monitoring, unchanged; additionally the sample is classified: do its three centres lie within
        # 255/1024 < 1/4 of their levels and does scipy meet the contract, i.e. is it under C15_sex_centred_noise
        batch.add(rows, True, with_w, hap, nbuild, 'sex:noisy:%s:%s%s%s%s' % (sex, 'malref' if hap else 'femref',
                  ':Y' if with_y else '', ':w' if with_w else '', ':par' if nbuild else ''), truth=sex, info=info,
                  noise={'eps': F(255, 1024), 'a': F(0), 'stream': 'gaussian', 'bounded': False})
        if i % 5 == 0:
            code = batch.items[-1][-1] if batch.items else None
            if isinstance(code, dict) and code.get('guess_xx') is not None:
                case = {'kind': 'shift_xx', 'rows': case_rows(rows), 'has_weight': with_w, 'hap': hap, 'is_xx': None, 'build': nbuild}
                add_shift(rows, True, with_w, hap, None, nbuild, case, guess=code['guess_xx'])
        if len(batch.items) >= 200:
            batch.flush()
    # bounded noise (C15_sex_bounded_noise): every bin within eps of its level, uniform on the 1/1024 grid in
    # [-eps, eps] (or, one in six, pushed to the two ends of the band), eps in {1/16, 1/8, 15/64}; any autosomal
    # level; direct oracle: the true sex is returned; the theorem's hypotheses are evaluated on every sample
    combos = [(sex, hap, with_y, with_w) for sex in 'mf' for hap in (True, False) for with_y in (True, False)
              for with_w in (True, False)]
    n_bounded = 96 if tier == 'quick' else 600
    for i in range(n_bounded):
        sex, hap, with_y, with_w = combos[i % len(combos)] if i < 3 * len(combos) else (
            rng.choice('mf'), rng.random() < 0.5, rng.random() < 0.6, rng.random() < 0.5)
        eps = [F(1, 16), F(1, 8), F(15, 64)][(i // len(combos)) % 3]
        k = int(eps * GRID)
        ends = rng.random() < 1 / 6
        def noise(k=k, ends=ends):
            if ends:
                return F(rng.choice([-k, -k, k, k, rng.randint(-k, k)]), GRID)
            return F(rng.randint(-k, k), GRID)
        level = rng.choice([F(0), F(0), grid(rng, -0.5, 0.5), F(rng.randint(-3, 3))])
        nx = rng.choice([40, 40, 41, 50, rng.randint(40, 120), rng.randint(40, 400)])
        style = rng.choice(['chr', 'plain'])
        rows = gen_sexed_sample(rng, sex, hap, with_y, with_w, None, nx, style, tier, noise=noise, level=level,
                                ylevels=[F(-20), F(-10), F(-6), F(-4), F(-3)])
        info = {'sex': sex, 'hap': hap, 'with_y': with_y, 'weights': with_w, 'eps': str(eps), 'nx': nx,
                'level': float(level), 'ends': ends}
        nbuild = None
        if i % 3 == 2:
            nbuild = rng.choice(['grch37', 'grch38', 'GRCh38'])
            rows = with_par_bins(rng, rows, nbuild, style, None, noise=noise, level=level)
            info['build'] = nbuild
        batch.add(rows, True, with_w, hap, nbuild, 'sex:bounded:%s:%s:%s%s%s%s' % (eps, sex, 'malref' if hap else 'femref',
                  ':Y' if with_y else '', ':w' if with_w else '', ':par' if nbuild else ''), truth=sex, info=info,
                  noise={'eps': eps, 'a': level, 'stream': 'bounded eps=%s' % eps, 'bounded': True})
        if i % 6 == 0:
            code = batch.items[-1][-1] if batch.items else None
            if isinstance(code, dict) and code.get('guess_xx') is not None:
                case = {'kind': 'shift_xx', 'rows': case_rows(rows), 'has_weight': with_w, 'hap': hap, 'is_xx': None, 'build': nbuild}
                add_shift(rows, True, with_w, hap, None, nbuild, case, guess=code['guess_xx'])
                # C15_shift_xx_bounded_noise_guessed: chrX (outside PAR-X) ends within eps of the autosomal level
                if code['guess_xx'] is (sex == 'f'):
                    auto, chrx, _ = sex_parts(rows, nbuild)
                    keys = {(r[0], r[1]) for r in chrx}
                    far = [c for c, r in zip(shift_codes[-1], rows) if (r[0], r[1]) in keys and abs(F(c) - level) > eps]
                    if far:
                        ck.violation('shift_xx leaves chrX bins of a bounded-noise sample further than eps from the autosomal level',
                                     case, code=far[:5], expected='within %s of %s' % (eps, level), clause='C15_shift_xx_bounded_noise')
        if len(batch.items) >= 200:
            batch.flush()
    # the three witnesses of Props/C15.v on the real code: the contract met on the route with statistics (male);
    # the adversarial sample within 1/16 (scipy outside the contract, called female although male); the sharpness
    # sample at eps = 1/4 (called female although male).  Correspondence cases: no direct oracle on the sex.
    def wit(auto, xs):
        return [('chr1', 0, 100, 'g', F(v), F(10), F(1)) for v in auto] + [('chrX', 0, 100, 'g', F(v), F(10), F(1)) for v in xs]
    for name, rows, eps, expect in (
            ('witness:contract_satisfiable', wit([F(-1, 8), F(-1, 16), 0, F(1, 32), F(1, 16), F(1, 8)],
                                                 [F(-9, 8), F(-33, 32), F(-31, 32), F(-29, 32)]), F(1, 8),
             {'is_xy': True, 'contract_met': True, 'bins_within_eps': True}),
            ('witness:contract_needed', wit([F(3, 64), F(4, 64), F(2, 64), F(1, 64)],
                                            [F(-65, 64), F(-66, 64), F(-67, 64), F(-68, 64), F(-129, 128), F(-131, 128)]), F(1, 16),
             {'is_xy': False, 'contract_met': False, 'bins_within_eps': True}),
            ('witness:quarter_is_sharp', wit([F(-1, 4)] * 3, [F(-3, 4)] * 40), F(1, 4),
             {'is_xy': False, 'contract_met': True, 'bins_within_eps': True})):
        batch.add(rows, False, False, False, None, 'sex:' + name, truth=None, info={'witness': name},
                  noise={'eps': eps, 'a': F(0), 'stream': name, 'bounded': True, 'female': False, 'expect': expect})
    # correspondence-only: small / odd tables, PAR builds, no X, no numeric names, ties, zero weights
    for i in range(150 if tier == 'quick' else 3000):
        build = rng.choice([None, None, 'grch37', 'grch38', 'GRCh38'])
        style = rng.choice(['chr', 'plain', 'chr', 'plain', 'none'])
        rows, hd, hw, style = gen_table(rng, tier, build, style=style, max_bins=rng.choice([3, 6, 12]))
        if rng.random() < 0.5:
            # quantise hard so that ties with the grand median and the med_diff fallback are common
            rows = [(r[0], r[1], r[2], r[3], F(round(float(r[4]) * 2), 2) if r[4] > -10 else r[4], r[5], r[6]) for r in rows]
        hap = rng.random() < 0.5
        batch.add(rows, hd, hw, hap, build, 'sex:corr:%s%s' % (style, ':par' if build else ''))
        if rows and i % 3 == 0:
            is_xx = rng.choice([True, False])
            case = {'kind': 'shift_xx', 'rows': case_rows(rows), 'has_depth': hd, 'has_weight': hw, 'hap': hap, 'is_xx': is_xx, 'build': build}
            add_shift(rows, hd, hw, hap, is_xx, build, case)
        if len(batch.items) >= 200:
            batch.flush()
    batch.add([], False, False, False, None, 'sex:edge:empty')
    batch.add([('chr1', 0, 10, 'g', F(0), F(1), F(1))], False, False, True, 'hg19', 'sex:edge:bad-build')
    batch.flush()
    res = vlib.model_batch_parallel('c15_shift_xx', shift_reqs)
    for case, code, m in zip(shift_cases, shift_codes, res):
        ck.count(case, nontrivial=True, cls='shift_xx')
        if isinstance(m, Err) or len(m) != len(code) or any(F(c) != x for c, x in zip(code, m)):
            ck.tie_break('shift_xx: code and model differ', case, code=code, model=vlib.jsonable(m))


def check_do_sex_tables(ck):
    """commands.do_sex on 1..4 tables at once: the whole DataFrame (columns, number and order of rows, sample names,
    sex labels, printed ratios) against the direct oracle (compare_sex_chromosomes per table) and the model table"""
    from cnvlib.commands import do_sex
    rng, tier = ck.rng, ck.tier
    jobs = []
    for i in range(40 if tier == 'quick' else 600):
        build = rng.choice([None, None, 'grch37', 'grch38'])
        hap = rng.random() < 0.5
        tables = []
        for j in range(rng.randint(1, 4)):
            r = rng.random()
            if r < 0.45:
                sex = rng.choice('mf')
                style = rng.choice(['chr', 'plain'])
                with_w = rng.random() < 0.5
                rows = gen_sexed_sample(rng, sex, hap, rng.random() < 0.6, with_w, rng.choice([0, 0.05, 0.3]), rng.randint(40, 60), style, 'quick')
                if build:
                    rows = with_par_bins(rng, rows, build, style, 0)
                hd, hw = True, with_w
            elif r < 0.9:
                rows, hd, hw, _ = gen_table(rng, tier, build, max_bins=rng.choice([3, 6, 12]), max_chroms=6)
            else:
                rows, hd, hw = [], False, False
            meta = {'sample_id': 'id%d_%d' % (i, j)}
            if rng.random() < 0.5:
                meta['filename'] = rng.choice(['/data/run %d/s%d.cnr' % (i, j), 's%d.cnn' % j, 'x.cnr'])
            tables.append((rows, hd, hw, meta))
        try:
            tab = do_sex([mk_cna(rows, hd, hw, meta) for rows, hd, hw, meta in tables], hap, build)
            code = {'columns': [str(c) for c in tab.columns],
                    'rows': [[str(tab[c].iat[k]) for c in tab.columns] for k in range(len(tab))]}
        except AssertionError:
            code = Err('Assertion')
        jobs.append((hap, build, tables, code))
    reqs = []
    for hap, build, tables, code in jobs:
        gt = []
        for rows, hd, hw, meta in tables:
            for t in (sex_tables(rows, hap, build) if not isinstance(code, Err) else []):
                if t[0] not in [g[0] for g in gt]:
                    gt.append(t)
        reqs.append([hap, build, gt, [[meta.get('filename') or meta['sample_id'], model_bins(rows, hd, hw)]
                                      for rows, hd, hw, meta in tables]])
    res = vlib.model_batch_parallel('c15_do_sex_table', reqs)
    for (hap, build, tables, code), m in zip(jobs, res):
        case = {'kind': 'do_sex_table', 'hap': hap, 'build': build,
                'tables': [{'rows': case_rows(rows), 'has_depth': hd, 'has_weight': hw, 'meta': meta} for rows, hd, hw, meta in tables]}
        ck.count(case, nontrivial=len(tables) > 1, cls='do_sex:%d-tables%s' % (len(tables), ':par' if build else ''))
        if isinstance(code, Err) or isinstance(m, Err):
            if code != m:
                ck.tie_break('do_sex: code and model disagree on the error', case, code=code, model=vlib.jsonable(m))
            continue
        # direct oracle: one row per table, in order; name; label and ratios from compare_sex_chromosomes on that table
        ok = code['columns'] == ['sample', 'sex', 'X_logratio', 'Y_logratio'] and len(code['rows']) == len(tables)
        exp = []
        for rows, hd, hw, meta in tables:
            is_xy, stats = mk_cna(rows, hd, hw).compare_sex_chromosomes(hap, build)
            exp.append([meta.get('filename') or meta['sample_id'], 'Male' if is_xy else 'Female',
                        strsign(stats['chrx_ratio']) if stats else 'NA', strsign(stats['chry_ratio']) if stats else 'NA'])
        if not ok or code['rows'] != exp:
            ck.violation('the sex report is not one row per input (name, sex, signed X and Y log-ratios) in the order given', case,
                         code=code, expected=exp, clause='C15_do_sex_row')
            continue
        # model
        mcols, mrows = m
        good = mcols == code['columns'] and len(mrows) == len(code['rows'])
        amb = False
        for cr, mr in zip(code['rows'], mrows if good else []):
            if cr[0] != mr[0]:
                good = False
            if mr[2] is None:
                good = good and cr[1] == mr[1] and cr[2] == 'NA' and cr[3] == 'NA'
                continue
            x, y, px, py = mr[2]
            if cr[1] != mr[1]:
                amb = True          # the decision itself: left to the per-table stream, which handles scores next to 1
                continue
            good = good and same_3g(cr[2], x) and same_3g(cr[3], y)
            good = good and (cr[2].startswith('+') == bool(px) or abs(float(x)) < 1e-9)
            if y is not None:
                good = good and (cr[3].startswith('+') == bool(py) or abs(float(y)) < 1e-9)
        if amb:
            ck.float_ambiguous += 1
        elif not good:
            ck.tie_break('do_sex: the table of the code and of the model differ', case, code=code, model=vlib.jsonable(m))


# ----------------------------------------------------------------------------------------------
# expect_flat_log2

def flat_expected(rows, hap, build):
    xl, yl = py_labels(rows)
    exp = []
    for r in rows:
        if r[0] == yl:
            exp.append(-1.0)
        elif r[0] == xl and hap and not (build is not None and py_in_par(build, ('PAR1X', 'PAR2X'), r[1], r[2])):
            exp.append(-1.0)
        else:
            exp.append(0.0)
    return exp


def has_pary(rows, build):
    _, yl = py_labels(rows)
    return build is not None and any(r[0] == yl and py_in_par(build, ('PAR1Y', 'PAR2Y'), r[1], r[2]) for r in rows)


def check_flat(ck):
    rng = ck.rng
    tier = ck.tier
    reqs, codes, cases = [], [], []
    for i in range(200 if tier == 'quick' else 4000):
        build = rng.choice([None, None, 'grch37', 'grch38', 'GRCh37'])
        hap = rng.choice([True, False, None])
        style = rng.choice(['chr', 'plain', 'chr', 'plain', 'none'])
        # open finding c15-flat-pary-male-ref: no PAR-Y bin under (male or guessed reference) + PAR build
        rows, hd, hw, style = gen_table(rng, tier, build, style=style, allow_pary=(hap is False or build is None), max_bins=6)
        if not rows:
            continue
        if hap is not False and has_pary(rows, build):
            continue
        case = {'kind': 'flat', 'rows': case_rows(rows), 'has_depth': hd, 'has_weight': hw, 'hap': hap, 'build': build}
        cna = mk_cna(rows, hd, hw)
        code = [float(x) for x in cna.expect_flat_log2(hap, build)]
        if hap is None:
            g = mk_cna(rows, hd, hw).guess_xx(diploid_parx_genome=build, verbose=False)
            ref_hap = not g
        else:
            ref_hap = hap
        exp = flat_expected(rows, ref_hap, build)
        xl, yl = py_labels(rows)
        ck.count(case, nontrivial=any(r[0] in (xl, yl) for r in rows), cls='flat:%s%s' % (
            {True: 'malref', False: 'femref', None: 'guessed'}[hap], ':par' if build else ''))
        if code != exp:
            ck.violation('expect_flat_log2 is not 0 on autosomes / -1 on Y / -1 on X for a male reference only', case,
                         code=code, expected=exp, clause='C15_flat')
        reqs.append([hap, build, sex_tables(rows, False, build) if hap is None else [], model_bins(rows, hd, hw)])
        codes.append(code)
        cases.append(case)
    res = vlib.model_batch_parallel('c15_flat', reqs)
    for case, code, m in zip(cases, codes, res):
        if isinstance(m, Err) or len(m) != len(code) or any(F(c) != x for c, x in zip(code, m)):
            ck.tie_break('expect_flat_log2: code and model differ', case, code=code, model=vlib.jsonable(m))


def check_known_finding(ck):
    """canonical case of c15-flat-pary-male-ref: male reference + PAR build, one bin inside PAR1Y"""
    rows = [('chr1', 1000, 2000, 'g', F(0), F(1), F(1)), ('chrX', 5000000, 5000100, 'g', F(0), F(1), F(1)),
            ('chrY', 20000, 20100, 'g', F(0), F(1), F(1)), ('chrY', 5000000, 5000100, 'g', F(0), F(1), F(1))]
    case = {'kind': 'flat', 'rows': case_rows(rows), 'has_depth': False, 'has_weight': False, 'hap': True, 'build': 'grch37',
            'is_haploid_x_reference': True, 'diploid_parx_genome': 'grch37', 'bin': 'chrY:20000-20100'}
    code = [float(x) for x in mk_cna(rows, False, False).expect_flat_log2(True, 'grch37')]
    ck.count(case, nontrivial=True, cls='flat:known-finding-canonical')
    if code == [0.0, -1.0, 0.0, -1.0]:
        ck.violation('expect_flat_log2: a bin inside PAR1Y gets 0, not -1, with a male reference and a PAR build', case,
                     sig='c15-flat-pary-male-ref', code=code, expected=[0.0, -1.0, -1.0, -1.0], clause='C15_flat')
    elif code != [0.0, -1.0, -1.0, -1.0]:
        ck.violation('expect_flat_log2 on the canonical PAR-Y case', case, code=code, expected=[0.0, -1.0, -1.0, -1.0], clause='C15_flat')
    m = vlib.model_call('c15_flat', [True, 'grch37', [], model_bins(rows, False, False)])
    if isinstance(m, Err) or [float(x) for x in m] != code:
        ck.tie_break('expect_flat_log2 (canonical PAR-Y case): code and model differ', case, code=code, model=vlib.jsonable(m))


# ----------------------------------------------------------------------------------------------
# corpus, run, replay

def run_case(ck, c, cbatch, sbatch):
    kind = c['kind']
    if kind == 'center':
        rows = rows_of_case(c['rows'])
        cbatch.add(rows, c.get('has_depth', False), c.get('has_weight', False), c['estimator'], c['by_chrom'],
                   c['skip_low'], c.get('build'), 'corpus:center', defaults=c.get('defaults', False))
    elif kind == 'sex':
        rows = rows_of_case(c['rows'])
        sbatch.add(rows, c.get('has_depth', False), c.get('has_weight', False), c['hap'], c.get('build'), 'corpus:sex',
                   truth=c.get('truth'), info=c.get('info'), noise=c.get('noise'))
    elif kind == 'shift_xx':
        rows = rows_of_case(c['rows'])
        hd, hw = c.get('has_depth', True), c.get('has_weight', False)
        guess = None
        if c['is_xx'] is None:
            guess = mk_cna(rows, hd, hw).guess_xx(c['hap'], c.get('build'), verbose=False)
            guess = None if guess is None else bool(guess)
        code = shift_oracle(ck, rows, hd, hw, c['hap'], c['is_xx'], c.get('build'), c, guessed_from=guess)
        m = vlib.model_call('c15_shift_xx', [c['hap'], c['is_xx'] if c['is_xx'] is not None else guess, c.get('build'), model_bins(rows, hd, hw)])
        ck.count(c, nontrivial=True, cls='corpus:shift_xx')
        if isinstance(m, Err) or [float(x) for x in m] != code:
            ck.tie_break('shift_xx: code and model differ', c, code=code, model=vlib.jsonable(m))
    elif kind == 'flat':
        rows = rows_of_case(c['rows'])
        hd, hw = c.get('has_depth', False), c.get('has_weight', False)
        code = [float(x) for x in mk_cna(rows, hd, hw).expect_flat_log2(c['hap'], c.get('build'))]
        exp = flat_expected(rows, c['hap'], c.get('build'))
        ck.count(c, nontrivial=True, cls='corpus:flat')
        if code != exp:
            ck.violation('expect_flat_log2 is not 0 on autosomes / -1 on Y / -1 on X for a male reference only', c,
                         code=code, expected=exp, clause='C15_flat',
                         sig='c15-flat-pary-male-ref' if (c['hap'] and has_pary(rows, c.get('build'))) else None)
        m = vlib.model_call('c15_flat', [c['hap'], c.get('build'), [], model_bins(rows, hd, hw)])
        if isinstance(m, Err) or [float(x) for x in m] != code:
            ck.tie_break('expect_flat_log2: code and model differ', c, code=code, model=vlib.jsonable(m))
    elif kind == 'name':
        from skgenome import GenomicArray as GA
        code = len(GA.from_rows([(c['name'], 0, 10), ('7', 0, 10)]).autosomes()) == 2
        ck.count(c, nontrivial=True, cls='corpus:name')
        if code != py_is_auto(c['name']):
            ck.violation('autosomes(): %r misclassified' % c['name'], c, code=code, expected=py_is_auto(c['name']),
                         clause='C15_autosome_names')
    elif kind == 'estimator':
        from cnvlib import descriptives as D
        fn = {'median': pd.Series.median, 'mean': pd.Series.mean, 'biweight': D.biweight_location, 'mode': D.modal_location}[c['estimator']]
        code = float(fn(pd.Series(c['values'])))
        moved = float(fn(pd.Series([v + c['shift'] for v in c['values']])))
        ck.count(c, nontrivial=True, cls='corpus:estimator')
        if not vlib.close(moved, F(code) + F(c['shift'])):
            ck.violation('%s does not move with the data' % c['estimator'], c, code=moved, expected=code + c['shift'],
                         clause='C15_estimators_equivariant')
    else:
        raise RuntimeError('unknown corpus case kind %r' % kind)


def run_corpus(ck):
    path = os.path.join(vlib.VERIF, 'corpus', 'c15.json')
    if not os.path.exists(path):
        return
    cb, sb = CenterBatch(ck), SexBatch(ck)
    for c in json.load(open(path))['cases']:
        run_case(ck, c, cb, sb)
    cb.flush()
    sb.flush()


def run(ck, scratch):
    ck.rule = ('corpus first (inputs of the repaired descriptives defects as centring cases, the canonical open finding). '
               'centring: tables of 1..24 chromosomes ("chr" / plain / no numeric name; optional extra contigs), per-chromosome '
               'levels, 1/1024 grid values incl. ties, null-coverage bins (log2 at / around -15, -20, depth 0), X bins on the PAR '
               'boundaries, optionally shuffled rows x {median, mean, biweight, mode} x by_chrom x skip_low x {None, grch37, grch38}; '
               'edge stream: bad estimator / build, empty, all bins null, autosomes null. biweight cases whose exact model '
               'iterates would exceed ~10^5 bits (estimated from the iteration counts) are oracle-checked only (class '
               'center:biweight:model-skipped). autosome-name rule on curated + random names; the four estimators on plain '
               'lists (move with the data; code vs model). sex: noise-free and noisy (sd 0.01..0.3, '
               '40..400 X bins) samples of sex x reference x Y x weights, plus small odd tables (ties, PAR builds, no X) compared '
               'with the model fed scipy G statistics; every third noisy sample and every noise-free one also under a PAR build (PAR-X bins at '
               'the autosomal level, PAR-Y bins without reads); a bounded-noise stream (every bin within eps of its level, uniform on '
               'the 1/1024 grid in [-eps, eps] or pushed to the ends of the band, eps in {1/16, 1/8, 15/64}, 40..400 X bins, any '
               'autosomal level, sex x reference x Y x weights, every third under a PAR build) with the direct oracle "the true sex is '
               'returned, shift_xx brings chrX within eps of the autosomal level"; on every bounded AND every Gaussian sample the '
               "hypotheses of C15_sex_bounded_noise / C15_sex_centred_noise are evaluated (model: c15_noise_check fed scipy's G per table; "
               'independently: scipy.stats.median_test called as compare_to_auto calls it) -- a sample under the theorem that is called '
               'wrongly would be a violation, a disagreement about the contract a tie-break; the three witnesses of Props/C15.v '
               '(contract satisfiable / needed / 1/4 sharp) are replayed on the code; '
               'shift_xx and expect_flat_log2 on the same tables; do_sex on 1..4 tables at once '
               '(whole DataFrame: columns, row order, names, labels, printed ratios). '
               'non-trivial = a bin is selected and the estimator of the result is checked to be 0 (centring), X bins present (sex, flat); '
               'distinct by case hash')
    ck.unproved_remainder = list(UNPROVED)
    if not ck.build_status.get('driver_ok'):
        raise RuntimeError('model driver unavailable')
    np.seterr(all='ignore')
    run_corpus(ck)
    check_known_finding(ck)
    check_names(ck)
    check_estimators(ck)
    check_center(ck)
    check_flat(ck)
    check_sex(ck)
    check_do_sex_tables(ck)


def replay(ck, body):
    """re-run one saved case against the current code; exit 1 if it still fails"""
    case = body.get('case')
    if not isinstance(case, dict) or 'kind' not in case:
        print('tie-break / obligation replay (no input case):', body.get('what'))
        return 1
    cb, sb = CenterBatch(ck), SexBatch(ck)
    if case['kind'] == 'do_sex_table':
        from cnvlib.commands import do_sex
        tabs = [(rows_of_case(t['rows']), t['has_depth'], t['has_weight'], t['meta']) for t in case['tables']]
        tab = do_sex([mk_cna(*t) for t in tabs], case['hap'], case['build'])
        exp = []
        for rows, hd, hw, meta in tabs:
            is_xy, stats = mk_cna(rows, hd, hw).compare_sex_chromosomes(case['hap'], case['build'])
            exp.append([meta.get('filename') or meta['sample_id'], 'Male' if is_xy else 'Female',
                        strsign(stats['chrx_ratio']) if stats else 'NA', strsign(stats['chry_ratio']) if stats else 'NA'])
        got = [[str(tab[c].iat[k]) for c in tab.columns] for k in range(len(tab))]
        ok = list(tab.columns) == ['sample', 'sex', 'X_logratio', 'Y_logratio'] and got == exp
        print('replayed do_sex table %s' % ('passes on the current tree' if ok else 'still differs'))
        return 0 if ok else 1
    run_case(ck, case, cb, sb)
    cb.flush()
    sb.flush()
    bad = [v for v in ck.violations if v[2]] or ck.tie_breaks
    for v in ck.violations:
        print('violation:', v[1])
    for t in ck.tie_breaks:
        print('code != model:', t[0])
    if bad:
        print('VIOLATION property=C15 replay=(replayed case still fails)')
        return 1
    print('replayed case passes on the current tree')
    return 0
