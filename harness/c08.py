"""C08 -- every format is read to 0-based half-open, sorted; write-then-read is lossless.

Real files are written with skgenome.tabio.write / cnvlib.export.export_seg and read
back with tabio.read / read_auto / seg.parse_seg (+ the import-seg path).  Three
comparisons per case:
  * direct oracle (independent Python): expected 0-based coordinates, names, labels,
    integer columns identical, floats equal in their 6-significant-digit rendering,
    natural chromosome order, stable; second write byte-identical;
  * model (extracted Coq, Model/Formats.v, Sniff.v, Chromsort.v) on the file's fields;
  * across formats: the same regions from every file.
pandas / re tokenisation and %.6g are on the code's side (monitored here, not proved)."""
import os, json, io, math, argparse
import vlib
from vlib import Err

LEVEL = 'proof'

# pandas' default NA tokens: an *open known finding* (sig C08-na-token-name) when used
# as a chromosome name or label in tab / interval / SEG files; kept out of the main streams
NA_TOKENS = {'', '#N/A', '#N/A N/A', '#NA', '-1.#IND', '-1.#QNAN', '-NaN', '-nan', '1.#IND', '1.#QNAN',
             '<NA>', 'N/A', 'NA', 'NULL', 'NaN', 'None', 'n/a', 'nan', 'null'}

WRITE_FMTS = ('tab', 'bed3', 'bed4', 'interval', 'text')


# ----------------------------------------------------------------------------
# generators

BASES = ['1', '2', '3', '9', '10', '11', '19', '20', '21', '22', '100', '999', '1000', '1001', '2000', '3000',
         'X', 'Y', 'M', 'MT', 'W', 'Z', 'x', 'y', 'm', 'Un', 'EBV', 'I', 'II', 'III', 'IV', '2L', '2R', '3h',
         'Un_gl000211', 'Un_KI270302v1', '1_gl000191_random', '11_KI270721v1_random', '6_GL000250v2_alt',
         '6_apd_hap1', '17_ctg5_hap1', 'GL000192.1', 'KI270728.1', 'NC_007605', 'hs37d5', 'scaffold_12',
         'scaffold12.1', 'contig_1.2.3', '01', '007', '1e5', '1.0', '1_000', 'X1', 'Y_2', '1X', '0', '00']


def gen_name(rng, word_only=False):
    r = rng.random()
    if r < 0.45:
        b = rng.choice(BASES[:34])
    elif r < 0.85:
        b = rng.choice(BASES)
    else:
        alpha = 'ABCXYMabcxyz0123456789__' + ('' if word_only else '..')
        b = ''.join(rng.choice(alpha) for _ in range(rng.randint(1, 8)))
        if b[0] == '.' or b[0] == '_' and rng.random() < 0.5:
            b = 'c' + b
    p = rng.choice(['', '', 'chr', 'chr', 'chr', 'Chr', 'CHR'])
    nm = p + b
    if word_only:
        nm = nm.replace('.', '_')
    if nm in NA_TOKENS or nm.lower().startswith(('track', 'browser')) or nm[0] == '.':
        return 'chr' + nm.strip('.') + '7'
    return nm


GENES = ['TP53', 'BRCA1,BRCA2', 'HLA-A', 'orf1.2', '-', 'Antitarget', 'gene-1,gene-2', '7SK', '007', '1e5', '1.0',
         'a', 'A.B-C,D', 'CDKN2A', 'x,y,z', '-,-', '.', '+', '1', '22', 'rs123', 'ENSG00000141510.11', 'NM_000546.5',
         'C1orf112', 'tRNA-Ala-AGC-1-1', 'True', 'inf']


def gen_gene(rng):
    if rng.random() < 0.7:
        g = rng.choice(GENES)
    else:
        g = ''.join(rng.choice('ABCdef0123456789,.-_') for _ in range(rng.randint(1, 12)))
    if g in NA_TOKENS:
        g = 'g' + g
    return g


COORDS = [0, 1, 8, 9, 10, 11, 98, 99, 100, 999, 1000, 9999, 10000, 99999, 999999, 9999999, 99999999,
          123456789, 199999999, 299999998, 299999999]


def gen_interval(rng):
    s = rng.choice(COORDS) if rng.random() < 0.5 else rng.randint(0, rng.choice([50, 5000, 300000000 - 1]))
    ln = rng.choice([1, 1, 2, 10, 100, 1000, rng.randint(1, 100000), rng.randint(1, 300000000)])
    e = min(300000000, s + ln)
    if e <= s:
        s = e - 1
    return s, e


def gen_float(rng):
    r = rng.random()
    if r < 0.35:
        return rng.uniform(-5, 5)
    if r < 0.5:
        return float(rng.randint(-6, 6))
    if r < 0.6:
        return rng.choice([0.0, 1.0, -1.0, 0.5, 0.1, 1e-7, 123456.5, 1234567.0, 999999.5, 0.0001234565, 1e22, 1e-5, 1e16])
    if r < 0.8:
        return rng.uniform(-1, 1) * 10.0 ** rng.randint(-30, 30)
    if r < 0.9:
        x = round(rng.uniform(-100, 100), rng.randint(0, 8))
        return x if x != 0 else 0.0
    if r < 0.95:
        return rng.uniform(-1, 1) * 10.0 ** rng.randint(-300, 300)
    return rng.choice([5e-324, 1.7976931348623157e308, -2.2250738585072014e-308, 2.5e-310])


def gen_table(rng, word_only=False, seg=False, maxrows=14):
    """-> dict(cols=[extra column names], kinds={col: 'str'|'int'|'float'}, rows=[[chrom,start,end,extras...]])"""
    nchrom = rng.randint(1, 5)
    chroms = [gen_name(rng, word_only) for _ in range(nchrom)]
    if rng.random() < 0.3:      # same chromosome with and without the prefix
        c = rng.choice(chroms)
        chroms.append(c[3:] if c.lower().startswith('chr') and len(c) > 3 else 'chr' + c)
        if chroms[-1] in NA_TOKENS:
            chroms.pop()
    if seg:
        cols = ['gene', 'log2'] + (['probes'] if rng.random() < 0.6 else [])
    else:
        k = rng.random()
        if k < 0.15:
            cols = []
        elif k < 0.3:
            cols = ['gene']
        elif k < 0.4:
            cols = ['gene', 'strand']
        else:
            cols = ['gene', 'log2'] + rng.sample(['depth', 'weight', 'probes', 'gc', 'cn', 'baf'], rng.randint(0, 3))
            cols = cols[:2] + sorted(cols[2:]) if rng.random() < 0.7 else cols
    kinds = {'gene': 'str', 'strand': 'str', 'probes': 'int', 'cn': 'int'}
    n = rng.choice([1, 1, 2, 3, 5, rng.randint(1, maxrows)])
    rows = []
    for _ in range(n):
        if rows and rng.random() < 0.25:
            base = list(rng.choice(rows))          # duplicate / near-duplicate row
            m = rng.random()
            if m < 0.4:
                rows.append(base)
                continue
            c, s, e = base[0], base[1], base[2]
            if m < 0.6:
                e = min(300000000, e + rng.choice([1, 10]))
            elif m < 0.8:
                s2, e2 = gen_interval(rng)
                s, e = s, max(s + 1, min(e2, 300000000))
            else:
                c = rng.choice(chroms)
        else:
            c = rng.choice(chroms)
            s, e = gen_interval(rng)
        ex = []
        for col in cols:
            kd = kinds.get(col, 'float')
            if col == 'gene':
                ex.append(gen_gene(rng))
            elif col == 'strand':
                ex.append(rng.choice(['+', '-', '.']))
            elif kd == 'int':
                ex.append(rng.choice([0, 1, 2, 5, 100, rng.randint(0, 100000)]))
            else:
                ex.append(gen_float(rng))
        rows.append([c, s, e] + ex)
    o = rng.random()
    if o < 0.3:
        pass                      # generation order (unsorted)
    elif o < 0.6:
        rng.shuffle(rows)
    elif o < 0.75:
        rows.sort(key=lambda r: (r[0], r[1], r[2]))
        rows.reverse()
    else:
        rows.sort(key=lambda r: (r[0], r[1], r[2]))    # plain string order (not the natural one)
    # a float column needs at least one float value, or pandas types it as integer on reading
    return {'cols': cols, 'kinds': {c: kinds.get(c, 'float') for c in cols}, 'rows': rows}


# ----------------------------------------------------------------------------
# the direct oracle: natural order, 6-digit float equality (independent of the code and of the model)

def g6(x):
    return '%.6g' % x


def nat_class(name):
    n = name[3:] if name[:3].lower() == 'chr' else name
    if n and all('0' <= ch <= '9' for ch in n):
        return ('num', int(n))
    if n == 'X':
        return ('sex', 0)
    if n == 'Y':
        return ('sex', 1)
    if n == 'M':
        return ('mito', 0)
    return None


def nat_cmp(a, b):
    """-1/0/1 where the property text fixes the order of two chromosome names, None where it does not:
    numeric names by value; numbers (below 1000, the key's X/Y slot) < X < Y < M; identical names equal."""
    if a == b:
        return 0
    ca, cb = nat_class(a), nat_class(b)
    if ca is None or cb is None:
        return None
    order = {'num': 0, 'sex': 1, 'mito': 2}
    if ca[0] == cb[0]:
        return (ca[1] > cb[1]) - (ca[1] < cb[1])
    for x in (ca, cb):
        if x[0] == 'num' and x[1] >= 1000:
            return None
    return -1 if order[ca[0]] < order[cb[0]] else 1


def tok(v, kind):
    if kind == 'str':
        return str(v)
    if kind == 'int':
        return str(int(v))
    return g6(float(v))


def expected_rows(table, fmt):
    """rows the reader must return for `fmt` (as token tuples, input order), and the column names"""
    cols, kinds = table['cols'], table['kinds']
    out = []
    for r in table['rows']:
        d = dict(zip(cols, r[3:]))
        if fmt in ('bed3', 'text'):
            ex = [] if fmt == 'bed3' else ['-']
        elif fmt == 'bed4':
            ex = [str(d.get('gene', '-'))]
        elif fmt == 'interval':
            ex = [str(d.get('gene', '-')), str(d.get('strand', '+'))]
        elif fmt == 'seg':
            ex = ['-', tok(d['log2'], 'float')] + ([tok(d['probes'], 'int')] if 'probes' in d else [])
        else:
            ex = [tok(d[c], kinds[c]) for c in cols]
        out.append((r[0], int(r[1]), int(r[2])) + tuple(ex))
    names = {'bed3': [], 'text': ['gene'], 'bed4': ['gene'], 'interval': ['gene', 'strand'],
             'seg': ['gene', 'log2'] + (['probes'] if 'probes' in cols else [])}.get(fmt, list(cols))
    return out, names


def oracle_check(inp, out):
    """inp: expected rows in input order, out: rows the code returned (token tuples). -> None or message"""
    if sorted(inp) != sorted(out):
        return 'rows read back are not the rows written (coordinates / names / integer columns / 6-digit numbers)'
    n = len(out)
    for i in range(n):
        a = out[i]
        for j in range(i + 1, n):
            b = out[j]
            c = nat_cmp(a[0], b[0])
            if c is None:
                continue
            if c > 0:
                return 'rows not in natural chromosome order: %s before %s' % (a[0], b[0])
            if c == 0 and (a[1], a[2]) > (b[1], b[2]):
                return 'rows of %s/%s not sorted by start then end' % (a[0], b[0])
    # stability: rows with the same (name, start, end) keep their input order
    groups_in, groups_out = {}, {}
    for r in inp:
        groups_in.setdefault(r[:3], []).append(r)
    for r in out:
        groups_out.setdefault(r[:3], []).append(r)
    if groups_in != groups_out:
        return 'rows with equal coordinates changed their relative order'
    return None


# ----------------------------------------------------------------------------
# running the code

def file_fields(path):
    with open(path, newline='') as fh:
        text = fh.read()
    lines = text.split('\n')
    if lines and lines[-1] == '':
        lines.pop()
    return [l.split('\t') for l in lines]


def make_array(table, cls=None, sample_id=None):
    from skgenome import GenomicArray as GA
    import pandas as pd
    cls = cls or GA
    cols = ['chromosome', 'start', 'end'] + table['cols']
    df = pd.DataFrame.from_records([tuple(r) for r in table['rows']], columns=cols)
    for c, k in table['kinds'].items():
        if k == 'float':
            df[c] = df[c].astype(float)
    return cls(df, {'sample_id': sample_id} if sample_id else None)


def array_rows(garr, names, kinds):
    """code table -> token tuples (chrom, start, end, tokens of `names`)"""
    import numpy as np
    df = garr.data
    out = []
    cols = [df[c].tolist() for c in ['chromosome', 'start', 'end'] + list(names)]
    for vals in zip(*cols):
        ex = []
        for nm, v in zip(names, vals[3:]):
            k = kinds.get(nm, 'str')
            if isinstance(v, float) and v != v:
                ex.append('NaN')
            elif k == 'float' or isinstance(v, float):
                ex.append(g6(float(v)))
            else:
                ex.append(str(v))
        c = vals[0]
        out.append((c if isinstance(c, str) else repr(c), int(vals[1]), int(vals[2])) + tuple(ex))
    return out


def mrows(rows):
    """token tuples -> model rows"""
    return [[r[0], r[1], r[2], list(r[3:])] for r in rows]


def from_mrows(v):
    return [tuple([r[0], r[1], r[2]] + list(r[3])) for r in v]


class Pending:
    """model requests collected during the run, evaluated in batches at the end"""
    def __init__(self):
        self.q = {}

    def add(self, entry, arg, what, case, code, conv=None):
        self.q.setdefault(entry, []).append((arg, what, case, code, conv))

    def flush(self, ck):
        cnt = ck.extra.setdefault('model_comparisons', {})
        for entry, items in self.q.items():
            res = vlib.model_batch_parallel(entry, [it[0] for it in items])
            cnt[entry] = cnt.get(entry, 0) + len(items)
            for (arg, what, case, code, conv), m in zip(items, res):
                mm = m
                if conv and not isinstance(m, Err):
                    try:
                        mm = conv(m)
                    except Exception as e:     # noqa
                        mm = Err('convert: %r' % (e,))
                if mm != code:
                    ck.tie_break('model differs from the code: ' + what, case, code=code, model=mm, entry=entry)
        self.q = {}


def model_write_arg(fmt, table, rows_sorted=None):
    cols, kinds = table['cols'], table['kinds']
    rows = rows_sorted if rows_sorted is not None else table['rows']
    out = []
    for r in rows:
        d = dict(zip(cols, r[3:]))
        if fmt in ('bed3', 'text'):
            ex = []
        elif fmt == 'bed4':
            ex = [str(d['gene'])] if 'gene' in d else []
        elif fmt == 'interval':
            ex = ([str(d['gene'])] if 'gene' in d else []) + ([str(d['strand'])] if 'strand' in d else [])
        else:
            ex = [tok(d[c], kinds[c]) for c in cols]
        out.append([r[0], int(r[1]), int(r[2]), ex])
    return [fmt, list(cols) if fmt == 'tab' else [], out]


def check_table(ck, P, scratch, table, tag, word_only=False, corpus=False):
    """one region table x every writer format: write, read, read_auto, write again."""
    from skgenome import tabio
    case = {'table': table, 'tag': tag}
    garr = make_array(table)
    kinds = table['kinds']
    regions = {}
    nontriv = len(table['rows']) > 1
    for fmt in WRITE_FMTS:
        sub = dict(case, fmt=fmt)
        p1 = os.path.join(scratch, '%s.%s.dat' % (tag, fmt))
        exp, names = expected_rows(table, fmt)
        try:
            tabio.write(garr, p1, fmt)
            f1 = file_fields(p1)
            back = tabio.read(p1, fmt)
            got = array_rows(back, names, kinds)
        except Exception as e:    # noqa
            ck.violation('write/read as %s raised %s: %s' % (fmt, type(e).__name__, str(e)[:120]), sub,
                         code=repr(e)[:200], expected=exp, clause='C08_roundtrip_' + fmt)
            continue
        ck.count(['table', fmt, table], nontrivial=nontriv, cls='roundtrip:%s' % fmt)
        regions[fmt] = [r[:3] for r in got]
        msg = oracle_check(exp, got)
        if msg:
            ck.violation('%s round trip: %s' % (fmt, msg), sub, code=got, expected_rows_in_input_order=exp,
                         file=f1[:8], clause='C08_roundtrip_%s/C08_sorted' % fmt)
            continue
        # extra columns must not appear or vanish (tab carries all of them)
        if fmt == 'tab' and sorted(back.data.columns) != sorted(['chromosome', 'start', 'end'] + table['cols']):
            ck.violation('tab round trip changed the set of columns', sub, code=list(back.data.columns),
                         expected=table['cols'], clause='C08_roundtrip_tab')
            continue
        # second write: the bytes of writing the read table again are stable, and equal the first
        # file when the table was written in sorted order
        p2 = p1 + '.2'
        p3 = p1 + '.3'
        try:
            tabio.write(back, p2, fmt)
            back2 = tabio.read(p2, fmt)
            tabio.write(back2, p3, fmt)
            b2, b3 = open(p2, 'rb').read(), open(p3, 'rb').read()
        except Exception as e:    # noqa
            ck.violation('second write/read as %s raised %s' % (fmt, type(e).__name__), sub, code=repr(e)[:200],
                         expected='no error', clause='C08_rewrite')
            continue
        if b2 != b3:
            ck.violation('%s: writing the re-read table again does not produce identical bytes' % fmt, sub,
                         code=b3.decode('latin-1')[:400], expected=b2.decode('latin-1')[:400], clause='C08_rewrite')
            continue
        # model: writer output, reader output, rewritten file
        P.add('c08_write', model_write_arg(fmt, table), '%s writer fields' % fmt, sub, f1)
        if fmt == 'tab':
            def conv(m, names=names):
                hdr, rows = m
                idx = [hdr.index(nm) for nm in names]
                return [tuple([r[0], r[1], r[2]] + [r[3][i] for i in idx]) for r in rows]
            P.add('c08_read', [fmt, f1], 'tab reader rows', sub, got, conv)
        else:
            P.add('c08_read', [fmt, f1], '%s reader rows' % fmt, sub, got, from_mrows)
        f2 = file_fields(p2)
        srt = sorted_input(table, got, fmt)
        if srt is not None:
            if fmt == 'tab':
                # columns are re-ordered by GenomicArray.sort_columns (not modelled): compare as dicts
                hdr2 = f2[0]
                want = model_write_arg(fmt, table, srt)
                P.add('c08_write', want, 'tab second write (rows)', sub,
                      [dict(zip(hdr2, l)) for l in f2[1:]],
                      lambda m: [dict(zip(m[0], l)) for l in m[1:]])
            else:
                P.add('c08_write', model_write_arg(fmt, table, srt), '%s second write' % fmt, sub, f2)
        # first file == second file when the input was already in the order read back and columns in class order
        if srt is not None and srt == [list(r) for r in table['rows']] and \
                (fmt != 'tab' or table['cols'] == sorted(table['cols'])):
            b1 = open(p1, 'rb').read()
            ck.cls('rewrite:sorted-input-bytes')
            if b1 != b2:
                ck.violation('%s: sorted table, write -> read -> write changed the bytes' % fmt, sub,
                             code=b2.decode('latin-1')[:400], expected=b1.decode('latin-1')[:400], clause='C08_rewrite')
        # auto-detection
        want_fmt = 'bed' if fmt in ('bed3', 'bed4') else fmt
        try:
            sn = tabio.sniff_region_format(p1)
        except ValueError:
            sn = Err('unrecognized')
        P.add('c08_sniff', [None, f1], 'sniff_region_format on a %s file' % fmt, sub, sn)
        if word_only and table['rows']:
            ck.cls('sniff:word-names')
            if sn != want_fmt:
                ck.violation('auto-detection classifies a %s file as %r' % (fmt, sn), sub, code=sn, expected=want_fmt,
                             first_line=f1[:1], clause='C08_sniff')
                continue
            try:
                auto = tabio.read_auto(p1)
                common = [nm for nm in names if nm in auto.data.columns]
                ga = array_rows(auto, common, kinds)
                gb = [r[:3] + tuple(r[3 + names.index(nm)] for nm in common) for r in got]
            except Exception as e:   # noqa
                ck.violation('read_auto on a %s file raised %s' % (fmt, type(e).__name__), sub, code=repr(e)[:200],
                             expected=got, clause='C08_sniff')
                continue
            if ga != gb:
                ck.violation('read_auto on a %s file does not yield the table of the %s parser' % (fmt, fmt), sub,
                             code=ga, expected=gb, clause='C08_sniff')
        for p in (p1, p2, p3):
            if os.path.exists(p):
                os.remove(p)
    # across formats: the same regions, in the same order, from every file
    keys = [f for f in WRITE_FMTS if f in regions]
    for f in keys[1:]:
        if regions[f] != regions[keys[0]]:
            ck.violation('regions read from the %s file differ from those of the %s file' % (f, keys[0]), case,
                         code=regions[f], expected=regions[keys[0]], clause='C08_conventions')
            break


def sorted_input(table, got, fmt):
    """the input rows (full rows) re-ordered as the code read them back; None if ambiguous"""
    exp, _ = expected_rows(table, fmt)
    pools = {}
    for r, e in zip(table['rows'], exp):
        pools.setdefault(e, []).append(list(r))
    out = []
    for g in got:
        if not pools.get(g):
            return None
        out.append(pools[g].pop(0))
    return out


# ----------------------------------------------------------------------------
# SEG: export seg -> import-seg

def check_seg(ck, P, scratch, samples, tag, probes):
    """samples: [(sample_id, table with gene, log2 [, probes])]"""
    from skgenome import tabio
    from cnvlib import export
    from cnvlib.cnary import CopyNumArray as CNA
    from cnvlib.cmdutil import read_cna, write_dataframe
    case = {'samples': [[sid, t] for sid, t in samples], 'tag': tag}
    d = os.path.join(scratch, tag)
    os.makedirs(d, exist_ok=True)
    fnames = []
    try:
        for sid, t in samples:
            fn = os.path.join(d, sid + '.cns')
            tabio.write(make_array(t, CNA, sid), fn)
            fnames.append(fn)
        seg_df = export.export_seg(fnames, chrom_ids=False)
        segfile = os.path.join(d, 'all.seg')
        write_dataframe(segfile, seg_df)
        fseg = file_fields(segfile)
        outdir = os.path.join(d, 'imp')
        os.makedirs(outdir, exist_ok=True)
        # the body of _cmd_import_seg
        from cnvlib import commands
        commands._cmd_import_seg(argparse.Namespace(segfile=segfile, chromosomes=None, prefix=None,
                                                    from_log10=False, output_dir=outdir))
        parsed = [(sid, df) for sid, df in tabio.seg.parse_seg(segfile)]
    except Exception as e:     # noqa
        ck.violation('export seg / import-seg raised %s: %s' % (type(e).__name__, str(e)[:120]), case, code=repr(e)[:200],
                     expected='no error', clause='C08_roundtrip_seg')
        return
    ck.count(['seg', case['samples']], nontrivial=True, cls='roundtrip:seg:%d-samples' % len(samples))
    kinds = {'gene': 'str', 'log2': 'float', 'probes': 'int'}
    model_samples = []
    ok = True
    for sid, t in samples:
        exp, names = expected_rows(t, 'seg')
        try:
            back = read_cna(os.path.join(outdir, sid + '.cns'))
            got = array_rows(back, names, kinds)
        except Exception as e:    # noqa
            ck.violation('reading the imported %s.cns raised %s' % (sid, type(e).__name__), case, code=repr(e)[:200],
                         expected=exp, clause='C08_roundtrip_seg')
            ok = False
            break
        msg = oracle_check(exp, got)
        if msg:
            ck.violation('export seg -> import-seg, sample %s: %s' % (sid, msg), case, code=got,
                         expected_rows_in_input_order=exp, seg_file=fseg[:8], clause='C08_roundtrip_seg')
            ok = False
            break
        # writing the imported segments again: identical bytes
        p2 = os.path.join(outdir, sid + '.2.cns')
        tabio.write(back, p2)
        back2 = read_cna(p2)
        p3 = os.path.join(outdir, sid + '.3.cns')
        tabio.write(back2, p3)
        if open(p2, 'rb').read() != open(p3, 'rb').read():
            ck.violation('imported sample %s: second write differs in bytes' % sid, case, code=open(p3).read()[:300],
                         expected=open(p2).read()[:300], clause='C08_rewrite')
            ok = False
            break
        model_samples.append([sid, got])
    if not ok:
        return
    # model: SEG writer on the sorted samples (export_seg reads the .cns files, i.e. sorted), parser, import
    def seg_extras(rows):
        return [[r[0], r[1], r[2], ([r[5]] if probes else []) + [r[4]]] for r in rows]   # file order: probes, mean
    P.add('c08_write_seg', [probes, False, [[sid, seg_extras(rows)] for sid, rows in model_samples]],
          'export_seg fields', case, fseg)
    code_parsed = []
    for sid, df in parsed:
        rows = []
        for rec in df.itertuples(index=False):
            dd = rec._asdict()
            rows.append((dd['chromosome'], int(dd['start']), int(dd['end'])) +
                        ((str(int(dd['probes'])),) if probes else ()) + (g6(dd['log2']), dd['gene']))
        code_parsed.append([sid, rows])
    P.add('c08_parse_seg', fseg, 'parse_seg samples', case, code_parsed,
          lambda m: [[sid, from_mrows(rows)] for sid, rows in m])
    P.add('c08_import_seg', fseg, 'import-seg + read back', case,
          [[sid, [r[:3] + ((r[5],) if probes else ()) + (r[4], r[3]) for r in rows]] for sid, rows in model_samples],
          lambda m: [[sid, from_mrows(rows)] for sid, rows in m])
    # tabio.write(..., "seg"): chromosome names enumerated; coordinates and values must survive
    sid, t = samples[0]
    try:
        arr = make_array(t, CNA, sid)
        p = os.path.join(d, 'ids.seg')
        tabio.write(arr, p, 'seg')
        fids = file_fields(p)
        back = tabio.read(p, 'seg')
        got = sorted((int(s), int(e), g6(v)) for s, e, v in zip(back.data['start'], back.data['end'], back.data['log2']))
    except Exception as e:    # noqa
        ck.violation('tabio.write/read as seg raised %s' % type(e).__name__, case, code=repr(e)[:200], expected='no error',
                     clause='C08_roundtrip_seg')
        return
    ck.count(['seg-ids', sid, t], nontrivial=True, cls='roundtrip:seg-enumerated')
    want = sorted((int(r[1]), int(r[2]), g6(dict(zip(t['cols'], r[3:]))['log2'])) for r in t['rows'])
    if got != want:
        ck.violation('tabio seg writer/reader: coordinates or values changed', case, code=got, expected=want,
                     clause='C08_roundtrip_seg')
        return
    exp, names = expected_rows(t, 'seg')
    P.add('c08_write_seg', [probes, True, [[sid, seg_extras(exp)]]], 'tabio seg writer (enumerated chromosomes)', case, fids)
    def conv_seg(m):
        out = []
        for r in from_mrows(m):
            ex = r[3:]                      # file extras ++ [gene]: [probes,] log2, gene
            out.append(r[:3] + ((ex[2], ex[1], ex[0]) if probes else (ex[1], ex[0])))
        return out
    P.add('c08_read', ['seg', fids], 'tabio seg reader', case, array_rows(back, names, kinds), conv_seg)


def gen_seg_case(rng):
    k = rng.randint(1, 4)
    probes = rng.random() < 0.6
    sids = rng.sample(['S1', 'tumor', 'normal_2', 'T-01', 'P7.a', 'x', '17', '007', 'Sample_B'], k)
    samples = []
    for sid in sids:
        t = gen_table(rng, seg=True, maxrows=8)
        if probes and 'probes' not in t['cols']:
            t['cols'].append('probes')
            t['kinds']['probes'] = 'int'
            for r in t['rows']:
                r.append(rng.randint(0, 5000))
        if not probes and 'probes' in t['cols']:
            i = 3 + t['cols'].index('probes')
            t['cols'].remove('probes')
            del t['kinds']['probes']
            for r in t['rows']:
                del r[i]
        # log2 column must be float-typed on reading the .cns: keep at least one non-integral value
        j = 3 + t['cols'].index('log2')
        if all(float(r[j]) == int(float(r[j])) for r in t['rows'] if abs(float(r[j])) < 1e15):
            t['rows'][0][j] = 0.25
        samples.append((sid, t))
    return samples, probes


def check_seg_raw(ck, P, scratch, rng, i):
    """hand-made SEG files: interleaved samples, unsorted rows, leading lines without tabs."""
    from skgenome import tabio
    probes = rng.random() < 0.5
    sids = rng.sample(['A', 'B', 'C9', 's_4', '12'], rng.randint(1, 4))
    lines = []
    for _ in range(rng.randint(0, 2)):
        lines.append([rng.choice(['WARNING: something', 'Loading', 'x'])])
    lines.append(['ID', 'chrom', 'loc.start', 'loc.end'] + (['num.mark'] if probes else []) + ['seg.mean'])
    exp = {}
    order = []
    for _ in range(rng.randint(1, 10)):
        sid = rng.choice(sids)
        c = gen_name(rng)
        s, e = gen_interval(rng)
        v = g6(gen_float(rng))
        pr = [str(rng.randint(0, 999))] if probes else []
        lines.append([sid, c, str(s + 1), str(e)] + pr + [v])
        if sid not in exp:
            exp[sid] = []
            order.append(sid)
        exp[sid].append((c, s, e) + tuple(pr) + (g6(float(v)), '-'))
    p = os.path.join(scratch, 'raw%d.seg' % i)
    with open(p, 'w') as fh:
        for l in lines:
            fh.write('\t'.join(l) + '\n')
    case = {'seg_lines': lines}
    try:
        got = []
        for sid, df in tabio.seg.parse_seg(p):
            rows = []
            for rec in df.itertuples(index=False):
                dd = rec._asdict()
                rows.append((dd['chromosome'], int(dd['start']), int(dd['end'])) +
                            ((str(int(dd['probes'])),) if probes else ()) + (g6(dd['log2']), dd['gene']))
            got.append([sid, rows])
    except Exception as e:   # noqa
        ck.violation('parse_seg raised %s on a well-formed SEG file' % type(e).__name__, case, code=repr(e)[:200],
                     expected=[[s, exp[s]] for s in order], clause='C08_conventions')
        return
    ck.count(['seg-raw', lines], nontrivial=len(order) > 1, cls='read:seg-raw')
    want = [[s, exp[s]] for s in order]
    if got != want:
        ck.violation('parse_seg: samples / 0-based coordinates differ from the file', case, code=got, expected=want,
                     clause='C08_conventions')
        return
    P.add('c08_parse_seg', lines, 'parse_seg on a hand-made file', case, got,
          lambda m: [[sid, from_mrows(rows)] for sid, rows in m])
    os.remove(p)


# ----------------------------------------------------------------------------
# readers of formats written by other tools: BED variants, interval header, text with labels,
# GFF, VCF, Picard per-target

def check_readers(ck, P, scratch, rng, i):
    from skgenome import tabio
    kind = rng.choice(['bed', 'bed', 'interval', 'text', 'gff', 'vcf-simple', 'vcf-sites', 'picardhs', 'vcf'])
    n = rng.randint(1, 8)
    regs = []
    for _ in range(n):
        c = gen_name(rng)
        s, e = gen_interval(rng)
        regs.append((c, s, e, gen_gene(rng)))
    lines, exp = [], []
    off = 0 if kind == 'bed' else 1
    names = []
    fmt = kind
    if kind == 'bed':
        ncol = rng.choice([3, 4, 5, 6, 7, 9])
        fmt = rng.choice(['bed', 'bed3', 'bed4'])
        if rng.random() < 0.3:
            lines.append(['browser position chr1:1-100'])
        if rng.random() < 0.4:
            lines.append(['track name=x description="y z"'])
        for (c, s, e, g) in regs:
            st = rng.choice(['+', '-', '.'])
            full = [c, str(s), str(e), g, str(rng.randint(0, 1000)), st, str(s), str(e), '0,0,0']
            lines.append(full[:ncol])
            gene = g if ncol >= 4 else '-'
            strand = st if ncol >= 6 else '.'
            exp.append((c, s, e) + {'bed': (gene, strand), 'bed3': (), 'bed4': (gene,)}[fmt])
        names = {'bed': ['gene', 'strand'], 'bed3': [], 'bed4': ['gene']}[fmt]
        if rng.random() < 0.2:      # a second track: reading stops there
            lines.append(['track name=second'])
            lines.append(['chr1', '5', '6', 'ignored'][:max(3, min(ncol, 4))])
    elif kind == 'interval':
        if rng.random() < 0.7:
            lines.append(['@HD', 'VN:1.4', 'SO:unsorted'])
            lines.append(['@SQ', 'SN:chr1', 'LN:249250621'])
        for (c, s, e, g) in regs:
            st = rng.choice(['+', '-'])
            lines.append([c, str(s + 1), str(e), st, g])
            exp.append((c, s, e, g, st))
        names = ['gene', 'strand']
    elif kind == 'text':
        for (c, s, e, g) in regs:
            m = rng.random()
            if m < 0.4:
                lines.append(['%s:%d-%d' % (c, s + 1, e)])
                exp.append((c, s, e, '-'))
            elif m < 0.7:
                lines.append(['%s:%d-%d%s%s' % (c, s + 1, e, rng.choice([' ', '  ']), g)])
                exp.append((c, s, e, g))
            else:
                lines.append(['%s:%d-%d' % (c, s + 1, e), g])     # tab before the label
                exp.append((c, s, e, g))
        names = ['gene']
    elif kind == 'gff':
        if rng.random() < 0.5:
            lines.append(['##gff-version 3'])
        for (c, s, e, g) in regs:
            lines.append([c, 'src', 'exon', str(s + 1), str(e), '.', rng.choice('+-.'), rng.choice('012.'),
                          'ID=x1;Name=%s' % g.replace(';', '_')])
            exp.append((c, s, e))
    elif kind in ('vcf-simple', 'vcf-sites', 'vcf'):
        lines.append(['##fileformat=VCFv4.2'])
        if kind == 'vcf':
            for c in sorted({r[0] for r in regs}):
                lines.append(['##contig=<ID=%s>' % c])
        lines.append(['#CHROM', 'POS', 'ID', 'REF', 'ALT', 'QUAL', 'FILTER', 'INFO'])
        for (c, s, e, g) in regs:
            lines.append([c, str(s + 1), '.', 'A', 'G', '.', 'PASS', '.'])
            exp.append((c, s))
    elif kind == 'picardhs':
        lines.append(['chrom', 'start', 'end', 'length', 'name', '%gc', 'mean_coverage', 'normalized_coverage'])
        for (c, s, e, g) in regs:
            lines.append([c, str(s + 1), str(e), str(e - s), g, '0.5', g6(abs(gen_float(rng))), '1'])
            exp.append((c, s, e, g))
        names = ['gene']
    p = os.path.join(scratch, 'rd%d.%s' % (i, 'vcf' if kind.startswith('vcf') else 'dat'))
    with open(p, 'w') as fh:
        for l in lines:
            fh.write('\t'.join(l) + '\n')
    case = {'format': fmt, 'lines': lines}
    try:
        arr = tabio.read(p, fmt)
        if kind.startswith('vcf'):
            got = [(c, int(s)) for c, s in zip(arr.data['chromosome'], arr.data['start'])]
        elif kind == 'gff':
            got = [r[:3] for r in array_rows(arr, [], {})]
        else:
            got = array_rows(arr, names, {})
    except Exception as e:    # noqa
        ck.violation('reading a well-formed %s file raised %s: %s' % (fmt, type(e).__name__, str(e)[:100]), case,
                     code=repr(e)[:200], expected=exp, clause='C08_conventions')
        return
    ck.count(['read', fmt, lines], nontrivial=True, cls='read:%s' % kind)
    if kind.startswith('vcf'):
        bad = sorted(got) != sorted(exp)
        if not bad:
            for a, b in zip(got, got[1:]):
                c = nat_cmp(a[0], b[0])
                if c is not None and (c > 0 or (c == 0 and a[1] > b[1])):
                    bad = True
        if bad:
            ck.violation('%s reader: 0-based starts / order differ from the file' % fmt, case, code=got, expected=sorted(exp),
                         clause='C08_conventions')
            return
        P.add('c08_read', [fmt, lines], '%s reader starts' % fmt, case, sorted(got), lambda m: sorted(tuple(x) for x in m))
    else:
        msg = oracle_check(exp, got)
        if msg:
            ck.violation('%s reader: %s' % (fmt, msg), case, code=got, expected_rows_in_input_order=exp, clause='C08_conventions')
            return
        if kind == 'gff':
            P.add('c08_read', [fmt, lines], 'gff reader regions', case, got, lambda m: [tuple(x) for x in m])
        else:
            P.add('c08_read', [fmt, lines], '%s reader rows' % fmt, case, got, from_mrows)
    # auto-detection of foreign files (names of word characters only are claimed)
    if all(all(ch.isalnum() or ch == '_' for ch in r[0]) for r in regs) and kind != 'picardhs':
        want = {'bed': 'bed', 'interval': 'interval', 'text': 'text', 'gff': 'gff', 'vcf-simple': 'vcf', 'vcf-sites': 'vcf',
                'vcf': 'vcf'}[kind]
        try:
            sn = tabio.sniff_region_format(p)
        except ValueError:
            sn = Err('unrecognized')
        ck.cls('sniff:foreign-%s' % kind)
        ambiguous = (kind == 'bed' and ncol == 5)     # a 5-column BED row can be an interval-list row
        if sn != want and not ambiguous:
            ck.violation('auto-detection classifies a %s file as %r' % (kind, sn), case, code=sn, expected=want,
                         clause='C08_sniff')
            return
        P.add('c08_sniff', [None, lines], 'sniff_region_format on a %s file' % kind, case, sn)
    os.remove(p)


# ----------------------------------------------------------------------------
# sniffing of single lines (model vs code), chromosome keys, labels

def check_sniff_lines(ck, P, scratch, rng, n):
    from skgenome import tabio
    seeds = [['chr1', '10', '20'], ['chr1', '10', '20', 'g'], ['chr1', '10', '20', '+', 'g'], ['chr1', '10', '20', '-', 'g', 'x'],
             ['chr1:10-20'], ['chr1:10-20 g'], ['chromosome', 'start', 'end'], ['chromosome', 'start', 'end', 'gene', 'log2'],
             ['chr1', 'src', 'exon', '10', '20', '.', '+', '.', 'ID=1'], ['##gff-version 3'], ['##fileformat=VCFv4.2'],
             ['#CHROM', 'POS', 'ID', 'REF'], ['# comment'], ['@HD', 'VN:1'], ['track name=x'], ['browser position x'],
             ['g', 'NM_1', 'chr1', '+', '1', '2', '3', '4', '5', '1,2,', '3,4,'], [''], [' '], ['chr1', '10', '20a'],
             ['chr1', 'a10', '20'], ['chr 1', '10', '20'], ['chr1', '10', '20', '.', 'g h'], ['chr1', '10', '20', '+-', 'g'],
             ['1:2-3'], [':2-3'], ['chr1:-'], ['chr1:a-3'], ['chr.1:2-3'], ['GL000192.1', '1', '2'], ['chr1', '10', ''],
             ['chr1', '', '20'], ['chromosome', 'start', 'ending'], ['chromosomes', 'start', 'end'], ['x', 'chromosome', 'start', 'end']]
    cases = []
    alphabet = 'chr1X:-+.? \t_,#@a09'
    for i in range(n):
        f = list(rng.choice(seeds))
        for _ in range(rng.randint(0, 2)):
            op = rng.random()
            j = rng.randrange(len(f))
            if op < 0.4:
                s = f[j]
                k = rng.randint(0, len(s))
                f[j] = s[:k] + rng.choice(alphabet.replace('\t', '')) + s[k + (1 if rng.random() < 0.5 else 0):]
            elif op < 0.6:
                f.insert(j, rng.choice(['x', '5', '+', '.', '', 'chr2']))
            elif op < 0.8 and len(f) > 1:
                del f[j]
            else:
                f[j] = rng.choice(['10', 'chrX', '-', 'a b', '0,1,', '2'])
        lines = [f]
        if rng.random() < 0.3:
            lines = [rng.choice([[''], ['# c'], ['track t'], ['browser x']])] + lines
        if rng.random() < 0.3:
            lines.append(rng.choice(seeds))
        hint = None
        ext = 'dat'
        if rng.random() < 0.2:
            h = rng.choice(['bed', 'tab', 'text', 'interval', 'gff', 'refflat', 'bam'])
            ext = 'x' + h
            hint = h
        cases.append((hint, ext, lines))
    for i, (hint, ext, lines) in enumerate(cases):
        p = os.path.join(scratch, 'sn%d.%s' % (i % 50, ext))
        with open(p, 'w') as fh:
            for l in lines:
                fh.write('\t'.join(l) + '\n')
        try:
            sn = tabio.sniff_region_format(p)
        except ValueError:
            sn = Err('unrecognized')
        os.remove(p)
        ck.count(['sniff', hint, lines], nontrivial=not isinstance(sn, Err) and sn is not None, cls='sniff:lines')
        P.add('c08_sniff', [hint, lines], 'sniff_region_format (first lines)', {'hint_ext': ext, 'lines': lines}, sn)


def check_keys(ck, P, rng, n):
    from skgenome.chromsort import sorter_chrom
    names = list(BASES) + ['chr' + b for b in BASES] + ['chr', 'CHR', 'chR1', 'cHrX', 'chrchr1', 'chrx', 'chry', 'XY', 'chrXY', '']
    for _ in range(n):
        names.append(gen_name(rng))
    for nm in names:
        k = sorter_chrom(nm)
        ck.count(['key', nm], nontrivial=True, cls='key')
        P.add('c08_key', nm, 'sorter_chrom', {'name': nm}, [k[0], k[1]])
    # the order named in the property text, on the code
    for pre in ('', 'chr'):
        seq = [pre + x for x in ('1', '2', '10', 'X', 'Y', 'M')]
        ks = [sorter_chrom(x) for x in seq]
        if ks != sorted(ks) or len(set(ks)) != 6:
            ck.violation('sorter_chrom does not order %s' % seq, {'names': seq}, code=ks, expected='strictly increasing',
                         clause='C08_natural_order')
    for a in ('1', '7', '22', 'X', 'Y', 'M', '1_gl000191_random', 'Un_gl000211'):
        if sorter_chrom(a) != sorter_chrom('chr' + a):
            ck.violation('chr prefix changes the sort key of %s' % a, {'name': a}, code=sorter_chrom('chr' + a),
                         expected=sorter_chrom(a), clause='C08_natural_order')


def check_labels(ck, P, rng, n):
    from skgenome.rangelabel import from_label, to_label, Region
    seeds = ['chr1:10-20', 'chr1:10-20 g', 'GL000192.1:1-5', 'chr1:-5', 'chr1:1-', ':1-2', 'x', 'chr1:10-20\tg', 'chr1: 1-2',
             '1:2-3  a b', 'chr1_random:100-200 A,B', '.1:2-3', 'a.b.:1-2', 'chr1:0-5', 'chr1:007-9', 'c:1-2-3', 'c:1:2-3']
    texts = list(seeds)
    for _ in range(n):
        s = rng.choice(seeds)
        k = rng.randint(0, len(s))
        texts.append(s[:k] + rng.choice('chr1:-. \tX_') + s[k + rng.randint(0, 1):])
    for _ in range(n):
        c = gen_name(rng)
        s, e = gen_interval(rng)
        lab = to_label(Region(c, s, e))
        exp_lab = '%s:%d-%d' % (c, s + 1, e)
        ck.count(['label', c, s, e], nontrivial=True, cls='label:to_label')
        if lab != exp_lab:
            ck.violation('to_label does not write the 1-based inclusive range', {'region': [c, s, e]}, code=lab,
                         expected=exp_lab, clause='C08_roundtrip_text')
        texts.append(lab)
    for t in texts:
        try:
            r = from_label(t)
            code = [r.chromosome, r.start, r.end, r.gene]
        except ValueError:
            code = Err('Invalid range spec')
        ck.count(['from_label', t], nontrivial=not isinstance(code, Err), cls='label:from_label')
        P.add('c08_label', t, 'from_label', {'text': t}, code)


# ----------------------------------------------------------------------------
# known finding: pandas NA tokens as names / labels

def check_na_tokens(ck, scratch, rng):
    from skgenome import tabio
    cases = [('tab', 'NA', 'g')]                      # canonical case first
    for fmt in ('tab', 'interval'):
        for t in ('nan', 'null', 'None'):
            cases.append((fmt, t, 'g'))
        cases.append((fmt, 'chr1', rng.choice(['NA', 'nan', 'null', 'None', 'n/a'])))
    for i, (fmt, name, gene) in enumerate(cases):
        table = {'cols': ['gene', 'log2'], 'kinds': {'gene': 'str', 'log2': 'float'},
                 'rows': [[name, 1, 5, gene, 0.5], ['chr2', 3, 9, 'h', 0.25]]}
        p = os.path.join(scratch, 'na%d.dat' % i)
        exp, names = expected_rows(table, fmt)
        ck.count(['na-token', fmt, name, gene], nontrivial=True, cls='hazard:na-token')
        try:
            tabio.write(make_array(table), p, fmt)
            got = array_rows(tabio.read(p, fmt), names, table['kinds'])
            bad = oracle_check(exp, got)
        except Exception as e:     # noqa
            got, bad = repr(e)[:160], 'raised %s' % type(e).__name__
        if bad:
            ck.violation('pandas NA token %r as a name/label in a %s file: %s' % (name if name in NA_TOKENS else gene, fmt, bad),
                         {'table': table, 'fmt': fmt}, sig='C08-na-token-name', code=got, expected=exp,
                         clause='C08_roundtrip_' + fmt)
        if os.path.exists(p):
            os.remove(p)


# ----------------------------------------------------------------------------

def load_corpus():
    p = os.path.join(vlib.VERIF, 'corpus', 'c08.json')
    if not os.path.exists(p):
        return []
    return json.load(open(p))['tables']


def run(ck, scratch):
    ck.rule = ('region tables: 1..5 chromosome names (numbers incl. 999/1000/1001, X/Y/M, alt/random/Un/hap contigs, dotted '
               'accessions, leading zeros, with/without chr/Chr/CHR prefix, mixed) x rows with coordinates biased to digit-length '
               'boundaries up to 3e8, duplicate and near-duplicate rows, labels with , . - and numeric-looking labels, 0..3 extra '
               'int/float columns (floats from 5e-324 to 1.8e308), input order unsorted/shuffled/reversed/string-sorted; every table '
               'written and read as tab, bed3, bed4, interval, text (+ read_auto for word-character names), re-written twice; 1..4 SEG '
               'samples through export_seg + import-seg + tabio seg writer; hand-made BED(3..9 col, track/browser lines)/interval(@ '
               'header)/text(labels)/GFF/VCF/Picard files; single-line sniffing with mutated lines and extension hints; sorter_chrom '
               'and from_label/to_label streams. Preconditions (format-inherent): names do not start with track/browser, start with a '
               'word character, labels non-empty without blanks/tabs; pandas NA tokens are the open finding C08-na-token-name (own '
               'stream). non-trivial = more than one row / recognised line; distinct by case hash')
    ck.unproved_remainder = [
        'pandas read_csv / re tokenisation of real bytes into fields and %.6g / strtod float formatting (6-significant-digit equality and '
        'byte-identical re-writing of float columns are checked on the code only)',
        'equivalence of the hand-written matchers of Model/Sniff.v with the regexes (no regex semantics in Coq): tied by '
        'C08_sniff_sources (source strings) and by model-vs-code comparison on mutated first lines',
        'that pandas lexsort/mergesort computes the stable (key, start, end) sort of Model/Chromsort.v: by correspondence '
        '(C08_sort proves the model sort is a sorted, stable, idempotent permutation)',
        'GenomicArray.sort_columns (column order of the re-written tab file) is compared by column name, not modelled',
        'tabio.write(..., "seg") with enumerated chromosome ids, GFF attribute -> gene extraction and pre-sort, VCF end computation, '
        'pysam record.start = POS-1 and the Picard float columns: model-vs-code / oracle comparison only (start conversion is in '
        'C08_conventions_*)',
        'digits_val (the decimal value used by C08_natural_order_numeric) is the usual left fold; its agreement with print_Z is not '
        'stated as a theorem',
    ]
    if not ck.build_status.get('driver_ok'):
        raise RuntimeError('model driver unavailable')
    quick = ck.tier == 'quick'
    P = Pending()
    # generated offsets against the property's table of conventions
    offs = dict((k, v) for k, v in vlib.model_call('c08_offsets', None))
    want = {'bed': 0, 'tab': 0, 'interval': -1, 'text': -1, 'gff': -1, 'seg': -1, 'vcf-simple': -1, 'vcf-sites': -1, 'picardhs': -1}
    ck.extra['generated_read_offsets'] = offs
    if offs != want:
        ck.tie_break('generated reader offsets differ from the property\'s conventions', {'offsets': offs}, code=offs, model=want)
    # corpus first
    for i, t in enumerate(load_corpus()):
        check_table(ck, P, scratch, t['table'], 'corpus%d' % i, word_only=t.get('word_only', False), corpus=True)
    check_na_tokens(ck, scratch, ck.rng)
    ntab = 200 if quick else 4000
    for i in range(ntab):
        wo = ck.rng.random() < 0.5
        check_table(ck, P, scratch, gen_table(ck.rng, word_only=wo), 't%d' % i, word_only=wo)
        if i % 500 == 499:
            P.flush(ck)
    nseg = 25 if quick else 700
    for i in range(nseg):
        samples, probes = gen_seg_case(ck.rng)
        check_seg(ck, P, scratch, samples, 'seg%d' % i, probes)
        check_seg_raw(ck, P, scratch, ck.rng, i)
    for i in range(150 if quick else 4000):
        check_readers(ck, P, scratch, ck.rng, i)
    check_sniff_lines(ck, P, scratch, ck.rng, 600 if quick else 20000)
    check_keys(ck, P, ck.rng, 300 if quick else 10000)
    check_labels(ck, P, ck.rng, 300 if quick else 10000)
    P.flush(ck)


def replay(ck, body):
    """re-run a saved table case: ./check C08 --replay evidence/replays/C08-....json"""
    case = body.get('case') or {}
    ck.build_status = {'driver_ok': os.path.exists(vlib.DRIVER)}
    scratch = vlib.scratch_dir('C08')
    P = Pending()
    if 'table' in case:
        check_table(ck, P, scratch, case['table'], 'replay', word_only=True)
    elif 'samples' in case:
        samples = [(s, t) for s, t in case['samples']]
        check_seg(ck, P, scratch, samples, 'replay', 'probes' in samples[0][1]['cols'])
    else:
        print('replay: case kind not re-runnable standalone; stored content:')
        print(json.dumps(body, indent=1)[:3000])
    P.flush(ck)
    vlib.rm_scratch(scratch)
    for kind, what, path in ck.violations:
        print('VIOLATION property=C08 %s' % what)
    for what, path in ck.tie_breaks:
        print('TIE-BREAK property=C08 %s' % what)
    return 1 if (ck.violations or ck.tie_breaks) else 0
