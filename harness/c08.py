"""C08 -- every format is read to 0-based half-open, sorted; write-then-read is lossless.

Real files are written with skgenome.tabio.write / cnvlib.export.export_seg and read
back with tabio.read / read_auto / seg.parse_seg (+ the import-seg path).  Three
comparisons per case:
  * direct oracle (independent Python): expected 0-based coordinates, names, labels,
    integer columns identical, floats equal in their 6-significant-digit rendering,
    natural chromosome order, stable; second write byte-identical;
  * model (extracted Coq, Model/Formats.v, Sniff.v, Chromsort.v) on the file's fields;
  * across formats: the same regions from every file.
pandas / re tokenisation and %.6g are on the code's side (monitored here, not proved)."""
import os, json, io, math, argparse
import vlib
from vlib import Err

LEVEL = 'proof'

# pandas' default NA tokens: an *open known finding* (sig C08-na-token-name) when used
# as a chromosome name or label in tab / interval / SEG files; kept out of the main streams
NA_TOKENS = {'', '#N/A', '#N/A N/A', '#NA', '-1.#IND', '-1.#QNAN', '-NaN', '-nan', '1.#IND', '1.#QNAN',
             '<NA>', 'N/A', 'NA', 'NULL', 'NaN', 'None', 'n/a', 'nan', 'null'}

WRITE_FMTS = ('tab', 'bed3', 'bed4', 'interval', 'text')


# ----------------------------------------------------------------------------
# generators

BASES = ['1', '2', '3', '9', '10', '11', '19', '20', '21', '22', '100', '999', '1000', '1001', '2000', '3000',
         'X', 'Y', 'M', 'MT', 'W', 'Z', 'x', 'y', 'm', 'Un', 'EBV', 'I', 'II', 'III', 'IV', '2L', '2R', '3h',
         'Un_gl000211', 'Un_KI270302v1', '1_gl000191_random', '11_KI270721v1_random', '6_GL000250v2_alt',
         '6_apd_hap1', '17_ctg5_hap1', 'GL000192.1', 'KI270728.1', 'NC_007605', 'hs37d5', 'scaffold_12',
         'scaffold12.1', 'contig_1.2.3', '01', '007', '1e5', '1.0', '1_000', 'X1', 'Y_2', '1X', '0', '00']


def gen_name(rng, word_only=False):
    r = rng.random()
    if r < 0.45:
        b = rng.choice(BASES[:34])
    elif r < 0.85:
        b = rng.choice(BASES)
    else:
        alpha = 'ABCXYMabcxyz0123456789__' + ('' if word_only else '..')
        b = ''.join(rng.choice(alpha) for _ in range(rng.randint(1, 8)))
        if b[0] == '.' or b[0] == '_' and rng.random() < 0.5:
            b = 'c' + b
    p = rng.choice(['', '', 'chr', 'chr', 'chr', 'Chr', 'CHR'])
    nm = p + b
    if word_only:
        nm = nm.replace('.', '_')
    if nm in NA_TOKENS or nm.lower().startswith(('track', 'browser')) or nm[0] == '.':
        return 'chr' + nm.strip('.') + '7'
    return nm


GENES = ['TP53', 'BRCA1,BRCA2', 'HLA-A', 'orf1.2', '-', 'Antitarget', 'gene-1,gene-2', '7SK', '007', '1e5', '1.0',
         'a', 'A.B-C,D', 'CDKN2A', 'x,y,z', '-,-', '.', '+', '1', '22', 'rs123', 'ENSG00000141510.11', 'NM_000546.5',
         'C1orf112', 'tRNA-Ala-AGC-1-1', 'True', 'inf']


def gen_gene(rng):
    if rng.random() < 0.7:
        g = rng.choice(GENES)
    else:
        g = ''.join(rng.choice('ABCdef0123456789,.-_') for _ in range(rng.randint(1, 12)))
    if g in NA_TOKENS:
        g = 'g' + g
    return g


COORDS = [0, 1, 8, 9, 10, 11, 98, 99, 100, 999, 1000, 9999, 10000, 99999, 999999, 9999999, 99999999,
          123456789, 199999999, 299999998, 299999999]


def gen_interval(rng):
    s = rng.choice(COORDS) if rng.random() < 0.5 else rng.randint(0, rng.choice([50, 5000, 300000000 - 1]))
    ln = rng.choice([1, 1, 2, 10, 100, 1000, rng.randint(1, 100000), rng.randint(1, 300000000)])
    e = min(300000000, s + ln)
    if e <= s:
        s = e - 1
    return s, e


def gen_float(rng):
    r = rng.random()
    if r < 0.35:
        return rng.uniform(-5, 5)
    if r < 0.5:
        return float(rng.randint(-6, 6))
    if r < 0.6:
        return rng.choice([0.0, 1.0, -1.0, 0.5, 0.1, 1e-7, 123456.5, 1234567.0, 999999.5, 0.0001234565, 1e22, 1e-5, 1e16])
    if r < 0.8:
        return rng.uniform(-1, 1) * 10.0 ** rng.randint(-30, 30)
    if r < 0.9:
        x = round(rng.uniform(-100, 100), rng.randint(0, 8))
        return x if x != 0 else 0.0
    if r < 0.95:
        return rng.uniform(-1, 1) * 10.0 ** rng.randint(-300, 300)
    return rng.choice([5e-324, 1.7976931348623157e308, -2.2250738585072014e-308, 2.5e-310])


def gen_table(rng, word_only=False, seg=False, maxrows=14):
    """-> dict(cols=[extra column names], kinds={col: 'str'|'int'|'float'}, rows=[[chrom,start,end,extras...]])"""
    nchrom = rng.randint(1, 5)
    chroms = [gen_name(rng, word_only) for _ in range(nchrom)]
    if rng.random() < 0.3:      # same chromosome with and without the prefix
        c = rng.choice(chroms)
        chroms.append(c[3:] if c.lower().startswith('chr') and len(c) > 3 else 'chr' + c)
        if chroms[-1] in NA_TOKENS:
            chroms.pop()
    if seg and rng.random() < 0.2:
        # a genome whose chromosomes are all plain integers, some above 22 (cattle 1..29, chicken 1..28, ...):
        # SEG files of such genomes carry the names as they are (no X/Y/M re-coding of 23/24/25)
        chroms = [str(x) for x in rng.sample(range(1, 30), nchrom)]
        if rng.random() < 0.7:
            chroms[rng.randrange(len(chroms))] = str(rng.choice([23, 24, 25]))
        chroms = list(dict.fromkeys(chroms))
    if seg:
        cols = ['gene', 'log2'] + (['probes'] if rng.random() < 0.6 else [])
    else:
        k = rng.random()
        if k < 0.15:
            cols = []
        elif k < 0.3:
            cols = ['gene']
        elif k < 0.4:
            cols = ['gene', 'strand']
        else:
            cols = ['gene', 'log2'] + rng.sample(['depth', 'weight', 'probes', 'gc', 'cn', 'baf'], rng.randint(0, 3))
            cols = cols[:2] + sorted(cols[2:]) if rng.random() < 0.7 else cols
    kinds = {'gene': 'str', 'strand': 'str', 'probes': 'int', 'cn': 'int'}
    n = rng.choice([1, 1, 2, 3, 5, rng.randint(1, maxrows)])
    rows = []
    for _ in range(n):
        if rows and rng.random() < 0.25:
            base = list(rng.choice(rows))          # duplicate / near-duplicate row
            m = rng.random()
            if m < 0.4:
                rows.append(base)
                continue
            c, s, e = base[0], base[1], base[2]
            if m < 0.6:
                e = min(300000000, e + rng.choice([1, 10]))
            elif m < 0.8:
                s2, e2 = gen_interval(rng)
                s, e = s, max(s + 1, min(e2, 300000000))
            else:
                c = rng.choice(chroms)
        else:
            c = rng.choice(chroms)
            s, e = gen_interval(rng)
        ex = []
        for col in cols:
            kd = kinds.get(col, 'float')
            if col == 'gene':
                ex.append(gen_gene(rng))
            elif col == 'strand':
                ex.append(rng.choice(['+', '-', '.']))
            elif kd == 'int':
                ex.append(rng.choice([0, 1, 2, 5, 100, rng.randint(0, 100000)]))
            else:
                ex.append(gen_float(rng))
        rows.append([c, s, e] + ex)
    o = rng.random()
    if o < 0.3:
        pass                      # generation order (unsorted)
    elif o < 0.6:
        rng.shuffle(rows)
    elif o < 0.75:
        rows.sort(key=lambda r: (r[0], r[1], r[2]))
        rows.reverse()
    else:
        rows.sort(key=lambda r: (r[0], r[1], r[2]))    # plain string order (not the natural one)
    # a float column needs at least one float value, or pandas types it as integer on reading
    return {'cols': cols, 'kinds': {c: kinds.get(c, 'float') for c in cols}, 'rows': rows}


# ----------------------------------------------------------------------------
# the direct oracle: natural order, 6-digit float equality (independent of the code and of the model)

def g6(x):
    return '%.6g' % x


def nat_class(name):
    n = name[3:] if name[:3].lower() == 'chr' else name
    if n and all('0' <= ch <= '9' for ch in n):
        return ('num', int(n))
    if n == 'X':
        return ('sex', 0)
    if n == 'Y':
        return ('sex', 1)
    if n == 'M':
        return ('mito', 0)
    return None


def nat_cmp(a, b):
    """-1/0/1 where the property text fixes the order of two chromosome names, None where it does not:
    numeric names by value; numbers (below 1000, the key's X/Y slot) < X < Y < M; identical names equal."""
    if a == b:
        return 0
    ca, cb = nat_class(a), nat_class(b)
    if ca is None or cb is None:
        return None
    order = {'num': 0, 'sex': 1, 'mito': 2}
    if ca[0] == cb[0]:
        return (ca[1] > cb[1]) - (ca[1] < cb[1])
    for x in (ca, cb):
        if x[0] == 'num' and x[1] >= 1000:
            return None
    return -1 if order[ca[0]] < order[cb[0]] else 1


def tok(v, kind):
    if kind == 'str':
        return str(v)
    if kind == 'int':
        return str(int(v))
    return g6(float(v))


def expected_rows(table, fmt):
    """rows the reader must return for `fmt` (as token tuples, input order), and the column names"""
    cols, kinds = table['cols'], table['kinds']
    out = []
    for r in table['rows']:
        d = dict(zip(cols, r[3:]))
        if fmt in ('bed3', 'text'):
            ex = [] if fmt == 'bed3' else ['-']
        elif fmt == 'bed4':
            ex = [str(d.get('gene', '-'))]
        elif fmt == 'interval':
            ex = [str(d.get('gene', '-')), str(d.get('strand', '+'))]
        elif fmt == 'seg':
            ex = ['-', tok(d['log2'], 'float')] + ([tok(d['probes'], 'int')] if 'probes' in d else [])
        else:
            ex = [tok(d[c], kinds[c]) for c in cols]
        out.append((r[0], int(r[1]), int(r[2])) + tuple(ex))
    names = {'bed3': [], 'text': ['gene'], 'bed4': ['gene'], 'interval': ['gene', 'strand'],
             'seg': ['gene', 'log2'] + (['probes'] if 'probes' in cols else [])}.get(fmt, list(cols))
    return out, names


def oracle_check(inp, out):
    """inp: expected rows in input order, out: rows the code returned (token tuples). -> None or message"""
    if sorted(inp) != sorted(out):
        return 'rows read back are not the rows written (coordinates / names / integer columns / 6-digit numbers)'
    n = len(out)
    for i in range(n):
        a = out[i]
        for j in range(i + 1, n):
            b = out[j]
            c = nat_cmp(a[0], b[0])
            if c is None:
                continue
            if c > 0:
                return 'rows not in natural chromosome order: %s before %s' % (a[0], b[0])
            if c == 0 and (a[1], a[2]) > (b[1], b[2]):
                return 'rows of %s/%s not sorted by start then end' % (a[0], b[0])
    # stability: rows with the same (name, start, end) keep their input order
    groups_in, groups_out = {}, {}
    for r in inp:
        groups_in.setdefault(r[:3], []).append(r)
    for r in out:
        groups_out.setdefault(r[:3], []).append(r)
    if groups_in != groups_out:
        return 'rows with equal coordinates changed their relative order'
    return None


# ----------------------------------------------------------------------------
# running the code

def file_fields(path):
    with open(path, newline='') as fh:
        text = fh.read()
    lines = text.split('\n')
    if lines and lines[-1] == '':
        lines.pop()
    return [l.split('\t') for l in lines]


def make_array(table, cls=None, sample_id=None):
    from skgenome import GenomicArray as GA
    import pandas as pd
    cls = cls or GA
    cols = ['chromosome', 'start', 'end'] + table['cols']
    df = pd.DataFrame.from_records([tuple(r) for r in table['rows']], columns=cols)
    for c, k in table['kinds'].items():
        if k == 'float':
            df[c] = df[c].astype(float)
    return cls(df, {'sample_id': sample_id} if sample_id else None)


def array_rows(garr, names, kinds):
    """code table -> token tuples (chrom, start, end, tokens of `names`)"""
    import numpy as np
    df = garr.data
    out = []
    cols = [df[c].tolist() for c in ['chromosome', 'start', 'end'] + list(names)]
    for vals in zip(*cols):
        ex = []
        for nm, v in zip(names, vals[3:]):
            k = kinds.get(nm, 'str')
            if isinstance(v, float) and v != v:
                ex.append('NaN')
            elif k == 'float' or isinstance(v, float):
                ex.append(g6(float(v)))
            else:
                ex.append(str(v))
        c = vals[0]
        out.append((c if isinstance(c, str) else repr(c), int(vals[1]), int(vals[2])) + tuple(ex))
    return out


def mrows(rows):
    """token tuples -> model rows"""
    return [[r[0], r[1], r[2], list(r[3:])] for r in rows]


def from_mrows(v):
    return [tuple([r[0], r[1], r[2]] + list(r[3])) for r in v]


class Pending:
    """model requests collected during the run, evaluated in batches at the end"""
    def __init__(self):
        self.q = {}

    def add(self, entry, arg, what, case, code, conv=None):
        self.q.setdefault(entry, []).append((arg, what, case, code, conv))

    def flush(self, ck):
        cnt = ck.extra.setdefault('model_comparisons', {})
        for entry, items in self.q.items():
            res = vlib.model_batch_parallel(entry, [it[0] for it in items])
            cnt[entry] = cnt.get(entry, 0) + len(items)
            for (arg, what, case, code, conv), m in zip(items, res):
                mm = m
                if conv and not isinstance(m, Err):
                    try:
                        mm = conv(m)
                    except Exception as e:     # noqa
                        mm = Err('convert: %r' % (e,))
                if mm != code:
                    ck.tie_break('model differs from the code: ' + what, case, code=code, model=mm, entry=entry)
        self.q = {}


def model_write_arg(fmt, table, rows_sorted=None):
    cols, kinds = table['cols'], table['kinds']
    rows = rows_sorted if rows_sorted is not None else table['rows']
    out = []
    for r in rows:
        d = dict(zip(cols, r[3:]))
        if fmt in ('bed3', 'text'):
            ex = []
        elif fmt == 'bed4':
            ex = [str(d['gene'])] if 'gene' in d else []
        elif fmt == 'interval':
            ex = ([str(d['gene'])] if 'gene' in d else []) + ([str(d['strand'])] if 'strand' in d else [])
        else:
            ex = [tok(d[c], kinds[c]) for c in cols]
        out.append([r[0], int(r[1]), int(r[2]), ex])
    return [fmt, list(cols) if fmt == 'tab' else [], out]


def check_table(ck, P, scratch, table, tag, word_only=False, corpus=False):
    """one region table x every writer format: write, read, read_auto, write again."""
    from skgenome import tabio
    case = {'table': table, 'tag': tag}
    garr = make_array(table)
    kinds = table['kinds']
    regions = {}
    nontriv = len(table['rows']) > 1
    for fmt in WRITE_FMTS:
        sub = dict(case, fmt=fmt)
        p1 = os.path.join(scratch, '%s.%s.dat' % (tag, fmt))
        exp, names = expected_rows(table, fmt)
        try:
            tabio.write(garr, p1, fmt)
            f1 = file_fields(p1)
            back = tabio.read(p1, fmt)
            got = array_rows(back, names, kinds)
        except Exception as e:    # noqa
            ck.violation('write/read as %s raised %s: %s' % (fmt, type(e).__name__, str(e)[:120]), sub,
                         code=repr(e)[:200], expected=exp, clause='C08_roundtrip_' + fmt)
            continue
        ck.count(['table', fmt, table], nontrivial=nontriv, cls='roundtrip:%s' % fmt)
        regions[fmt] = [r[:3] for r in got]
        msg = oracle_check(exp, got)
        if msg:
            ck.violation('%s round trip: %s' % (fmt, msg), sub, code=got, expected_rows_in_input_order=exp,
                         file=f1[:8], clause='C08_roundtrip_%s/C08_sorted' % fmt)
            continue
        # extra columns must not appear or vanish (tab carries all of them)
        if fmt == 'tab' and sorted(back.data.columns) != sorted(['chromosome', 'start', 'end'] + table['cols']):
            ck.violation('tab round trip changed the set of columns', sub, code=list(back.data.columns),
                         expected=table['cols'], clause='C08_roundtrip_tab')
            continue
        # second write: the bytes of writing the read table again are stable, and equal the first
        # file when the table was written in sorted order
        p2 = p1 + '.2'
        p3 = p1 + '.3'
        try:
            tabio.write(back, p2, fmt)
            back2 = tabio.read(p2, fmt)
            tabio.write(back2, p3, fmt)
            b2, b3 = open(p2, 'rb').read(), open(p3, 'rb').read()
        except Exception as e:    # noqa
            ck.violation('second write/read as %s raised %s' % (fmt, type(e).__name__), sub, code=repr(e)[:200],
                         expected='no error', clause='C08_rewrite')
            continue
        if b2 != b3:
            ck.violation('%s: writing the re-read table again does not produce identical bytes' % fmt, sub,
                         code=b3.decode('latin-1')[:400], expected=b2.decode('latin-1')[:400], clause='C08_rewrite')
            continue
        # model: writer output, reader output, rewritten file
        P.add('c08_write', model_write_arg(fmt, table), '%s writer fields' % fmt, sub, f1)
        if fmt == 'tab':
            def conv(m, names=names):
                hdr, rows = m
                idx = [hdr.index(nm) for nm in names]
                return [tuple([r[0], r[1], r[2]] + [r[3][i] for i in idx]) for r in rows]
            P.add('c08_read', [fmt, f1], 'tab reader rows', sub, got, conv)
        else:
            P.add('c08_read', [fmt, f1], '%s reader rows' % fmt, sub, got, from_mrows)
        f2 = file_fields(p2)
        srt = sorted_input(table, got, fmt)
        if srt is not None:
            if fmt == 'tab':
                # columns are re-ordered by GenomicArray.sort_columns (not modelled): compare as dicts
                hdr2 = f2[0]
                want = model_write_arg(fmt, table, srt)
                P.add('c08_write', want, 'tab second write (rows)', sub,
                      [dict(zip(hdr2, l)) for l in f2[1:]],
                      lambda m: [dict(zip(m[0], l)) for l in m[1:]])
            else:
                P.add('c08_write', model_write_arg(fmt, table, srt), '%s second write' % fmt, sub, f2)
        # first file == second file when the input was already in the order read back and columns in class order
        if srt is not None and srt == [list(r) for r in table['rows']] and \
                (fmt != 'tab' or table['cols'] == sorted(table['cols'])):
            b1 = open(p1, 'rb').read()
            ck.cls('rewrite:sorted-input-bytes')
            if b1 != b2:
                ck.violation('%s: sorted table, write -> read -> write changed the bytes' % fmt, sub,
                             code=b2.decode('latin-1')[:400], expected=b1.decode('latin-1')[:400], clause='C08_rewrite')
        # auto-detection
        want_fmt = 'bed' if fmt in ('bed3', 'bed4') else fmt
        try:
            sn = tabio.sniff_region_format(p1)
        except ValueError:
            sn = Err('unrecognized')
        P.add('c08_sniff', [None, f1], 'sniff_region_format on a %s file' % fmt, sub, sn)
        if word_only and table['rows']:
            ck.cls('sniff:word-names')
            if sn != want_fmt:
                ck.violation('auto-detection classifies a %s file as %r' % (fmt, sn), sub, code=sn, expected=want_fmt,
                             first_line=f1[:1], clause='C08_sniff')
                continue
            try:
                auto = tabio.read_auto(p1)
                common = [nm for nm in names if nm in auto.data.columns]
                ga = array_rows(auto, common, kinds)
                gb = [r[:3] + tuple(r[3 + names.index(nm)] for nm in common) for r in got]
            except Exception as e:   # noqa
                ck.violation('read_auto on a %s file raised %s' % (fmt, type(e).__name__), sub, code=repr(e)[:200],
                             expected=got, clause='C08_sniff')
                continue
            if ga != gb:
                ck.violation('read_auto on a %s file does not yield the table of the %s parser' % (fmt, fmt), sub,
                             code=ga, expected=gb, clause='C08_sniff')
        for p in (p1, p2, p3):
            if os.path.exists(p):
                os.remove(p)
    # across formats: the same regions, in the same order, from every file
    keys = [f for f in WRITE_FMTS if f in regions]
    for f in keys[1:]:
        if regions[f] != regions[keys[0]]:
            ck.violation('regions read from the %s file differ from those of the %s file' % (f, keys[0]), case,
                         code=regions[f], expected=regions[keys[0]], clause='C08_conventions')
            break


def sorted_input(table, got, fmt):
    """the input rows (full rows) re-ordered as the code read them back; None if ambiguous"""
    exp, _ = expected_rows(table, fmt)
    pools = {}
    for r, e in zip(table['rows'], exp):
        pools.setdefault(e, []).append(list(r))
    out = []
    for g in got:
        if not pools.get(g):
            return None
        out.append(pools[g].pop(0))
    return out


# ----------------------------------------------------------------------------
# SEG: export seg -> import-seg

def check_seg(ck, P, scratch, samples, tag, probes):
    """samples: [(sample_id, table with gene, log2 [, probes])]"""
    from skgenome import tabio
    from cnvlib import export
    from cnvlib.cnary import CopyNumArray as CNA
    from cnvlib.cmdutil import read_cna, write_dataframe
    case = {'samples': [[sid, t] for sid, t in samples], 'tag': tag}
    d = os.path.join(scratch, tag)
    os.makedirs(d, exist_ok=True)
    fnames = []
    try:
        for sid, t in samples:
            fn = os.path.join(d, sid + '.cns')
            tabio.write(make_array(t, CNA, sid), fn)
            fnames.append(fn)
        seg_df = export.export_seg(fnames, chrom_ids=False)
        segfile = os.path.join(d, 'all.seg')
        write_dataframe(segfile, seg_df)
        fseg = file_fields(segfile)
        outdir = os.path.join(d, 'imp')
        os.makedirs(outdir, exist_ok=True)
        # the body of _cmd_import_seg
        from cnvlib import commands
        commands._cmd_import_seg(argparse.Namespace(segfile=segfile, chromosomes=None, prefix=None,
                                                    from_log10=False, output_dir=outdir))
        parsed = [(sid, df) for sid, df in tabio.seg.parse_seg(segfile)]
    except Exception as e:     # noqa
        ck.violation('export seg / import-seg raised %s: %s' % (type(e).__name__, str(e)[:120]), case, code=repr(e)[:200],
                     expected='no error', clause='C08_roundtrip_seg')
        return
    ck.count(['seg', case['samples']], nontrivial=True, cls='roundtrip:seg:%d-samples' % len(samples))
    kinds = {'gene': 'str', 'log2': 'float', 'probes': 'int'}
    model_samples = []
    ok = True
    for sid, t in samples:
        exp, names = expected_rows(t, 'seg')
        try:
            back = read_cna(os.path.join(outdir, sid + '.cns'))
            got = array_rows(back, names, kinds)
        except Exception as e:    # noqa
            ck.violation('reading the imported %s.cns raised %s' % (sid, type(e).__name__), case, code=repr(e)[:200],
                         expected=exp, clause='C08_roundtrip_seg')
            ok = False
            break
        msg = oracle_check(exp, got)
        if msg:
            ck.violation('export seg -> import-seg, sample %s: %s' % (sid, msg), case, code=got,
                         expected_rows_in_input_order=exp, seg_file=fseg[:8], clause='C08_roundtrip_seg')
            ok = False
            break
        # writing the imported segments again: identical bytes
        p2 = os.path.join(outdir, sid + '.2.cns')
        tabio.write(back, p2)
        back2 = read_cna(p2)
        p3 = os.path.join(outdir, sid + '.3.cns')
        tabio.write(back2, p3)
        if open(p2, 'rb').read() != open(p3, 'rb').read():
            ck.violation('imported sample %s: second write differs in bytes' % sid, case, code=open(p3).read()[:300],
                         expected=open(p2).read()[:300], clause='C08_rewrite')
            ok = False
            break
        model_samples.append([sid, got])
    if not ok:
        return
    # model: SEG writer on the sorted samples (export_seg reads the .cns files, i.e. sorted), parser, import
    def seg_extras(rows):
        return [[r[0], r[1], r[2], ([r[5]] if probes else []) + [r[4]]] for r in rows]   # file order: probes, mean
    P.add('c08_write_seg', [probes, False, [[sid, seg_extras(rows)] for sid, rows in model_samples]],
          'export_seg fields', case, fseg)
    code_parsed = []
    for sid, df in parsed:
        rows = []
        for rec in df.itertuples(index=False):
            dd = rec._asdict()
            rows.append((dd['chromosome'], int(dd['start']), int(dd['end'])) +
                        ((str(int(dd['probes'])),) if probes else ()) + (g6(dd['log2']), dd['gene']))
        code_parsed.append([sid, rows])
    P.add('c08_parse_seg', fseg, 'parse_seg samples', case, code_parsed,
          lambda m: [[sid, from_mrows(rows)] for sid, rows in m])
    P.add('c08_import_seg', fseg, 'import-seg + read back', case,
          [[sid, [r[:3] + ((r[5],) if probes else ()) + (r[4], r[3]) for r in rows]] for sid, rows in model_samples],
          lambda m: [[sid, from_mrows(rows)] for sid, rows in m])
    # tabio.write(..., "seg"): chromosome names enumerated; coordinates and values must survive
    sid, t = samples[0]
    try:
        arr = make_array(t, CNA, sid)
        p = os.path.join(d, 'ids.seg')
        tabio.write(arr, p, 'seg')
        fids = file_fields(p)
        back = tabio.read(p, 'seg')
        got = sorted((int(s), int(e), g6(v)) for s, e, v in zip(back.data['start'], back.data['end'], back.data['log2']))
    except Exception as e:    # noqa
        ck.violation('tabio.write/read as seg raised %s' % type(e).__name__, case, code=repr(e)[:200], expected='no error',
                     clause='C08_roundtrip_seg')
        return
    ck.count(['seg-ids', sid, t], nontrivial=True, cls='roundtrip:seg-enumerated')
    want = sorted((int(r[1]), int(r[2]), g6(dict(zip(t['cols'], r[3:]))['log2'])) for r in t['rows'])
    if got != want:
        ck.violation('tabio seg writer/reader: coordinates or values changed', case, code=got, expected=want,
                     clause='C08_roundtrip_seg')
        return
    exp, names = expected_rows(t, 'seg')
    P.add('c08_write_seg', [probes, True, [[sid, seg_extras(exp)]]], 'tabio seg writer (enumerated chromosomes)', case, fids)
    def conv_seg(m):
        out = []
        for r in from_mrows(m):
            ex = r[3:]                      # file extras ++ [gene]: [probes,] log2, gene
            out.append(r[:3] + ((ex[2], ex[1], ex[0]) if probes else (ex[1], ex[0])))
        return out
    P.add('c08_read', ['seg', fids], 'tabio seg reader', case, array_rows(back, names, kinds), conv_seg)
    check_seg_ids(ck, P, d, samples, model_samples, probes, fnames, case)


def first_appearance(names):
    out = []
    for x in names:
        if x not in out:
            out.append(x)
    return out


def check_seg_ids(ck, P, d, samples, model_samples, probes, fnames, case):
    """export seg --enumerate-chroms -> import-seg -c <inverse map>: every sample comes back with its names.
    model_samples: [sid, rows as read from the .cns (sorted)], i.e. what export_seg sees."""
    from skgenome import tabio
    from cnvlib import export, commands
    from cnvlib.cmdutil import read_cna, write_dataframe
    kinds = {'gene': 'str', 'log2': 'float', 'probes': 'int'}
    first_rows = model_samples[0][1]
    order = first_appearance([r[0] for r in first_rows])
    inv = {str(i + 1): nm for i, nm in enumerate(order)}
    cover = all(r[0] in order for sid, rows in model_samples for r in rows)
    try:
        seg_df = export.export_seg(fnames, chrom_ids=True)
        segfile = os.path.join(d, 'ids-all.seg')
        write_dataframe(segfile, seg_df)
        fseg = file_fields(segfile)
        ids_code = tabio.seg.create_chrom_ids(read_cna(fnames[0]).data)
        parsed = [(sid, df) for sid, df in tabio.seg.parse_seg(segfile, chrom_names=dict(inv))]
        outdir = os.path.join(d, 'imp-ids')
        os.makedirs(outdir, exist_ok=True)
        commands._cmd_import_seg(argparse.Namespace(segfile=segfile, chromosomes=','.join('%s:%s' % kv for kv in inv.items()),
                                                    prefix=None, from_log10=False, output_dir=outdir))
    except Exception as e:     # noqa
        ck.violation('export seg (enumerated chromosomes) / import-seg -c raised %s: %s' % (type(e).__name__, str(e)[:120]), case,
                     code=repr(e)[:200], expected='no error', clause='C08_roundtrip_seg_ids')
        return
    ck.count(['seg-ids-roundtrip', case['samples']], nontrivial=True,
             cls='roundtrip:seg-ids:%s' % ('first-sample-covers' if cover else 'extra-chromosomes'))
    # the written ids: i+1 for the i-th distinct name of the first sample
    want_ids = {nm: i + 1 for i, nm in enumerate(order) if str(i + 1) != nm}
    if dict(ids_code) != want_ids:
        ck.violation('create_chrom_ids does not number the chromosomes in order of first appearance', case, code=dict(ids_code),
                     expected=want_ids, clause='C08_seg_ids')
        return
    def seg_extras(rows):
        return [[r[0], r[1], r[2], ([r[5]] if probes else []) + [r[4]]] for r in rows]
    P.add('c08_seg_ids', [[r[0], r[1], r[2], []] for r in first_rows], 'create_chrom_ids and its inverse', case,
          [[[k, str(v)] for k, v in ids_code.items()], [[k, v] for k, v in inv.items()]])
    P.add('c08_write_seg', [probes, True, [[sid, seg_extras(rows)] for sid, rows in model_samples]],
          'export_seg fields (enumerated chromosomes)', case, fseg)
    code_parsed = []
    for sid, df in parsed:
        rows = []
        for rec in df.itertuples(index=False):
            dd = rec._asdict()
            rows.append((dd['chromosome'], int(dd['start']), int(dd['end'])) +
                        ((str(int(dd['probes'])),) if probes else ()) + (g6(dd['log2']), dd['gene']))
        code_parsed.append([sid, rows])
    pairs = [[k, v] for k, v in inv.items()]
    P.add('c08_parse_seg_names', [pairs, '', fseg], 'parse_seg with the inverse name map', case, code_parsed,
          lambda m: [[sid, from_mrows(rows)] for sid, rows in m])
    imported = []
    for sid, t in samples:
        exp, names = expected_rows(t, 'seg')
        try:
            got = array_rows(read_cna(os.path.join(outdir, sid + '.cns')), names, kinds)
        except Exception as e:    # noqa
            ck.violation('reading the imported %s.cns (enumerated chromosomes) raised %s' % (sid, type(e).__name__), case,
                         code=repr(e)[:200], expected=exp, clause='C08_roundtrip_seg_ids')
            return
        if cover:
            msg = oracle_check(exp, got)
            if msg:
                ck.violation('export seg --enumerate-chroms -> import-seg -c, sample %s: %s' % (sid, msg), case, code=got,
                             expected_rows_in_input_order=exp, seg_file=fseg[:8], name_map=inv, clause='C08_roundtrip_seg_ids')
                return
        imported.append([sid, [r[:3] + ((r[5],) if probes else ()) + (r[4], r[3]) for r in got]])
    P.add('c08_import_seg_names', [pairs, '', fseg], 'import-seg -c + read back', case, imported,
          lambda m: [[sid, from_mrows(rows)] for sid, rows in m])
    # a prefix on top (import-seg -p): names come back with it
    try:
        pre = [(sid, df) for sid, df in tabio.seg.parse_seg(segfile, chrom_names=dict(inv), chrom_prefix='chr')]
    except Exception as e:     # noqa
        ck.violation('parse_seg with chrom_prefix raised %s' % type(e).__name__, case, code=repr(e)[:200], expected='no error',
                     clause='C08_roundtrip_seg_ids')
        return
    code_pre = [[sid, [(c, int(s), int(e)) for c, s, e in zip(df['chromosome'], df['start'], df['end'])]] for sid, df in pre]
    P.add('c08_parse_seg_names', [pairs, 'chr', fseg], 'parse_seg with name map and prefix', case, code_pre,
          lambda m: [[sid, [r[:3] for r in from_mrows(rows)]] for sid, rows in m])


def gen_seg_case(rng):
    k = rng.randint(1, 4)
    probes = rng.random() < 0.6
    sids = rng.sample(['S1', 'tumor', 'normal_2', 'T-01', 'P7.a', 'x', '17', '007', 'Sample_B'], k)
    samples = []
    for sid in sids:
        t = gen_table(rng, seg=True, maxrows=8)
        if probes and 'probes' not in t['cols']:
            t['cols'].append('probes')
            t['kinds']['probes'] = 'int'
            for r in t['rows']:
                r.append(rng.randint(0, 5000))
        if not probes and 'probes' in t['cols']:
            i = 3 + t['cols'].index('probes')
            t['cols'].remove('probes')
            del t['kinds']['probes']
            for r in t['rows']:
                del r[i]
        # log2 column must be float-typed on reading the .cns: keep at least one non-integral value
        j = 3 + t['cols'].index('log2')
        if all(float(r[j]) == int(float(r[j])) for r in t['rows'] if abs(float(r[j])) < 1e15):
            t['rows'][0][j] = 0.25
        samples.append((sid, t))
    if len(samples) > 1 and rng.random() < 0.65:
        # the enumeration of chromosomes is made from the first sample: let it cover the others
        t0 = samples[0][1]
        have = {r[0] for r in t0['rows']}
        for sid, t in samples[1:]:
            for r in t['rows']:
                if r[0] not in have:
                    have.add(r[0])
                    s, e = gen_interval(rng)
                    row = [r[0], s, e]
                    for col in t0['cols']:
                        row.append({'gene': 'x', 'log2': 0.125, 'probes': 3}[col])
                    t0['rows'].insert(rng.randint(0, len(t0['rows'])), row)
    return samples, probes


def check_seg_raw(ck, P, scratch, rng, i):
    """hand-made SEG files: interleaved samples, unsorted rows, leading lines without tabs."""
    from skgenome import tabio
    probes = rng.random() < 0.5
    sids = rng.sample(['A', 'B', 'C9', 's_4', '12'], rng.randint(1, 4))
    lines = []
    for _ in range(rng.randint(0, 2)):
        lines.append([rng.choice(['WARNING: something', 'Loading', 'x'])])
    lines.append(['ID', 'chrom', 'loc.start', 'loc.end'] + (['num.mark'] if probes else []) + ['seg.mean'])
    exp = {}
    order = []
    for _ in range(rng.randint(1, 10)):
        sid = rng.choice(sids)
        c = gen_name(rng)
        s, e = gen_interval(rng)
        v = g6(gen_float(rng))
        pr = [str(rng.randint(0, 999))] if probes else []
        lines.append([sid, c, str(s + 1), str(e)] + pr + [v])
        if sid not in exp:
            exp[sid] = []
            order.append(sid)
        exp[sid].append((c, s, e) + tuple(pr) + (g6(float(v)), '-'))
    p = os.path.join(scratch, 'raw%d.seg' % i)
    with open(p, 'w') as fh:
        for l in lines:
            fh.write('\t'.join(l) + '\n')
    case = {'seg_lines': lines}
    try:
        got = []
        for sid, df in tabio.seg.parse_seg(p):
            rows = []
            for rec in df.itertuples(index=False):
                dd = rec._asdict()
                rows.append((dd['chromosome'], int(dd['start']), int(dd['end'])) +
                            ((str(int(dd['probes'])),) if probes else ()) + (g6(dd['log2']), dd['gene']))
            got.append([sid, rows])
    except Exception as e:   # noqa
        ck.violation('parse_seg raised %s on a well-formed SEG file' % type(e).__name__, case, code=repr(e)[:200],
                     expected=[[s, exp[s]] for s in order], clause='C08_conventions')
        return
    ck.count(['seg-raw', lines], nontrivial=len(order) > 1, cls='read:seg-raw')
    want = [[s, exp[s]] for s in order]
    if got != want:
        ck.violation('parse_seg: samples / 0-based coordinates differ from the file', case, code=got, expected=want,
                     clause='C08_conventions')
        return
    P.add('c08_parse_seg', lines, 'parse_seg on a hand-made file', case, got,
          lambda m: [[sid, from_mrows(rows)] for sid, rows in m])
    os.remove(p)


# ----------------------------------------------------------------------------
# readers of formats written by other tools: BED variants, interval header, text with labels,
# GFF, VCF, Picard per-target

def write_lines(p, lines):
    with open(p, 'w') as fh:
        for l in lines:
            fh.write('\t'.join(l) + '\n')


# ---- BED variants: 3..12 columns, header lines, labels ending in blanks, the generic writer

def check_bed_file(ck, P, scratch, rng, i):
    from skgenome import tabio
    n = rng.randint(1, 8)
    ncol = rng.choice([3, 4, 5, 6, 6, 7, 8, 9, 12])
    fmt = rng.choice(['bed', 'bed', 'bed3', 'bed4'])
    lines, exp = [], []
    hdr = rng.random()
    if hdr < 0.25:
        lines.append(['browser position chr1:1-100'])
    if 0.15 < hdr < 0.55:
        lines.append([rng.choice(['track name=x description="y z"', 'track', 'track type=bedGraph name="a"', 'tracks are fun'])])
    for _ in range(n):
        c = gen_name(rng)
        s, e = gen_interval(rng)
        g = gen_gene(rng)
        pad_g = rng.choice(['', '', '', ' ', '  ', ' \x0b'])
        st = rng.choice(['+', '-', '.'])
        pad_s = rng.choice(['', '', '', ' '])
        full = [c, str(s), str(e), g + pad_g, str(rng.randint(0, 1000)), st + pad_s, str(s), str(e),
                rng.choice(['0,0,0', '255,0,0', '0']), str(rng.randint(1, 3)), '10,20,', '0,30,']
        lines.append(full[:ncol])
        gene = g if ncol >= 4 else '-'              # str.rstrip() removes the padding
        strand = st if ncol >= 6 else '.'
        exp.append((c, s, e) + {'bed': (gene, strand), 'bed3': (), 'bed4': (gene,)}[fmt])
    names = {'bed': ['gene', 'strand'], 'bed3': [], 'bed4': ['gene']}[fmt]
    if rng.random() < 0.25:      # a second track: reading stops there
        lines.append([rng.choice(['track name=second', 'track'])])
        lines.append(['chr1', '5', '6', 'ignored', '0', '+'][:max(3, min(ncol, 6))])
    p = os.path.join(scratch, 'bed%d.bed' % i)
    write_lines(p, lines)
    case = {'format': fmt, 'lines': lines}
    try:
        got = array_rows(tabio.read(p, fmt), names, {})
    except Exception as e:    # noqa
        ck.violation('reading a well-formed %d-column BED file as %s raised %s: %s' % (ncol, fmt, type(e).__name__, str(e)[:100]),
                     case, code=repr(e)[:200], expected=exp, clause='C08_conventions_bed/C08_bed_columns')
        return
    ck.count(['read-bed', fmt, lines], nontrivial=True, cls='read:bed:%d-columns' % ncol)
    msg = oracle_check(exp, got)
    if msg:
        ck.violation('%s reader on a %d-column BED file: %s' % (fmt, ncol, msg), case, code=got,
                     expected_rows_in_input_order=exp, clause='C08_bed_columns/C08_bed_headers')
        return
    P.add('c08_read', [fmt, lines], '%s reader rows (%d columns)' % (fmt, ncol), case, got, from_mrows)
    # detection (names of word characters only are claimed); a 5-column row can be an interval-list row
    if all(all(ch.isalnum() or ch == '_' for ch in l[0]) for l in lines if len(l) >= 3):
        try:
            sn = tabio.sniff_region_format(p)
        except ValueError:
            sn = Err('unrecognized')
        ck.cls('sniff:foreign-bed')
        if sn != 'bed' and ncol != 5:
            ck.violation('auto-detection classifies a %d-column BED file as %r' % (ncol, sn), case, code=sn, expected='bed',
                         clause='C08_sniff')
            return
        P.add('c08_sniff', [None, lines], 'sniff_region_format on a BED file', case, sn)
    os.remove(p)


def check_bed_malformed(ck, P, scratch, rng, i):
    """edge stream: lines read_bed rejects (comment lines, too few columns, non-numeric coordinates,
    a second browser line): the code raises ValueError('Bad line'), the model answers parse error"""
    from skgenome import tabio
    good = ['chr1', '10', '20', 'g', '0', '+']
    bad = rng.choice([['# comment'], ['chr1', '10'], ['chr1'], ['chr1', 'x', '20'], ['chr1', '10', '2e1'],
                      ['browser position chr2:1-2'], ['chr1', '', '20'], ['chr1', '10', '20.0'], ['chr1', '1 0', '20']])
    lines = [good[:rng.choice([3, 4, 6])] for _ in range(rng.randint(0, 2))]
    lines.insert(rng.randint(0, len(lines)), bad)
    if bad[0].startswith('browser') and lines[0] is bad:
        lines.insert(0, ['browser position chr1:1-100'])
    p = os.path.join(scratch, 'badbed%d.bed' % i)
    write_lines(p, lines)
    try:
        code = array_rows(tabio.read(p, 'bed'), ['gene', 'strand'], {})
    except ValueError:
        code = Err('parse')
    ck.count(['bad-bed', lines], nontrivial=isinstance(code, Err), cls='edge:bed-bad-line')
    P.add('c08_read', ['bed', lines], 'read_bed on a file with a bad line', {'lines': lines}, code, from_mrows)
    os.remove(p)


def check_bed_writer(ck, P, scratch, rng, i):
    """tabio.write(fmt='bed'): every column written; read back as bed: name = column 4, strand = column 6"""
    from skgenome import tabio
    shape = rng.choice(['bed3', 'bed4', 'bed6', 'bed6', 'other'])
    t = gen_table(rng, maxrows=8)
    rows = []
    for r in t['rows']:
        c, s, e = r[:3]
        g, st = gen_gene(rng), rng.choice(['+', '-', '.'])
        if shape == 'bed3':
            rows.append([c, s, e])
        elif shape == 'bed4':
            rows.append([c, s, e, g])
        elif shape == 'bed6':
            rows.append([c, s, e, g, rng.randint(0, 1000), st])
        else:
            rows.append([c, s, e, g, st, rng.randint(0, 9), rng.choice(['x', 'y.z'])])
    cols = {'bed3': [], 'bed4': ['gene'], 'bed6': ['gene', 'score', 'strand'], 'other': ['gene', 'strand', 'n', 'tag']}[shape]
    table = {'cols': cols, 'kinds': {c: ('int' if c in ('score', 'n') else 'str') for c in cols}, 'rows': rows}
    case = {'table': table, 'fmt': 'bed', 'shape': shape}
    p = os.path.join(scratch, 'wbed%d.bed' % i)
    try:
        tabio.write(make_array(table), p, 'bed')
        f1 = file_fields(p)
        got = array_rows(tabio.read(p, 'bed'), ['gene', 'strand'], {})
    except Exception as e:   # noqa
        ck.violation('write/read as bed raised %s: %s' % (type(e).__name__, str(e)[:100]), case, code=repr(e)[:200],
                     expected='no error', clause='C08_roundtrip_bed')
        return
    ck.count(['write-bed', table], nontrivial=len(rows) > 1, cls='roundtrip:bed:%s' % shape)
    exp = []
    for r in rows:
        ex = [str(x) for x in r[3:]]
        exp.append((r[0], r[1], r[2], ex[0] if len(ex) >= 1 else '-', ex[2] if len(ex) >= 3 else '.'))
    msg = oracle_check(exp, got)
    if msg:
        ck.violation('generic BED writer/reader (%s): %s' % (shape, msg), case, code=got, expected_rows_in_input_order=exp,
                     file=f1[:6], clause='C08_roundtrip_bed/C08_roundtrip_bed6')
        return
    P.add('c08_write_bed', [[r[0], r[1], r[2], [str(x) for x in r[3:]]] for r in rows], 'generic BED writer fields', case, f1)
    P.add('c08_read', ['bed', f1], 'read_bed on the generic writer\'s file', case, got, from_mrows)
    os.remove(p)


# ---- GFF: gene label from the attribute column, type filter, pre-sort

GFF_KEYS = ['ID', 'Parent', 'Name', 'gene_id', 'gene_name', 'gene', 'transcript_id', 'biotype', 'Note', 'Alias']
GFF_TAGS = [(None, None), (None, None), (None, None), ('ID', ['ID']), ('Parent', ['Parent']),
            ('(gene_name|gene_id)', ['gene_name', 'gene_id']), ('gene_name', ['gene_name']), ('(Alias|Name)', ['Alias', 'Name'])]
GFF_ODD = ['Name="AB C";gene=zz', 'Name=;x;', 'ID=x;my_gene=Y', 'Name="', 'Name=ab"c;d', 'Name="q"x;Name=zz', 'Name= x;gene=kk',
           '', 'Name=', 'Name', 'gene', 'gene=', 'gene =x', 'gene  x', 'Name=x ;ID=2', 'Name="x";', 'Name=x";', 'Name="x',
           'xName=y', 'Name=a;Name=b', 'gene_id=1;gene=2', 'gene=2;gene_id=1', 'NAME=x', 'Name="";gene=q', 'Name=""', 'Name=";"',
           ';Name=z', 'Name=x;;', 'gene_name "A B"; gene_id "C"', 'gene_id "";gene_name "x"', 'Name=\x0bq', 'Name=x\x0b']


def gen_gff_value(rng):
    if rng.random() < 0.6:
        v = gen_gene(rng)
    else:
        v = ''.join(rng.choice('ABCxyz0189,.-_:|/') for _ in range(rng.randint(1, 10)))
    return v.replace('"', '').replace(';', '').replace(' ', '').replace('=', '') or 'v'


def gen_gff_attr(rng):
    """-> (attribute text, [(key, value)] in order) for the structured styles; (text, None) for odd ones"""
    r = rng.random()
    if r < 0.12:
        return rng.choice(GFF_ODD), None
    k = rng.randint(0, 4)
    keys = rng.sample(GFF_KEYS, k)
    if rng.random() < 0.3 and keys:
        keys.append(rng.choice(keys))            # the same key twice: the first wins
    pairs = [(key, gen_gff_value(rng)) for key in keys]
    style = rng.choice(['gff3', 'gff3', 'gtf', 'gff3q', 'mixed'])
    parts = []
    for key, v in pairs:
        s = style if style != 'mixed' else rng.choice(['gff3', 'gtf', 'gff3q'])
        parts.append({'gff3': '%s=%s', 'gtf': '%s "%s"', 'gff3q': '%s="%s"'}[s] % (key, v))
    sep = '; ' if style == 'gtf' else rng.choice([';', ';', '; '])
    text = sep.join(parts)
    if parts and (style == 'gtf' or rng.random() < 0.2):
        text += ';'
    return text, pairs


def check_gff_file(ck, P, scratch, rng, i):
    from skgenome import tabio
    n = rng.randint(1, 9)
    tag_src, tag_list = rng.choice(GFF_TAGS)
    types = ['gene', 'exon', 'CDS', 'mRNA']
    keep = rng.choice([None, None, 'exon', 'gene', 'CDS', 'tRNA', ''])
    tags = tag_list or DEFAULT_GFF_TAGS
    lines = []
    if rng.random() < 0.5:
        lines.append(['##gff-version 3'])
    rows, structured = [], True
    chroms = [gen_name(rng) for _ in range(rng.randint(1, 3))]
    if rng.random() < 0.45:
        c0 = rng.choice(chroms)
        chroms.append(c0[3:] if c0.lower().startswith('chr') and len(c0) > 3 else 'chr' + c0)
    for _ in range(n):
        if rows and rng.random() < 0.3:
            c, s, e = rng.choice(rows)[:3]         # same region again (gene / mRNA / exon on one span)
            if rng.random() < 0.5:                 # ... spelled with / without the prefix: the pre-sort by name decides
                alt_c = c[3:] if c.lower().startswith('chr') and len(c) > 3 else 'chr' + c
                if alt_c in chroms:
                    c = alt_c
        else:
            c = rng.choice(chroms)
            s, e = gen_interval(rng)
        ty = rng.choice(types)
        st = rng.choice('+-.?')
        attr, pairs = gen_gff_attr(rng)
        if pairs is None:
            structured = False
            gene = None
        else:
            gene = next((v for k, v in pairs if k in tags), '-')
            if tag_list:                       # alternatives are tried in order at one position only; the
                pass                           # leftmost position wins, so the first pair with a listed key
        lines.append([c, rng.choice(['src', 'HAVANA', '.']), ty, str(s + 1), str(e), rng.choice(['.', '.', '0.5', '12', '1e-5']),
                      st, rng.choice('012.'), attr])
        rows.append((c, s, e, gene, st, ty))
        if rng.random() < 0.1:
            lines.append(['# a comment line'])
    p = os.path.join(scratch, 'gff%d.gff' % i)
    write_lines(p, lines)
    kw = {}
    if tag_src is not None:
        kw['tag'] = tag_src
    if keep is not None:
        kw['keep_type'] = keep
    case = {'format': 'gff', 'lines': lines, 'tag': tag_src, 'keep_type': keep}
    try:
        arr = tabio.read(p, 'gff', **kw)
        got = array_rows(arr, ['gene', 'strand', 'type'], {})
    except Exception as e:    # noqa
        ck.violation('reading a well-formed GFF file raised %s: %s' % (type(e).__name__, str(e)[:100]), case,
                     code=repr(e)[:200], expected=rows, clause='C08_conventions_gff')
        return
    ck.count(['read-gff', lines, tag_src, keep], nontrivial=True,
             cls='read:gff:%s%s' % ('structured' if structured else 'odd-attributes', ':keep_type' if keep else ''))
    kept = [r for r in rows if not keep or r[5] == keep]
    if structured:
        msg = oracle_check(kept, got)
        what = 'coordinates / gene label (value of the first matching tag) / strand / type'
    else:
        msg = oracle_check([r[:3] + r[4:] for r in kept], [g[:3] + g[4:] for g in got])
        what = 'coordinates / strand / type'
    if msg:
        ck.violation('gff reader (%s): %s' % (what, msg), case, code=got, expected_rows_in_input_order=kept,
                     clause='C08_conventions_gff/C08_gff_gene/C08_gff_table')
        return
    P.add('c08_read_gff', [list(tags), keep, lines], 'gff reader rows (gene, strand, type)', case, got, from_mrows)
    if tag_src is None and not keep:
        P.add('c08_read', ['gff', lines], 'gff reader regions', case, [g[:3] for g in got], lambda m: [tuple(x) for x in m])
    if all(all(ch.isalnum() or ch == '_' for ch in r[0]) for r in rows):
        try:
            sn = tabio.sniff_region_format(p)
        except ValueError:
            sn = Err('unrecognized')
        ck.cls('sniff:foreign-gff')
        if sn != 'gff':
            ck.violation('auto-detection classifies a gff file as %r' % (sn,), case, code=sn, expected='gff', clause='C08_sniff')
            return
        P.add('c08_sniff', [None, lines], 'sniff_region_format on a gff file', case, sn)
    os.remove(p)


def check_gff_genes(ck, P, rng, n):
    """the extraction alone: attribute text -> label, code's regex vs the model's matcher"""
    import re
    import pandas as pd
    texts = [c['text'] for c in load_corpus_extra('gff_attributes')] + list(GFF_ODD)
    for _ in range(n):
        t, _p = gen_gff_attr(rng)
        if rng.random() < 0.4 and t:
            k = rng.randint(0, len(t))
            t = t[:k] + rng.choice(['"', ';', ' ', '=', 'gene', 'Name=', 'x', '""', ' "']) + t[k + rng.randint(0, 1):]
        texts.append(t)
    for t in texts:
        tag_src, tag_list = rng.choice(GFF_TAGS)
        tags = tag_list or DEFAULT_GFF_TAGS
        src = tag_src or '(' + '|'.join(DEFAULT_GFF_TAGS) + ')'
        rx = re.compile(src + GFF_GENE_TAIL)
        m = pd.Series([t], dtype='str').str.extract(rx, expand=True)['gene'].fillna('-').astype('str').tolist()[0]
        ck.count(['gff-gene', t, src], nontrivial=m != '-', cls='gff:gene-extraction')
        P.add('c08_gff_gene', [list(tags), t], 'gene label of a GFF attribute column', {'attribute': t, 'tag': src}, m)


DEFAULT_GFF_TAGS = ['Name', 'gene_id', 'gene_name', 'gene']
GFF_GENE_TAIL = r'[= ]"?(?P<gene>\S+?)"?(;|$)'


# ---- VCF: starts and ends of the three readers

VCF_HEADER = ['##fileformat=VCFv4.2',
              '##INFO=<ID=END,Number=1,Type=Integer,Description="End position">',
              '##INFO=<ID=CIEND,Number=2,Type=Integer,Description="ci">',
              '##INFO=<ID=SVTYPE,Number=1,Type=String,Description="type">',
              '##INFO=<ID=DP,Number=1,Type=Integer,Description="depth">',
              '##ALT=<ID=DEL,Description="Deletion">', '##ALT=<ID=DUP,Description="Duplication">',
              '##ALT=<ID=NON_REF,Description="any">']


def check_vcf_file(ck, P, scratch, rng, i):
    from skgenome import tabio
    kind = rng.choice(['vcf-simple', 'vcf-sites', 'vcf'])
    n = rng.randint(1, 8)
    chroms = [gen_name(rng, word_only=True) for _ in range(rng.randint(1, 3))]
    lines = [[h] for h in VCF_HEADER] + [['##contig=<ID=%s>' % c] for c in sorted(set(chroms))]
    lines.append(['#CHROM', 'POS', 'ID', 'REF', 'ALT', 'QUAL', 'FILTER', 'INFO'])
    recs = []
    for _ in range(n):
        c = rng.choice(chroms)
        pos = rng.choice([1, 2, 10, 99, 100, 1000]) if rng.random() < 0.4 else rng.randint(1, 250000000)
        ref = ''.join(rng.choice('ACGT') for _ in range(rng.choice([1, 1, 1, 2, 3, 5])))
        a = rng.random()
        if a < 0.45:
            alts = [rng.choice([x for x in 'ACGT' if x != ref[0]]) + ''.join(rng.choice('ACGT') for _ in range(rng.choice([0, 0, 0, 1, 3])))]
        elif a < 0.65:
            alts = [rng.choice('ACGT') * rng.randint(1, 4), rng.choice('ACGT') + 'T' * rng.randint(0, 2)]
            if alts[0] == alts[1] or ref in alts:
                alts = [ref[0] + 'GG', ref[0] + 'C']
        elif a < 0.8:
            alts = [rng.choice(['<DEL>', '<DUP>'])]
        elif a < 0.9:
            alts = [rng.choice('ACGT'), '<NON_REF>'] if rng.random() < 0.6 else ['<NON_REF>']
            if alts[0] == ref:
                alts[0] = ref + 'A'
        else:
            alts = []
        end = pos + len(ref) - 1 + rng.randint(0, 5000)
        info = rng.choice(['.', '.', 'DP=10', 'END=%d' % end, 'SVTYPE=DEL;END=%d' % end, 'DP=7;END=%d;CIEND=-5,5' % end,
                           'SVTYPE=DUP;END=%d;DP=3' % end])
        if alts and alts[0].startswith('<D') and 'END' not in info:
            info = 'SVTYPE=%s;END=%d' % (alts[0][1:4], end)
        lines.append([c, str(pos), '.', ref, ','.join(alts) if alts else '.', '.', 'PASS', info])
        recs.append((c, pos, ref, alts, info))
    p = os.path.join(scratch, 'v%d.vcf' % i)
    write_lines(p, lines)
    case = {'format': kind, 'lines': lines}
    try:
        arr = tabio.read(p, kind)
        got = [(c, int(s), int(e), r, a) for c, s, e, r, a in
               zip(arr.data['chromosome'], arr.data['start'], arr.data['end'], arr.data['ref'], arr.data['alt'])]
    except Exception as e:    # noqa
        ck.violation('reading a well-formed VCF file as %s raised %s: %s' % (kind, type(e).__name__, str(e)[:100]), case,
                     code=repr(e)[:200], expected='records', clause='C08_conventions_vcf')
        return
    ck.count(['read-vcf', kind, lines], nontrivial=True, cls='read:%s' % kind)
    # direct oracle: the property fixes the start (POS - 1) and the order
    if kind == 'vcf':
        exp_starts = sorted((c, pos - 1) for c, pos, ref, alts, info in recs for a in alts if a != '<NON_REF>')
    else:
        exp_starts = sorted((c, pos - 1) for c, pos, ref, alts, info in recs)
    bad = sorted((g[0], g[1]) for g in got) != exp_starts
    if not bad:
        for a, b in zip(got, got[1:]):
            cmpv = nat_cmp(a[0], b[0])
            if cmpv is not None and (cmpv > 0 or (cmpv == 0 and (a[1], a[2]) > (b[1], b[2]))):
                bad = True
    if bad:
        ck.violation('%s reader: 0-based starts / order differ from the file' % kind, case, code=got, expected=exp_starts,
                     clause='C08_conventions_vcf/C08_sorted')
        return
    conv = lambda m: [r[:3] + (r[3], r[4]) for r in from_mrows(m)]     # noqa
    if kind == 'vcf':
        import pysam
        ends = []
        with pysam.VariantFile(p) as vf:
            for rec in vf:
                ends.append(int(rec.info['END']) if 'END' in rec.info else None)
        data = [l for l in lines if not l[0].startswith('#')]
        if len(ends) != len(data):
            raise RuntimeError('pysam returned %d records for %d data lines' % (len(ends), len(data)))
        ck.extra.setdefault('pysam_info_contains_END', {}).setdefault(str(any(e is not None for e in ends)), 0)
        ck.extra['pysam_info_contains_END'][str(any(e is not None for e in ends))] += 1
        P.add('c08_read_vcfio', [[e, l] for e, l in zip(ends, data)], 'vcf (pysam) reader rows: start, end, ref, alt', case, got, conv)
    else:
        P.add('c08_read2', [kind, lines], '%s reader rows: start, end, ref, alt' % kind, case, got, conv)
        P.add('c08_read', [kind, lines], '%s reader starts' % kind, case, sorted((g[0], g[1]) for g in got),
              lambda m: sorted(tuple(x) for x in m))
    try:
        sn = tabio.sniff_region_format(p)
    except ValueError:
        sn = Err('unrecognized')
    ck.cls('sniff:foreign-%s' % kind)
    if sn != 'vcf':
        ck.violation('auto-detection classifies a VCF file as %r' % (sn,), case, code=sn, expected='vcf', clause='C08_sniff')
        return
    P.add('c08_sniff', [None, lines], 'sniff_region_format on a VCF file', case, sn)
    os.remove(p)


def check_vcf_ends(ck, P, rng, n):
    """parse_end_from_info + set_ends on single records, incl. the INFO strings int() rejects"""
    import pandas as pd
    from skgenome.tabio import vcfsimple
    infos = ['.', '', 'END=5', 'END=5;', 'DP=1;END=77', 'END=77;DP=1', 'CIEND=-5,5;END=500', 'SVTYPE=DEL;END=500;CIEND=-5,5',
             'END=', 'END=;', 'END=x', 'END=-1', 'END=-7', 'END=007', 'XEND=9', 'END=3;END=4', 'end=5', 'END', 'DP=2;END', 'END=1e3']
    fixed = [(c['start'], c['ref'], c['alt'], c['info']) for c in load_corpus_extra('vcf_records')]
    for k in range(n + len(fixed)):
        if k < len(fixed):
            start, ref, alt, info = fixed[k]
        else:
            info = rng.choice(infos)
            if rng.random() < 0.3:
                j = rng.randint(0, len(info))
                info = info[:j] + rng.choice(['E', ';', '=', '1', 'END=', '-']) + info[j:]
            ref = 'ACGTA'[:rng.randint(1, 5)]
            alt = rng.choice(['A', 'AC', 'ACGTAC', 'A,CCCC', '<DEL>', '.'])
            start = rng.choice([0, 9, 99, 12345])
        try:
            e = vcfsimple.parse_end_from_info(info)
            tbl = pd.DataFrame({'start': [start], 'end': [e], 'ref': [ref], 'alt': [alt]})
            vcfsimple.set_ends(tbl)
            code = int(tbl['end'].iloc[0])
        except ValueError:
            code = Err('int')
        ck.count(['vcf-end', start, ref, alt, info], nontrivial=not isinstance(code, Err), cls='vcf:simple-end')
        P.add('c08_vcf_simple_end', [start, ref, alt, info], 'parse_end_from_info + set_ends',
              {'start': start, 'ref': ref, 'alt': alt, 'info': info}, code)


# ---- Picard per-target table, every column

def check_picard_file(ck, P, scratch, rng, i):
    from skgenome import tabio
    n = rng.randint(1, 8)
    lines = [['chrom', 'start', 'end', 'length', 'name', '%gc', 'mean_coverage', 'normalized_coverage']]
    exp = []
    for _ in range(n):
        c = gen_name(rng)
        s, e = gen_interval(rng)
        g = gen_gene(rng)
        gc, cov, norm = g6(rng.random()), g6(abs(gen_float(rng))), g6(abs(rng.uniform(0, 3)))
        lines.append([c, str(s + 1), str(e), str(e - s), g, gc, cov, norm])
        exp.append((c, s, e, g, g6(float(gc)), g6(float(cov)), g6(float(norm))))
    p = os.path.join(scratch, 'hs%d.dat' % i)
    write_lines(p, lines)
    case = {'format': 'picardhs', 'lines': lines}
    names = ['gene', 'gc', 'depth', 'ratio']
    try:
        arr = tabio.read(p, 'picardhs')
        got = array_rows(arr, names, {'gc': 'float', 'depth': 'float', 'ratio': 'float'})
    except Exception as e:    # noqa
        ck.violation('reading a well-formed Picard per-target table raised %s: %s' % (type(e).__name__, str(e)[:100]), case,
                     code=repr(e)[:200], expected=exp, clause='C08_conventions_picard')
        return
    ck.count(['read-picardhs', lines], nontrivial=True, cls='read:picardhs')
    msg = oracle_check(exp, got)
    if msg:
        ck.violation('picardhs reader: %s' % msg, case, code=got, expected_rows_in_input_order=exp, clause='C08_conventions_picard')
        return
    if 'length' in arr.data.columns:
        ck.violation('picardhs reader kept the length column', case, code=list(arr.data.columns), expected='no length column',
                     clause='C08_conventions_picard')
        return
    P.add('c08_read2', ['picardhs', lines], 'picardhs reader rows (all columns)', case, got,
          lambda m: [r[:4] + tuple(g6(float(x)) for x in r[4:]) for r in from_mrows(m)])
    P.add('c08_read', ['picardhs', lines], 'picardhs reader rows', case, [g[:4] for g in got], from_mrows)
    # writer: coordinates 1-based, length = end - start, name
    p2 = p + '.2'
    try:
        tabio.write(arr, p2, 'picardhs')
        f2 = file_fields(p2)
    except Exception as e:    # noqa
        ck.violation('writing a Picard per-target table raised %s' % type(e).__name__, case, code=repr(e)[:200], expected='no error',
                     clause='C08_roundtrip_picardhs')
        return
    want = [[g[0], str(g[1] + 1), str(g[2]), str(g[2] - g[1]), g[3]] for g in got]
    if [l[:5] for l in f2[1:]] != want or f2[0] != lines[0]:
        ck.violation('picardhs writer: header / 1-based start / length / name differ', case, code=f2[:6], expected=[lines[0]] + want[:5],
                     clause='C08_roundtrip_picardhs')
        return
    P.add('c08_write', ['picardhs', [], [[g[0], g[1], g[2], [g[3]]] for g in got]], 'picardhs writer coordinate fields', case,
          [l[:5] for l in f2[1:]])
    os.remove(p)
    os.remove(p2)


def check_readers(ck, P, scratch, rng, i):
    from skgenome import tabio
    kind = rng.choice(['bed', 'bed', 'interval', 'text', 'gff', 'gff', 'vcf-simple', 'vcf-sites', 'picardhs', 'vcf', 'bed-writer',
                       'bed-bad'])
    if kind == 'bed':
        return check_bed_file(ck, P, scratch, rng, i)
    if kind == 'bed-bad':
        return check_bed_malformed(ck, P, scratch, rng, i)
    if kind == 'bed-writer':
        return check_bed_writer(ck, P, scratch, rng, i)
    if kind == 'gff':
        return check_gff_file(ck, P, scratch, rng, i)
    if kind.startswith('vcf'):
        return check_vcf_file(ck, P, scratch, rng, i)
    if kind == 'picardhs':
        return check_picard_file(ck, P, scratch, rng, i)
    n = rng.randint(1, 8)
    regs = []
    for _ in range(n):
        c = gen_name(rng)
        s, e = gen_interval(rng)
        regs.append((c, s, e, gen_gene(rng)))
    lines, exp = [], []
    fmt = kind
    if kind == 'interval':
        if rng.random() < 0.7:
            lines.append(['@HD', 'VN:1.4', 'SO:unsorted'])
            lines.append(['@SQ', 'SN:chr1', 'LN:249250621'])
        for (c, s, e, g) in regs:
            st = rng.choice(['+', '-'])
            lines.append([c, str(s + 1), str(e), st, g])
            exp.append((c, s, e, g, st))
        names = ['gene', 'strand']
    else:
        for (c, s, e, g) in regs:
            m = rng.random()
            if m < 0.4:
                lines.append(['%s:%d-%d' % (c, s + 1, e)])
                exp.append((c, s, e, '-'))
            elif m < 0.7:
                lines.append(['%s:%d-%d%s%s' % (c, s + 1, e, rng.choice([' ', '  ']), g)])
                exp.append((c, s, e, g))
            else:
                lines.append(['%s:%d-%d' % (c, s + 1, e), g])     # tab before the label
                exp.append((c, s, e, g))
        names = ['gene']
    p = os.path.join(scratch, 'rd%d.dat' % i)
    write_lines(p, lines)
    case = {'format': fmt, 'lines': lines}
    try:
        got = array_rows(tabio.read(p, fmt), names, {})
    except Exception as e:    # noqa
        ck.violation('reading a well-formed %s file raised %s: %s' % (fmt, type(e).__name__, str(e)[:100]), case,
                     code=repr(e)[:200], expected=exp, clause='C08_conventions')
        return
    ck.count(['read', fmt, lines], nontrivial=True, cls='read:%s' % kind)
    msg = oracle_check(exp, got)
    if msg:
        ck.violation('%s reader: %s' % (fmt, msg), case, code=got, expected_rows_in_input_order=exp, clause='C08_conventions')
        return
    P.add('c08_read', [fmt, lines], '%s reader rows' % fmt, case, got, from_mrows)
    # auto-detection of foreign files (names of word characters only are claimed)
    if all(all(ch.isalnum() or ch == '_' for ch in r[0]) for r in regs):
        try:
            sn = tabio.sniff_region_format(p)
        except ValueError:
            sn = Err('unrecognized')
        ck.cls('sniff:foreign-%s' % kind)
        if sn != kind:
            ck.violation('auto-detection classifies a %s file as %r' % (kind, sn), case, code=sn, expected=kind,
                         clause='C08_sniff')
            return
        P.add('c08_sniff', [None, lines], 'sniff_region_format on a %s file' % kind, case, sn)
    os.remove(p)


# ----------------------------------------------------------------------------
# sniffing of single lines (model vs code), chromosome keys, labels

def check_sniff_lines(ck, P, scratch, rng, n):
    from skgenome import tabio
    seeds = [['chr1', '10', '20'], ['chr1', '10', '20', 'g'], ['chr1', '10', '20', '+', 'g'], ['chr1', '10', '20', '-', 'g', 'x'],
             ['chr1:10-20'], ['chr1:10-20 g'], ['chromosome', 'start', 'end'], ['chromosome', 'start', 'end', 'gene', 'log2'],
             ['chr1', 'src', 'exon', '10', '20', '.', '+', '.', 'ID=1'], ['##gff-version 3'], ['##fileformat=VCFv4.2'],
             ['#CHROM', 'POS', 'ID', 'REF'], ['# comment'], ['@HD', 'VN:1'], ['track name=x'], ['browser position x'],
             ['g', 'NM_1', 'chr1', '+', '1', '2', '3', '4', '5', '1,2,', '3,4,'], [''], [' '], ['chr1', '10', '20a'],
             ['chr1', 'a10', '20'], ['chr 1', '10', '20'], ['chr1', '10', '20', '.', 'g h'], ['chr1', '10', '20', '+-', 'g'],
             ['1:2-3'], [':2-3'], ['chr1:-'], ['chr1:a-3'], ['chr.1:2-3'], ['GL000192.1', '1', '2'], ['chr1', '10', ''],
             ['chr1', '', '20'], ['chromosome', 'start', 'ending'], ['chromosomes', 'start', 'end'], ['x', 'chromosome', 'start', 'end']]
    cases = []
    alphabet = 'chr1X:-+.? \t_,#@a09'
    for i in range(n):
        f = list(rng.choice(seeds))
        for _ in range(rng.randint(0, 2)):
            op = rng.random()
            j = rng.randrange(len(f))
            if op < 0.4:
                s = f[j]
                k = rng.randint(0, len(s))
                f[j] = s[:k] + rng.choice(alphabet.replace('\t', '')) + s[k + (1 if rng.random() < 0.5 else 0):]
            elif op < 0.6:
                f.insert(j, rng.choice(['x', '5', '+', '.', '', 'chr2']))
            elif op < 0.8 and len(f) > 1:
                del f[j]
            else:
                f[j] = rng.choice(['10', 'chrX', '-', 'a b', '0,1,', '2'])
        lines = [f]
        if rng.random() < 0.3:
            lines = [rng.choice([[''], ['# c'], ['track t'], ['browser x']])] + lines
        if rng.random() < 0.3:
            lines.append(rng.choice(seeds))
        hint = None
        ext = 'dat'
        if rng.random() < 0.2:
            h = rng.choice(['bed', 'tab', 'text', 'interval', 'gff', 'refflat', 'bam'])
            ext = 'x' + h
            hint = h
        cases.append((hint, ext, lines))
    for i, (hint, ext, lines) in enumerate(cases):
        p = os.path.join(scratch, 'sn%d.%s' % (i % 50, ext))
        with open(p, 'w') as fh:
            for l in lines:
                fh.write('\t'.join(l) + '\n')
        try:
            sn = tabio.sniff_region_format(p)
        except ValueError:
            sn = Err('unrecognized')
        os.remove(p)
        ck.count(['sniff', hint, lines], nontrivial=not isinstance(sn, Err) and sn is not None, cls='sniff:lines')
        P.add('c08_sniff', [hint, lines], 'sniff_region_format (first lines)', {'hint_ext': ext, 'lines': lines}, sn)


def check_keys(ck, P, rng, n):
    from skgenome.chromsort import sorter_chrom
    names = list(BASES) + ['chr' + b for b in BASES] + ['chr', 'CHR', 'chR1', 'cHrX', 'chrchr1', 'chrx', 'chry', 'XY', 'chrXY', '']
    for _ in range(n):
        names.append(gen_name(rng))
    for nm in names:
        k = sorter_chrom(nm)
        ck.count(['key', nm], nontrivial=True, cls='key')
        P.add('c08_key', nm, 'sorter_chrom', {'name': nm}, [k[0], k[1]])
    # the order named in the property text, on the code
    for pre in ('', 'chr'):
        seq = [pre + x for x in ('1', '2', '10', 'X', 'Y', 'M')]
        ks = [sorter_chrom(x) for x in seq]
        if ks != sorted(ks) or len(set(ks)) != 6:
            ck.violation('sorter_chrom does not order %s' % seq, {'names': seq}, code=ks, expected='strictly increasing',
                         clause='C08_natural_order')
    for a in ('1', '7', '22', 'X', 'Y', 'M', '1_gl000191_random', 'Un_gl000211'):
        if sorter_chrom(a) != sorter_chrom('chr' + a):
            ck.violation('chr prefix changes the sort key of %s' % a, {'name': a}, code=sorter_chrom('chr' + a),
                         expected=sorter_chrom(a), clause='C08_natural_order')


def check_labels(ck, P, rng, n):
    from skgenome.rangelabel import from_label, to_label, Region
    seeds = ['chr1:10-20', 'chr1:10-20 g', 'GL000192.1:1-5', 'chr1:-5', 'chr1:1-', ':1-2', 'x', 'chr1:10-20\tg', 'chr1: 1-2',
             '1:2-3  a b', 'chr1_random:100-200 A,B', '.1:2-3', 'a.b.:1-2', 'chr1:0-5', 'chr1:007-9', 'c:1-2-3', 'c:1:2-3']
    texts = list(seeds)
    for _ in range(n):
        s = rng.choice(seeds)
        k = rng.randint(0, len(s))
        texts.append(s[:k] + rng.choice('chr1:-. \tX_') + s[k + rng.randint(0, 1):])
    for _ in range(n):
        c = gen_name(rng)
        s, e = gen_interval(rng)
        lab = to_label(Region(c, s, e))
        exp_lab = '%s:%d-%d' % (c, s + 1, e)
        ck.count(['label', c, s, e], nontrivial=True, cls='label:to_label')
        if lab != exp_lab:
            ck.violation('to_label does not write the 1-based inclusive range', {'region': [c, s, e]}, code=lab,
                         expected=exp_lab, clause='C08_roundtrip_text')
        texts.append(lab)
    for t in texts:
        try:
            r = from_label(t)
            code = [r.chromosome, r.start, r.end, r.gene]
        except ValueError:
            code = Err('Invalid range spec')
        ck.count(['from_label', t], nontrivial=not isinstance(code, Err), cls='label:from_label')
        P.add('c08_label', t, 'from_label', {'text': t}, code)


def check_decimal(ck, P, rng, n):
    """print_Z / parse_Z against Python's str(int) / int(str) on the strings both define
    (digits and '-', no blanks, '+' or '_': those are accepted by int() only), and str.rstrip()."""
    ints = [0, 1, -1, 9, 10, -10, 99, 100, 101, 999, 1000, 2**31 - 1, 2**31, -2**31, 2**63, -2**63 - 1, 10**18, 10**30 + 7,
            299999999, 300000000]
    for _ in range(n):
        k = rng.choice([1, 2, 3, 6, 9, 10, 19, 40])
        ints.append(rng.randint(-10**k, 10**k))
    for z in ints:
        ck.count(['print', z], nontrivial=True, cls='decimal:print')
        P.add('c08_print_parse', z, 'str(int)', {'int': z}, str(z))
        P.add('c08_print_parse', str(z), 'int(str(int))', {'text': str(z)}, z)
    texts = ['', '-', '--5', '5-', '-0', '0', '00', '007', '-007', '12a', 'a', '1-2', '0x10', '1e5', '1.0', '-', '9' * 40]
    for _ in range(n):
        texts.append(''.join(rng.choice('0123456789-0123456789a.') for _ in range(rng.randint(0, 12))))
    for t in texts:
        try:
            code = int(t)
        except ValueError:
            code = None
        ck.count(['parse', t], nontrivial=code is not None, cls='decimal:parse')
        P.add('c08_print_parse', t, 'int(text)', {'text': t}, code)
    pads = ['', ' ', '  ', '\t', ' \x0b', '\x0c', '\r', '\x1c', '\x1f ', '\x00', 'x', ' x', '.']
    for _ in range(n):
        t = rng.choice(['', 'g', 'TP53', 'a b', ' a', '-', '+']) + rng.choice(pads) + rng.choice(pads)
        ck.count(['rstrip', t], nontrivial=t.rstrip() != t, cls='decimal:rstrip')
        P.add('c08_rstrip', t, 'str.rstrip()', {'text': t}, t.rstrip())


# ----------------------------------------------------------------------------
# known finding: pandas NA tokens as names / labels

def check_na_tokens(ck, scratch, rng):
    from skgenome import tabio
    cases = [('tab', 'NA', 'g')]                      # canonical case first
    for fmt in ('tab', 'interval'):
        for t in ('nan', 'null', 'None'):
            cases.append((fmt, t, 'g'))
        cases.append((fmt, 'chr1', rng.choice(['NA', 'nan', 'null', 'None', 'n/a'])))
    for i, (fmt, name, gene) in enumerate(cases):
        table = {'cols': ['gene', 'log2'], 'kinds': {'gene': 'str', 'log2': 'float'},
                 'rows': [[name, 1, 5, gene, 0.5], ['chr2', 3, 9, 'h', 0.25]]}
        p = os.path.join(scratch, 'na%d.dat' % i)
        exp, names = expected_rows(table, fmt)
        ck.count(['na-token', fmt, name, gene], nontrivial=True, cls='hazard:na-token')
        try:
            tabio.write(make_array(table), p, fmt)
            got = array_rows(tabio.read(p, fmt), names, table['kinds'])
            bad = oracle_check(exp, got)
        except Exception as e:     # noqa
            got, bad = repr(e)[:160], 'raised %s' % type(e).__name__
        if bad:
            ck.violation('pandas NA token %r as a name/label in a %s file: %s' % (name if name in NA_TOKENS else gene, fmt, bad),
                         {'table': table, 'fmt': fmt}, sig='C08-na-token-name', code=got, expected=exp,
                         clause='C08_roundtrip_' + fmt)
        if os.path.exists(p):
            os.remove(p)


# ----------------------------------------------------------------------------

def load_corpus():
    p = os.path.join(vlib.VERIF, 'corpus', 'c08.json')
    if not os.path.exists(p):
        return []
    return json.load(open(p))['tables']


def load_corpus_extra(key):
    p = os.path.join(vlib.VERIF, 'corpus', 'c08.json')
    if not os.path.exists(p):
        return []
    return json.load(open(p)).get(key, [])


def run(ck, scratch):
    ck.rule = ('region tables: 1..5 chromosome names (numbers incl. 999/1000/1001, X/Y/M, alt/random/Un/hap contigs, dotted '
               'accessions, leading zeros, with/without chr/Chr/CHR prefix, mixed) x rows with coordinates biased to digit-length '
               'boundaries up to 3e8, duplicate and near-duplicate rows, labels with , . - and numeric-looking labels, 0..3 extra '
               'int/float columns (floats from 5e-324 to 1.8e308), input order unsorted/shuffled/reversed/string-sorted; every table '
               'written and read as tab, bed3, bed4, interval, text (+ read_auto for word-character names), re-written twice; 1..4 SEG '
               'samples through export_seg + import-seg + tabio seg writer, and with enumerated chromosome ids through export_seg('
               'chrom_ids=True) + parse_seg / import-seg -c <inverse map> (+ -p prefix), first sample covering the other samples\' '
               'chromosomes or not; hand-made BED files of 3..12 columns with browser/track lines, a second track, labels and strands '
               'ending in blanks, BED files with a bad line (edge stream: ValueError vs parse error), the generic BED writer on 3/4/6/7-'
               'column frames; interval(@ header)/text(labels) files; GFF files in GFF3 / GTF / quoted style with 0..5 attributes, '
               'repeated keys, odd attribute strings (quotes, blanks, empty, embedded tags), tag in {default, ID, Parent, '
               '(gene_name|gene_id), gene_name, (Alias|Name)}, keep_type in {None, "", exon, gene, CDS, tRNA}, repeated spans, chr/no-chr '
               'mixes; VCF files (vcf via pysam, vcf-simple, vcf-sites) with substitutions, indels, multi-allelic, <DEL>/<DUP>, '
               '<NON_REF>, no ALT, INFO with/without END; Picard per-target tables with float columns; single-attribute gene extraction, '
               'single-record END parsing incl. the INFO strings int() rejects, str(int)/int(str)/rstrip streams; single-line sniffing '
               'with mutated lines and extension hints; sorter_chrom and from_label/to_label streams. Preconditions (format-inherent): '
               'names do not start with track/browser, start with a word character, labels non-empty without blanks/tabs; pandas NA '
               'tokens are the open finding C08-na-token-name (own stream). non-trivial = more than one row / recognised line; '
               'distinct by case hash')
    ck.unproved_remainder = [
        'pandas read_csv / re tokenisation of real bytes into fields and %.6g / strtod float formatting (6-significant-digit equality and '
        'byte-identical re-writing of float columns are checked on the code only); pandas\' comment character inside a GFF line and '
        'rows with a wrong number of columns are outside the field-level model',
        'equivalence of the hand-written matchers of Model/Sniff.v and of the GFF gene matcher of Model/Formats.v with the regexes (no '
        'regex semantics in Coq): tied by C08_sniff_sources / C08_gff_sources (source strings) and by model-vs-code comparison on '
        'mutated first lines and attribute strings; C08_gff_gene / C08_gff_gene_spec prove what the matcher computes',
        'that pandas lexsort/mergesort is a stable sort: by correspondence (C08_sort proves the model sort is a sorted, stable, '
        'idempotent permutation and C08_sort_unique that any sorted arrangement keeping tied rows in input order IS the model\'s)',
        'GenomicArray.sort_columns (column order of the re-written tab file) is compared by column name, not modelled',
        'int() / pandas integer parsing of non-canonical coordinate text (blanks, "+", "_", non-ASCII digits) is not modelled: parse_Z '
        'accepts -?[0-9]+ only (C08_decimal_rejects); generators write canonical text',
        'pysam: record.start = POS-1, record.alts, and whether record.info offers END (pysam 0.24 never does, so vcfio._get_end\'s END '
        'branch is not reached here) are inputs of the model; the Picard float columns and the GFF score column are opaque tokens; '
        'write_picard_hs\' coverage normalisation is float arithmetic outside the model',
        'the end coordinate of VCF records is modelled and compared (C08_vcf_end_*), but the property text fixes only the start shift: '
        'vcf-simple / vcf-sites give substitutions an empty interval (C08_vcf_simple_snv_empty) -- reported as an observation',
    ]
    if not ck.build_status.get('driver_ok'):
        raise RuntimeError('model driver unavailable')
    quick = ck.tier == 'quick'
    P = Pending()
    # generated offsets against the property's table of conventions
    offs = dict((k, v) for k, v in vlib.model_call('c08_offsets', None))
    want = {'bed': 0, 'tab': 0, 'interval': -1, 'text': -1, 'gff': -1, 'seg': -1, 'vcf-simple': -1, 'vcf-sites': -1, 'picardhs': -1}
    ck.extra['generated_read_offsets'] = offs
    if offs != want:
        ck.tie_break('generated reader offsets differ from the property\'s conventions', {'offsets': offs}, code=offs, model=want)
    tags = vlib.model_call('c08_gff_default_tags', None)
    if tags != DEFAULT_GFF_TAGS:
        ck.tie_break('generated default GFF tags differ from the ones the harness builds its regular expression from',
                     {'tags': tags}, code=tags, model=DEFAULT_GFF_TAGS)
    from skgenome.tabio import gff as _gff
    import inspect
    if GFF_GENE_TAIL not in inspect.getsource(_gff.read_gff):
        ck.tie_break('gff.read_gff no longer compiles tag + %r' % GFF_GENE_TAIL, {'tail': GFF_GENE_TAIL}, code='changed', model=GFF_GENE_TAIL)
    # corpus first
    for i, t in enumerate(load_corpus()):
        check_table(ck, P, scratch, t['table'], 'corpus%d' % i, word_only=t.get('word_only', False), corpus=True)
    check_na_tokens(ck, scratch, ck.rng)
    ntab = 200 if quick else 4000
    for i in range(ntab):
        wo = ck.rng.random() < 0.5
        check_table(ck, P, scratch, gen_table(ck.rng, word_only=wo), 't%d' % i, word_only=wo)
        if i % 500 == 499:
            P.flush(ck)
    nseg = 25 if quick else 700
    for i in range(nseg):
        samples, probes = gen_seg_case(ck.rng)
        check_seg(ck, P, scratch, samples, 'seg%d' % i, probes)
        check_seg_raw(ck, P, scratch, ck.rng, i)
    for i in range(600 if quick else 8000):
        check_readers(ck, P, scratch, ck.rng, i)
        if i % 1000 == 999:
            P.flush(ck)
    check_sniff_lines(ck, P, scratch, ck.rng, 600 if quick else 20000)
    check_keys(ck, P, ck.rng, 300 if quick else 10000)
    check_labels(ck, P, ck.rng, 300 if quick else 10000)
    ck.extra['observations'] = [
        'vcf-simple / vcf-sites: end = first END=n of INFO, else start + max(0, len(ALT) - len(REF)); a substitution therefore gets '
        'an empty interval [POS-1, POS-1) (C08_vcf_simple_snv_empty); an INFO column holding CIEND= before END= raises ValueError '
        '(str.find("END=") hits CIEND=; C08_vcf_end_examples)',
        'vcf (pysam): with pysam 0.24 "END" in record.info is False even when INFO has END=, so vcfio._get_end never takes the '
        'END branch: a <DEL> record gets end = start + len("<DEL>") (see pysam_info_contains_END)',
    ]
    check_gff_genes(ck, P, ck.rng, 300 if quick else 10000)
    check_vcf_ends(ck, P, ck.rng, 150 if quick else 5000)
    check_decimal(ck, P, ck.rng, 150 if quick else 5000)
    P.flush(ck)


def replay(ck, body):
    """re-run a saved table case: ./check C08 --replay evidence/replays/C08-....json"""
    case = body.get('case') or {}
    ck.build_status = {'driver_ok': os.path.exists(vlib.DRIVER)}
    scratch = vlib.scratch_dir('C08')
    P = Pending()
    if 'table' in case:
        check_table(ck, P, scratch, case['table'], 'replay', word_only=True)
    elif 'samples' in case:
        samples = [(s, t) for s, t in case['samples']]
        check_seg(ck, P, scratch, samples, 'replay', 'probes' in samples[0][1]['cols'])
    else:
        print('replay: case kind not re-runnable standalone; stored content:')
        print(json.dumps(body, indent=1)[:3000])
    P.flush(ck)
    vlib.rm_scratch(scratch)
    for kind, what, path in ck.violations:
        print('VIOLATION property=C08 %s' % what)
    for what, path in ck.tie_breaks:
        print('TIE-BREAK property=C08 %s' % what)
    return 1 if (ck.violations or ck.tie_breaks) else 0
