"""C11 -- a clear copy-number step is found and localised; flat profiles stay unsegmented.

Claimed at level `other` (partial, DESIGN section 5 C11 / section 7).  Three parts:

(a) correspondence of the discrete HaarSeg core: cnvlib.segmentation.haar.HaarConv /
    FindLocalPeaks / UnifyLevels / SegmentByPeaks / FDRThres / haarSeg against the
    extracted Coq model (Model/Haar.v) on dyadic signals (values on a 1/1024 grid,
    weights on a 1/64 grid, so every running sum is exact in binary64), with
    independent oracles: mirrored window sums in integer arithmetic (conv), the
    plateau characterisation (peaks), the set formula (unify), Fraction means
    (segments), and the idealised clauses of the property (flat -> one segment,
    clean step -> exactly [t], start/end/size tile 0..n);
(b) monitoring of the claim itself on the real pipeline: generated profiles of
    the quantifier, the statement evaluated directly on do_segmentation(cnarr,
    "haar") and do_segmentation(cnarr, "hmm-germline").  A failure is a concrete
    failing input (ck.violation with a regime signature); absence of failures
    is N sampled profiles, nothing more (unproved_remainder).
"""
import math, time
from fractions import Fraction
import numpy as np
import vlib
from vlib import Err

LEVEL = 'other'

GRID = 1024          # signal values are k/1024
WGRID = 64           # weights are k/64
LEVELS = [1, 2, 3, 4, 5]       # cross-checked against Gen/HaarDefaults via the model's output shape
FDR_EPS = 1e-16      # only used to supply the float-absorption oracle (see Model/Haar.v header)


# ----------------------------------------------------------------------------
# generators (everything from ck.rng)


def gen_length(rng):
    r = rng.random()
    if r < 0.15:
        return rng.randint(1, 10)
    if r < 0.40:
        h = rng.choice([2, 4, 8, 16, 32, 64])
        return max(1, h + rng.choice([-1, 0, 1, 2]))
    if r < 0.75:
        return rng.randint(11, 150)
    return rng.randint(150, 700)


def gen_weights(rng, n):
    kind = rng.choice(['none', 'none', 'one', 'half-one', 'dyadic', 'upper'])
    if kind == 'none':
        return kind, None
    if kind == 'one':
        return kind, [1.0] * n
    if kind == 'half-one':
        return kind, [rng.choice([0.5, 1.0]) for _ in range(n)]
    if kind == 'dyadic':
        return kind, [rng.randint(1, WGRID) / WGRID for _ in range(n)]
    return kind, [rng.randint(WGRID // 2, WGRID) / WGRID for _ in range(n)]


def grid(x):
    return round(x * GRID) / GRID


def gen_signal(rng, n):
    """-> (kind, values, truth) ; truth = ('flat', c) | ('step', t, a, b) | None"""
    kind = rng.choice(['rand', 'plateau', 'flat', 'clean-step', 'noisy-step', 'multi', 'alphabet', 'noise'])
    if kind == 'flat' or n < 2:
        c = rng.choice([0.0, 1.0, -1.0, grid(rng.uniform(-2, 2))])
        return 'flat', [c] * n, ('flat', c)
    if kind == 'rand':
        return kind, [rng.randint(-2 * GRID, 2 * GRID) / GRID for _ in range(n)], None
    if kind == 'alphabet':
        al = rng.choice([[-1, 0, 1], [0, 1], [-2, -1, 0, 1, 2], [0.5, 1.0, 1.5]])
        return kind, [float(rng.choice(al)) for _ in range(n)], None
    if kind == 'plateau':
        out = []
        while len(out) < n:
            v = rng.choice([-1.0, -0.5, 0.0, 0.0, 0.5, 1.0, grid(rng.uniform(-1, 1))])
            out.extend([v] * rng.choice([1, 1, 2, 3, rng.randint(1, 40)]))
        return kind, out[:n], None
    if kind == 'clean-step':
        a, b = rng.choice([(0.0, -1.0), (-1.0, 0.0), (0.0, grid(0.585)), (grid(0.585), 0.0), (0.0, 1.0), (1.0, 0.0),
                           (grid(rng.uniform(-2, 2)), grid(rng.uniform(-2, 2)))])
        if a == b:
            b = a + 1.0
        t = rng.randint(1, n - 1)
        if n >= 64 and rng.random() < 0.8:
            t = rng.choice([32, n - 32, rng.randint(32, n - 32)])
        return kind, [a] * t + [b] * (n - t), ('step', t, a, b)
    sd = rng.choice([0.02, 0.05, 0.1, 0.3])
    if kind == 'noise':
        return kind, [grid(rng.gauss(0, sd)) for _ in range(n)], None
    if kind == 'noisy-step':
        a, b = rng.choice([(0.0, -1.0), (-1.0, 0.0), (0.0, 0.585), (0.585, 0.0), (0.0, 1.0), (0.0, 0.2), (0.0, -0.1)])
        t = rng.randint(1, n - 1)
        return kind, [grid((a if i < t else b) + rng.gauss(0, sd)) for i in range(n)], None
    # multi
    out, lev = [], 0.0
    while len(out) < n:
        lev = rng.choice([0.0, -1.0, 0.585, 1.0, -0.4, 0.3])
        out.extend(grid(lev + rng.gauss(0, sd)) for _ in range(rng.choice([1, 2, 3, 5, 10, 33, 64, rng.randint(1, 200)])))
    return kind, out[:n], None


# ----------------------------------------------------------------------------
# independent oracles


def conv_closed_form(sig, wt, h):
    """mirrored window sums, integer arithmetic; returns Fractions *without* the sqrt scale:
    unweighted: sum(high) - sum(low); weighted: sum_w(high)/W(high) - sum_w(low)/W(low)."""
    n = len(sig)
    if h > n:
        return None
    si = [int(round(x * GRID)) for x in sig]
    if wt is None:
        ext = si[:h][::-1] + si + si[n - h:][::-1]
        P = [0]
        for x in ext:
            P.append(P[-1] + x)
        out = [Fraction(0)]
        for k in range(1, n):
            high = P[k + 2 * h] - P[k + h]
            low = P[k + h] - P[k]
            out.append(Fraction(high - low, GRID))
        return out
    wi = [int(round(x * WGRID)) for x in wt]
    swi = [a * b for a, b in zip(si, wi)]
    extw = wi[:h][::-1] + wi + wi[n - h:][::-1]
    exts = swi[:h][::-1] + swi + swi[n - h:][::-1]
    PW, PS = [0], [0]
    for a, b in zip(extw, exts):
        PW.append(PW[-1] + a)
        PS.append(PS[-1] + b)
    out = [Fraction(0)]
    for k in range(1, n):
        hw, hs = PW[k + 2 * h] - PW[k + h], PS[k + 2 * h] - PS[k + h]
        lw, ls = PW[k + h] - PW[k], PS[k + h] - PS[k]
        out.append(Fraction(hs, hw * GRID) - Fraction(ls, lw * GRID))
    return out


def peaks_plateau_oracle(sig):
    """first index of every maximal run of equal values that is strictly above both
    neighbours and positive (or strictly below and negative); runs touching either
    end of the array do not count."""
    n = len(sig)
    out = []
    i = 0
    while i < n:
        j = i
        while j + 1 < n and sig[j + 1] == sig[i]:
            j += 1
        if i >= 1 and j <= n - 2:
            v = sig[i]
            if v > 0 and v > sig[i - 1] and v > sig[j + 1]:
                out.append(i)
            elif v < 0 and v < sig[i - 1] and v < sig[j + 1]:
                out.append(i)
        i = j + 1
    return out


def unify_oracle(base, addon, w):
    keep = [a for a in addon if all(abs(a - b) > w for b in base)]
    return sorted(set(base) | set(keep))


def seg_means_oracle(sig, bps, wt):
    n = len(sig)
    st = [0] + list(bps)
    ed = list(bps) + [n]
    out = []
    for s, e in zip(st, ed):
        d = [Fraction(x) for x in sig[s:e]]
        if wt is not None and sum(Fraction(x) for x in wt[s:e]) > 0:
            ws = [Fraction(x) for x in wt[s:e]]
            out.append(sum(a * b for a, b in zip(d, ws)) / sum(ws))
        else:
            out.append(sum(d) / len(d))
    return out


def guarded(fn, *args, **kw):
    """run a function of the code under test; an exception on a valid input is an outcome, not a harness failure"""
    try:
        return fn(*args, **kw)
    except Exception as e:   # noqa
        return Err('%s: %s' % (type(e).__name__, str(e)[:120]))


def allclose(code, model, tol=vlib.TOL):
    if isinstance(model, Err) or len(code) != len(model):
        return False
    return all(vlib.close(float(c), m, tol) for c, m in zip(code, model))


# ----------------------------------------------------------------------------
# (a) correspondence of the core


def scale_for(wt, h):
    return math.sqrt(2.0 * h) if wt is None else math.sqrt(h / 2)


def sign_pattern_ambiguous(code, model):
    """the code's floats and the model's rationals order neighbouring values differently, and every
    such place is a near-tie of the exact values (below 1e-9): a float-ambiguous decision."""
    def cmp(a, b):
        return (a > b) - (a < b)
    differ, all_tiny = False, True
    for k in range(len(code)):
        pairs = [(code[k], 0.0, model[k], 0)]
        if k:
            pairs.append((code[k], code[k - 1], model[k], model[k - 1]))
        for cx, cy, mx, my in pairs:
            if cmp(cx, cy) != cmp(mx, my):
                differ = True
                if abs(float(mx - my)) > 1e-9 * max(1.0, abs(float(mx))):
                    all_tiny = False
    return differ and all_tiny


def check_conv_and_peaks(ck, haar, cases):
    """cases: list of (kind, sig, wkind, wt).  For each: HaarConv at h=1 unweighted and at the five
    levels (+ two odd half-widths) with the case's weights; FindLocalPeaks on each code output."""
    reqs, meta = [], []
    for ci, (kind, sig, wkind, wt) in enumerate(cases):
        n = len(sig)
        hs = [(1, None)] + [(2 ** l, wt) for l in LEVELS]
        hs.append((ck.rng.choice([1, 3, 5, 7, n, n + 1, max(1, n - 1)]), wt))
        for h, w in hs:
            reqs.append([sig, w, h, scale_for(w, h)])
            meta.append((ci, h, w))
    model = vlib.model_batch_parallel('c11_conv', reqs)
    peak_reqs, peak_meta = [], []
    for (ci, h, w), req, m in zip(meta, reqs, model):
        kind, sig, wkind, wt = cases[ci]
        n = len(sig)
        code = guarded(haar.HaarConv, np.array(sig, dtype=float), None if w is None else np.array(w, dtype=float), h)
        case = {'fn': 'HaarConv', 'signal': sig, 'weight': w, 'h': h}
        if isinstance(code, Err):
            ck.count(['conv', kind, wkind, n, h, sig[:8]], nontrivial=True, cls='conv:raised')
            ck.violation('HaarConv raised %s' % code.msg, case, code=code, clause='C11_conv_window')
            continue
        code_l = [float(x) for x in code]
        cf = conv_closed_form(sig, w, h)
        sc = scale_for(w, h)
        if cf is None:
            exp = [0.0] * n
        elif w is None:
            exp = [float(x) / sc for x in cf]
        else:
            exp = [float(x) * sc for x in cf]
        nontriv = cf is not None and any(x != 0 for x in cf)
        ck.count(['conv', kind, wkind, n, h, sig[:8]], nontrivial=nontriv,
                 cls='conv:%s:%s' % ('short' if cf is None else ('unweighted' if w is None else 'weighted'), kind))
        ok_oracle = len(code_l) == n and all(abs(c - e) <= 1e-9 * max(1.0, abs(e)) for c, e in zip(code_l, exp))
        if not ok_oracle:
            ck.violation('HaarConv differs from the mirrored window-sum difference (closed form)', case,
                         code=code_l, expected=exp, clause='C11_conv_window')
        elif not allclose(code_l, m):
            ck.tie_break('model haar_conv differs from HaarConv', case, code=code_l, model=m)
        # peaks on the code's own conv output (identical floats on both sides: exact comparison)
        peak_reqs.append(code_l)
        peak_meta.append((kind, wkind, h))
    return peak_reqs, peak_meta


def check_peaks(ck, haar, sigs, metas):
    model = vlib.model_batch_parallel('c11_peaks', sigs)
    for sig, meta, m in zip(sigs, metas, model):
        code = guarded(lambda: [int(x) for x in haar.FindLocalPeaks(np.array(sig, dtype=float))])
        exp = peaks_plateau_oracle(sig)
        case = {'fn': 'FindLocalPeaks', 'signal': sig}
        ck.count(['peaks', meta, len(sig), sig[:12]], nontrivial=len(exp) > 0, cls='peaks:%s' % (meta[0],))
        if code != exp:
            ck.violation('FindLocalPeaks does not return the first index of every strict interior extremal plateau',
                         case, code=code, expected=exp, clause='C11_peaks')
        elif code != m:
            ck.tie_break('model find_local_peaks differs from FindLocalPeaks', case, code=code, model=m)


def gen_plateau_signals(ck, n_cases):
    out, metas = [], []
    for _ in range(n_cases):
        n = ck.rng.choice([0, 1, 2, 3, ck.rng.randint(3, 12), ck.rng.randint(3, 60)])
        al = ck.rng.choice([[-1, 0, 1], [-2, -1, 1, 2], [0, 1, 2], [-1, -2, 0], [-1.5, -1, 0, 1, 1.5]])
        sig = []
        while len(sig) < n:
            sig.extend([float(ck.rng.choice(al))] * ck.rng.choice([1, 1, 2, 3, 4]))
        out.append(sig[:n])
        metas.append(('synthetic-plateaus', '-', 0))
    return out, metas


def check_unify(ck, haar, n_cases):
    cases = []
    for i in range(n_cases):
        top = ck.rng.choice([10, 40, 200, 700])
        nb, na = ck.rng.randint(0, 8), ck.rng.randint(0, 10)
        w = ck.rng.choice([0, 1, 2, 4, 8, 16, ck.rng.randint(0, 40)])
        base = sorted(ck.rng.sample(range(1, top), min(nb, top - 1)))
        addon = sorted(ck.rng.sample(range(1, top), min(na, top - 1)))
        if base and ck.rng.random() < 0.6:
            # add-ons placed exactly at / around the window edges of base elements
            extra = []
            for _ in range(ck.rng.randint(1, 4)):
                b = ck.rng.choice(base)
                extra.append(b + ck.rng.choice([-w - 1, -w, -w + 1, 0, w - 1, w, w + 1]))
            addon = sorted(set(addon) | {a for a in extra if a >= 0})
        malformed = i % 10 == 9
        if malformed:
            addon = addon + [ck.rng.choice(addon)] if addon else addon
            ck.rng.shuffle(addon)
            if ck.rng.random() < 0.5:
                ck.rng.shuffle(base)
        cases.append((base, addon, w, malformed))
    model = vlib.model_batch('c11_unify', [[b, a, w] for b, a, w, _ in cases])
    for (base, addon, w, malformed), m in zip(cases, model):
        code = guarded(lambda: [int(x) for x in haar.UnifyLevels(np.array(base, dtype=np.int_), np.array(addon, dtype=np.int_), w)])
        case = {'fn': 'UnifyLevels', 'base': base, 'addon': addon, 'window': w}
        ck.count(['unify', base, addon, w], nontrivial=bool(base) and bool(addon), cls='unify:%s' % ('unsorted' if malformed else 'sorted'))
        if not malformed:
            exp = unify_oracle(base, addon, w)
            if code != exp:
                ck.violation('UnifyLevels is not sorted(base + add-ons outside every window)', case,
                             code=code, expected=exp, clause='C11_unify_sorted')
                continue
        if code != m:
            ck.tie_break('model unify_levels differs from UnifyLevels', case, code=code, model=m)


def check_segment(ck, haar, n_cases):
    cases = []
    for _ in range(n_cases):
        n = ck.rng.choice([1, 2, 3, ck.rng.randint(2, 30), ck.rng.randint(2, 300)])
        sig = [ck.rng.randint(-2 * GRID, 2 * GRID) / GRID for _ in range(n)]
        wkind, wt = gen_weights(ck.rng, n)
        k = ck.rng.randint(0, min(6, n - 1))
        bps = sorted(ck.rng.sample(range(1, n), k)) if n > 1 else []
        cases.append((sig, bps, wkind, wt))
    model = vlib.model_batch('c11_segment', [[s, b, w] for s, b, _, w in cases])
    for (sig, bps, wkind, wt), m in zip(cases, model):
        code = guarded(lambda: [float(x) for x in haar.SegmentByPeaks(
            np.array(sig, dtype=float), np.array(bps, dtype=np.int_), None if wt is None else np.array(wt, dtype=float))])
        means = seg_means_oracle(sig, bps, wt)
        exp = []
        for (s, e), v in zip(zip([0] + bps, bps + [len(sig)]), means):
            exp.extend([v] * (e - s))
        case = {'fn': 'SegmentByPeaks', 'data': sig, 'peaks': bps, 'weights': wt}
        ck.count(['segment', len(sig), bps, wkind, sig[:6]], nontrivial=len(bps) > 0, cls='segment:%s' % wkind)
        if isinstance(code, Err) or not allclose(code, exp):
            ck.violation('SegmentByPeaks is not the (weighted) mean of each segment', case, code=code,
                         expected=[float(x) for x in exp], clause='C11_segment_means')
        elif not allclose(code, m):
            ck.tie_break('model segment_by_peaks differs from SegmentByPeaks', case, code=code, model=m)


class FdrTap:
    """records the arguments/results of haar.FDRThres while haarSeg runs (in this process only)"""
    def __init__(self, haar):
        self.haar, self.calls, self.orig = haar, [], haar.FDRThres

    def __enter__(self):
        def tap(x, q, stdev):
            t = self.orig(x, q, stdev)
            self.calls.append((np.array(x, dtype=float).copy(), float(q), float(stdev), float(t)))
            return t
        self.haar.FDRThres = tap
        return self

    def __exit__(self, *a):
        self.haar.FDRThres = self.orig


def fdr_oracles(calls):
    """p-values (the way FDRThres computes them: sigma is the *location* of the cdf), the absorption
    flag, and the smallest relative margin of the p <= m*q decisions."""
    from scipy import stats
    pv, ab, margin, near_tie = [], [], 1.0, False
    for x, q, stdev, t in calls:
        M = len(x)
        if M < 2:
            pv.append([])
            ab.append(False)
            continue
        xs = np.sort(np.abs(x))[::-1]
        p = 2 * (1 - stats.norm.cdf(xs, stdev))
        pv.append([float(v) for v in p])
        ab.append(bool(xs[0] + FDR_EPS == xs[0]))
        for i, v in enumerate(p):
            thr = Fraction(i + 1, M) * Fraction(q)
            d = abs(Fraction(float(v)) - thr)
            margin = min(margin, float(d / thr) if thr else 1.0)
        for a, b in zip(xs[:-1], xs[1:]):
            if a != b and abs(a - b) <= 1e-9 * max(1.0, abs(a)):
                near_tie = True
    return pv, ab, margin, near_tie


def property_oracle_ideal(truth, wt, n, res):
    """the idealised clauses on the code's haarSeg output; returns a failure text or None"""
    st, ed, sz, mean = res['start'], res['end'], res['size'], res['mean']
    k = len(st)
    if not (k >= 1 and len(ed) == k and len(sz) == k and len(mean) == k and st[0] == 0 and ed[-1] == n - 1
            and all(sz[i] == ed[i] - st[i] + 1 and sz[i] > 0 for i in range(k))
            and all(st[i + 1] == ed[i] + 1 for i in range(k - 1)) and sum(sz) == n):
        return 'C11_sizes', 'start/end/size do not tile 0..n-1 with positive sizes'
    if truth and truth[0] == 'flat':
        if k != 1 or abs(mean[0] - truth[1]) > 1e-9:
            return 'C11_flat', 'a constant signal is not reported as one segment at the constant'
    if truth and truth[0] == 'step' and wt is None:
        _, t, a, b = truth
        if t >= 32 and n - t >= 32:
            if st != [0, t] or abs(mean[0] - a) > 1e-9 or abs(mean[1] - b) > 1e-9:
                return 'C11_clean_step', 'a noiseless step with >= 32 bins per side is not exactly one breakpoint at t with means a, b'
    return None


def check_haarseg(ck, haar, cases):
    runs = []
    for kind, sig, truth, wkind, wt, q in cases:
        I = np.array(sig, dtype=float)
        W = None if wt is None else np.array(wt, dtype=float)
        with FdrTap(haar) as tap:
            r = guarded(haar.haarSeg, I, q, W=W)
        if isinstance(r, Err):
            runs.append((r, [[] for _ in LEVELS], [False for _ in LEVELS], 1.0, False, None, 0))
            continue
        res = {k: [float(x) if k == 'mean' else int(x) for x in r[k]] for k in ('start', 'end', 'size', 'mean')}
        pv, ab, margin, near_tie = fdr_oracles(tap.calls)
        sigma = tap.calls[0][2] if tap.calls else None
        runs.append((res, pv, ab, margin, near_tie, sigma, len(tap.calls)))
    reqs = []
    for (kind, sig, truth, wkind, wt, q), (res, pv, ab, margin, near_tie, sigma, ncalls) in zip(cases, runs):
        reqs.append([sig, wt, q, math.sqrt(2.0 * 1), [math.sqrt(2.0 * 2 ** l) for l in LEVELS],
                     [math.sqrt(2 ** l / 2) for l in LEVELS], pv, ab])
    model = vlib.model_batch_parallel('c11_haarseg', reqs)
    for (kind, sig, truth, wkind, wt, q), (res, pv, ab, margin, near_tie, sigma, ncalls), m in zip(cases, runs, model):
        n = len(sig)
        case = {'fn': 'haarSeg', 'kind': kind, 'signal': sig, 'weights': wt, 'q': q}
        if isinstance(res, Err):
            ck.count(['haarseg', kind, wkind, n, q, sig[:10]], nontrivial=True, cls='haarseg:raised')
            ck.violation('haarSeg raised %s' % res.msg, case, code=res, clause='C11_sizes')
            continue
        nbp = len(res['start']) - 1
        ck.count(['haarseg', kind, wkind, n, q, sig[:10]], nontrivial=nbp > 0,
                 cls='haarseg:%s:%s' % (kind, 'w' if wt is not None else 'u'))
        ck.cls('haarseg:breakpoints=%s' % (nbp if nbp < 3 else '3+'))
        bad = property_oracle_ideal(truth, wt, n, res)
        if bad:
            ck.violation('haarSeg: ' + bad[1], case, code=res, clause=bad[0])
            continue
        if ncalls != len(LEVELS):
            ck.tie_break('haarSeg ran %d levels, the model (Gen/HaarDefaults) has %d' % (ncalls, len(LEVELS)), case)
            continue
        if isinstance(m, Err):
            ck.tie_break('model haar_seg failed: %s' % m.msg, case, code=res)
            continue
        mbreaks, mst, med, msz, mmean, msigma, mpeaks, maddon = m
        # per-level peaks of the code, to localise a difference and to recognise float-ambiguous ties
        same = (res['start'] == mst and res['end'] == med and res['size'] == msz)
        if not same:
            amb = margin < 1e-9 or near_tie
            if not amb:
                for li, l in enumerate(LEVELS):
                    W = None if wt is None else np.array(wt, dtype=float)
                    cconv = [float(x) for x in haar.HaarConv(np.array(sig, dtype=float), W, 2 ** l)]
                    mconv = vlib.model_call('c11_conv', [sig, wt, 2 ** l, scale_for(wt, 2 ** l)])
                    if not isinstance(mconv, Err) and len(mconv) == len(cconv) and sign_pattern_ambiguous(cconv, mconv):
                        amb = True
                        break
            if amb:
                ck.float_ambiguous += 1
                ck.cls('haarseg:float-ambiguous')
                continue
            ck.tie_break('model haar_seg breakpoints differ from haarSeg', case, code=res,
                         model={'start': mst, 'end': med, 'size': msz, 'peaks': mpeaks, 'addon': maddon})
            continue
        if not allclose(res['mean'], mmean):
            ck.tie_break('model haar_seg segment means differ from haarSeg', case, code=res['mean'], model=mmean)
        elif sigma is not None and not vlib.close(sigma, msigma):
            ck.tie_break('model peak_sigma_est differs from the sigma haarSeg passes to FDRThres', case,
                         code=sigma, model=msigma)


def check_fdr(ck, haar, n_cases):
    """FDRThres alone, p-values supplied as computed by the code's own formula."""
    cases = []
    for _ in range(n_cases):
        M = ck.rng.choice([0, 1, 2, 3, ck.rng.randint(2, 12), ck.rng.randint(2, 60)])
        scale = ck.rng.choice([0.5, 1, 3, 6])
        x = [ck.rng.choice([-1, 1]) * ck.rng.randint(0, 8 * GRID) / GRID * scale for _ in range(M)]
        q = ck.rng.choice([1e-4, 1e-3, 0.005, 0.05, 0.5])
        stdev = ck.rng.choice([0.0, 0.01, 0.1, 0.5])
        cases.append((x, q, stdev))
    reqs, codes = [], []
    for x, q, stdev in cases:
        with FdrTap(haar) as tap:
            t = guarded(haar.FDRThres, np.array(x, dtype=float), q, stdev)
        if isinstance(t, Err):
            reqs.append([x, q, [], False])
            codes.append((t, 1.0))
            continue
        pv, ab, margin, near = fdr_oracles(tap.calls)
        reqs.append([x, q, pv[0], ab[0]])
        codes.append((float(t), margin))
    model = vlib.model_batch('c11_fdr', reqs)
    for (x, q, stdev), (t, margin), req, m in zip(cases, codes, reqs, model):
        case = {'fn': 'FDRThres', 'x': x, 'q': q, 'stdev': stdev}
        ck.count(['fdr', x, q, stdev], nontrivial=len(x) >= 2, cls='fdr:%s' % ('M<2' if len(x) < 2 else 'M>=2'))
        if isinstance(t, Err):
            ck.violation('FDRThres raised %s' % t.msg, case, code=t, clause='C11_fdr')
            continue
        if margin < 1e-9:
            ck.float_ambiguous += 1
            continue
        if not vlib.close(t, m):
            ck.tie_break('model fdr_thres differs from FDRThres', case, code=t, model=m)


def core_correspondence(ck, haar):
    quick = ck.tier == 'quick'
    n_cases = 130 if quick else 6000
    cases, seg_cases = [], []
    for i in range(n_cases):
        n = gen_length(ck.rng)
        kind, sig, truth = gen_signal(ck.rng, n)
        wkind, wt = gen_weights(ck.rng, n)
        cases.append((kind, sig, wkind, wt))
        q = ck.rng.choice([1e-4, 1e-4, 1e-3, 0.005, 0.05, 0.4])
        seg_cases.append((kind, sig, truth, wkind, wt, q))
    # theorem-shaped cases: flat with every weight kind, clean steps at the 32-bin boundary
    for i in range(20 if quick else 400):
        n = ck.rng.choice([1, 2, 5, 31, 32, 33, 64, 65, ck.rng.randint(2, 700)])
        c = ck.rng.choice([0.0, -1.0, grid(0.585), grid(ck.rng.uniform(-3, 3))])
        wkind, wt = gen_weights(ck.rng, n)
        seg_cases.append(('flat', [c] * n, ('flat', c), wkind, wt, 1e-4))
        n = ck.rng.choice([64, 65, 66, 100, ck.rng.randint(64, 700)])
        t = ck.rng.choice([32, 33, n - 32, n - 33, ck.rng.randint(32, n - 32)])
        a, b = ck.rng.choice([(0.0, -1.0), (-1.0, 0.0), (0.0, grid(0.585)), (1.0, 0.0), (0.0, 1 / GRID)])
        seg_cases.append(('clean-step', [a] * t + [b] * (n - t), ('step', t, a, b), 'none', None, 1e-4))
    t0 = time.time()
    peak_sigs, peak_meta = check_conv_and_peaks(ck, haar, cases)
    extra_sigs, extra_meta = gen_plateau_signals(ck, 300 if quick else 10000)
    check_peaks(ck, haar, peak_sigs + extra_sigs, peak_meta + extra_meta)
    check_unify(ck, haar, 400 if quick else 20000)
    check_segment(ck, haar, 150 if quick else 5000)
    check_fdr(ck, haar, 150 if quick else 5000)
    check_haarseg(ck, haar, seg_cases)
    ck.extra['core_s'] = round(time.time() - t0, 1)


# ----------------------------------------------------------------------------
# (b) monitoring of the claim on the real pipeline


def gen_profile(ck, kind, method):
    """kind: 'step' | 'flat' | 'mixed'.  Returns (case dict with the full table, truth rows)."""
    rng = ck.rng
    nrs = np.random.RandomState(rng.randrange(2 ** 32))
    nch = rng.randint(1, 3)
    sd = rng.choice([0.01, 0.1, rng.uniform(0.01, 0.1), rng.uniform(0.01, 0.1)])
    chroms, starts, ends, levels, truth = [], [], [], [], []
    for c in range(nch):
        chrom = 'chr%d' % (c + 1)
        k = kind if kind != 'mixed' else rng.choice(['step', 'flat'])
        cen = None
        if k == 'step':
            nl = rng.choice([100, 400, rng.randint(100, 400)])
            nr = rng.choice([100, 400, rng.randint(100, 400)])
            d = rng.choice([-1.0, 0.585] + ([1.0] if method == 'haar' else []))
            la, lb = (0.0, d) if rng.random() < 0.5 else (d, 0.0)
            n = nl + nr
            lev = [la] * nl + [lb] * nr
            truth.append({'chrom': chrom, 'n': n, 't': nl, 'la': la, 'lb': lb, 'arms': 1})
        else:
            n = rng.choice([100, 600, rng.randint(100, 600)])
            lev = [0.0] * n
            arms = 1
            if n >= 160 and rng.random() < 0.4:
                margin = max(50, int(round(0.1 * n)))
                cen = rng.randint(margin + 1, n - margin - 1)
                arms = 2
            truth.append({'chrom': chrom, 'n': n, 't': None, 'la': 0.0, 'lb': 0.0, 'arms': arms})
        pos = rng.randint(0, 100000)
        avg = rng.choice([200, 1000, 5000, 20000])
        for i in range(n):
            gap = rng.choice([0, 0, rng.randint(0, avg), rng.randint(0, 40000)])
            if cen is not None and i == cen:
                gap = rng.randint(100000, 5000000)
            pos += gap
            size = rng.randint(max(20, avg // 4), avg * 2)
            chroms.append(chrom)
            starts.append(pos)
            ends.append(pos + size)
            pos += size
        levels.extend(lev)
    N = len(chroms)
    log2 = (np.array(levels) + nrs.normal(0, sd, N)).tolist()
    weight = nrs.uniform(0.5, 1.0, N).tolist()
    case = {'method': method, 'kind': kind, 'sd': sd, 'truth': truth, 'chromosome': chroms, 'start': starts,
            'end': ends, 'log2': log2, 'weight': weight}
    return case


def run_profile(case):
    import pandas as pd
    from cnvlib.cnary import CopyNumArray as CNA
    from cnvlib.segmentation import do_segmentation
    df = pd.DataFrame({'chromosome': case['chromosome'], 'start': case['start'], 'end': case['end'],
                       'gene': '-', 'log2': case['log2'], 'weight': case['weight']})
    cna = CNA(df, {'sample_id': 'c11'})
    segs = do_segmentation(cna, case['method'])
    out = []
    for row in segs.data.itertuples(index=False):
        out.append({'chromosome': row.chromosome, 'start': int(row.start), 'end': int(row.end),
                    'log2': float(row.log2), 'probes': int(row.probes)})
    return out


def evaluate_profile(case, segs):
    """the statement of C11, clause by clause, on the segment table.  -> list of (sig, text, detail)"""
    fails = []
    m = 'haar' if case['method'] == 'haar' else 'hmm-germline'
    for tr in case['truth']:
        sub = [s for s in segs if s['chromosome'] == tr['chrom']]
        bstarts = [s for c, s in zip(case['chromosome'], case['start']) if c == tr['chrom']]
        if tr['t'] is None:
            if len(sub) != tr['arms']:
                fails.append(('%s-flat-oversegmented' % m, '%s: flat %d-bin profile (%d arm(s), sd %.3f) gives %d segments'
                              % (tr['chrom'], tr['n'], tr['arms'], case['sd'], len(sub)), sub))
            continue
        if len(sub) != 2:
            sig = '%s-noisy-step-%s' % (m, 'missed' if len(sub) < 2 else 'extra-breakpoints')
            fails.append((sig, '%s: step %g|%g at bin %d of %d (sd %.3f) gives %d breakpoint(s)'
                          % (tr['chrom'], tr['la'], tr['lb'], tr['t'], tr['n'], case['sd'], len(sub) - 1), sub))
            continue
        # position by coordinates (index of the bin that opens the second segment) and by cumulative probes
        try:
            bp = bstarts.index(sub[1]['start'])
        except ValueError:
            bp = sub[0]['probes']
        if abs(bp - tr['t']) > 5 or abs(sub[0]['probes'] - tr['t']) > 5:
            fails.append(('%s-noisy-step-misplaced' % m, '%s: step at bin %d reported at bin %d (cumulative probes %d), sd %.3f'
                          % (tr['chrom'], tr['t'], bp, sub[0]['probes'], case['sd']), sub))
        if abs(sub[0]['log2'] - tr['la']) > 0.1 or abs(sub[1]['log2'] - tr['lb']) > 0.1:
            fails.append(('%s-noisy-step-means' % m, '%s: segment means %.4f, %.4f for true levels %g, %g (sd %.3f)'
                          % (tr['chrom'], sub[0]['log2'], sub[1]['log2'], tr['la'], tr['lb'], case['sd']), sub))
    return fails


def monitor(ck, method, n_profiles):
    t0 = time.time()
    stats = {'profiles': 0, 'chromosomes': 0, 'failed_profiles': 0, 'by_signature': {}}
    for i in range(n_profiles):
        kind = ['step', 'flat', 'step', 'mixed'][i % 4]
        case = gen_profile(ck, kind, method)
        try:
            segs = run_profile(case)
            fails = evaluate_profile(case, segs)
        except Exception as e:   # noqa
            segs = None
            fails = [('%s-exception' % method, 'do_segmentation raised %s: %s' % (type(e).__name__, str(e)[:200]), None)]
        stats['profiles'] += 1
        stats['chromosomes'] += len(case['truth'])
        small = {k: case[k] for k in ('method', 'kind', 'sd', 'truth')}
        ck.count(['profile', method, kind, case['sd'], case['truth'], case['log2'][:4]], nontrivial=True,
                 cls='monitor:%s:%s' % (method, kind))
        if fails:
            stats['failed_profiles'] += 1
            for sig, text, detail in fails:
                stats['by_signature'][sig] = stats['by_signature'].get(sig, 0) + 1
            sig, text, detail = fails[0]
            ck.violation('%s: %s' % (method, text), case, sig=sig, code=segs, expected=small,
                         clause='C11 statement (monitored)', all_failures=[(s, t) for s, t, _ in fails])
    stats['wall_s'] = round(time.time() - t0, 1)
    ck.extra.setdefault('monitoring', {})[method] = stats


# ----------------------------------------------------------------------------


def run(ck, scratch):
    from cnvlib.segmentation import haar
    ck.rule = ('core: dyadic signals (values k/1024: constant, clean step, noisy step, multi-level, plateaus, small alphabets, '
               'uniform) x weights (None, 1, {1/2,1}, k/64) x lengths 1..700 biased to each level half-width +-1; HaarConv at '
               'h=1 and h=2..32 (+ one odd/limit half-width) against integer mirrored window sums and the model; FindLocalPeaks '
               'on every HaarConv output and on synthetic plateau sequences against the plateau characterisation and the model; '
               'UnifyLevels on sorted lists with add-ons placed at the window edges (+10% unsorted/duplicate, model only); '
               'SegmentByPeaks against Fraction means; FDRThres and haarSeg with the p-values supplied from scipy as the code '
               'computes them. monitoring: generated step/flat/mixed profiles per the quantifier through do_segmentation. '
               'non-trivial = non-zero convolution / at least one peak / both lists non-empty / at least one breakpoint / every profile')
    ck.explanation = (
        'Level other (partial). Proved in Coq for the exact-arithmetic model of the HaarSeg core (Props/C11.v): flat signals give '
        'zero convolution, no peaks, no breakpoints and one segment at the constant; the recurrence equals the mirrored '
        'window-sum closed form; level unification is sorted, duplicate-free, keeps every base breakpoint and no add-on within a '
        'window; start/end/size tile 0..n. The model is tied to cnvlib.segmentation.haar by differential correspondence on dyadic '
        'inputs. The property text itself (noisy profiles, sd <= 0.1, Savitzky-Golay pre-smoothing, FDR threshold through the normal '
        'cdf, and the whole hmm-germline path through pomegranate) is NOT proved: it is monitored by evaluating the statement on '
        'generated profiles (coverage.monitoring).')
    ck.unproved_remainder = [
        'the noisy statistical claim for haar (exactly one breakpoint within 5 bins, means within 0.1, flat -> one segment per arm, '
        'for Gaussian noise sd <= 0.1): sampled only (coverage.monitoring.haar); a worst-case theorem is false at these parameters '
        'and a probabilistic one needs tail bounds through scipy savgol + the FDR procedure',
        'everything about hmm-germline (pomegranate Baum-Welch fit, MAP decoding, squash_by_groups): sampled only '
        '(coverage.monitoring.hmm-germline); outside the model',
        'smooth_log2 / savgol pre-smoothing, drop_outliers, by_arm and transfer_fields are on the code side of the monitoring only',
        'FDRThres p-values (normal cdf with the sigma estimate passed as location) and the sqrt scale constants are oracles supplied '
        'from scipy/libm; float rounding of the convolution is bridged by the 1e-9 comparison rule',
    ]
    if not ck.build_status.get('driver_ok'):
        raise RuntimeError('model driver unavailable')
    core_correspondence(ck, haar)
    quick = ck.tier == 'quick'
    monitor(ck, 'haar', 160 if quick else 3000)
    monitor(ck, 'hmm-germline', 80 if quick else 1500)


def replay(ck, body):
    case = body.get('case') or {}
    if isinstance(case, dict) and 'truth' in case and 'log2' in case:
        segs = run_profile(case)
        fails = evaluate_profile(case, segs)
        for s in segs:
            print(s)
        for sig, text, _ in fails:
            print('FAILS [%s] %s' % (sig, text))
        print('replay: %s' % ('still failing' if fails else 'passes now'))
        return 1 if fails else 0
    print(body.get('what'))
    print({k: (v if not isinstance(v, list) or len(v) < 40 else '%d values' % len(v)) for k, v in case.items()} if isinstance(case, dict) else case)
    return 0
