"""C11 -- a clear copy-number step is found and localised; flat profiles stay unsegmented.

Claimed at level `proof`: the discrete core, the clean-step clauses and the deterministic BOUNDED-noise clauses are theorems
(DESIGN section 5 C11); Gaussian noise beyond the bound and hmm-germline are monitored by sampling.  Three parts:

(a) correspondence of the discrete HaarSeg core: cnvlib.segmentation.haar.HaarConv /
    FindLocalPeaks / UnifyLevels / SegmentByPeaks / FDRThres / haarSeg against the
    extracted Coq model (Model/Haar.v) on dyadic signals (values on a 1/1024 grid,
    weights on a 1/64 grid, so every running sum is exact in binary64), with
    independent oracles: mirrored window sums in integer arithmetic (conv), the
    plateau characterisation (peaks), the set formula (unify), Fraction means
    (segments), and the idealised clauses of the property (flat -> one segment,
    clean step -> exactly [t], start/end/size tile 0..n);
(b) monitoring of the claim itself on the real pipeline: generated profiles of
    the quantifier, the statement evaluated directly on do_segmentation(cnarr,
    "haar") and do_segmentation(cnarr, "hmm-germline").  A failure is a concrete
    failing input (ck.violation with a regime signature); absence of failures
    is N sampled profiles, nothing more (unproved_remainder).
"""
import math, time
from fractions import Fraction
import numpy as np
import vlib
from vlib import Err

LEVEL = 'proof'

GRID = 1024          # signal values are k/1024
WGRID = 64           # weights are k/64
LEVELS = [1, 2, 3, 4, 5]       # cross-checked against Gen/HaarDefaults via the model's output shape
FDR_EPS = 1e-16      # only used to supply the float-absorption oracle (see Model/Haar.v header)


# ----------------------------------------------------------------------------
# generators (everything from ck.rng)


def gen_length(rng):
    r = rng.random()
    if r < 0.15:
        return rng.randint(1, 10)
    if r < 0.40:
        h = rng.choice([2, 4, 8, 16, 32, 64])
        return max(1, h + rng.choice([-1, 0, 1, 2]))
    if r < 0.75:
        return rng.randint(11, 150)
    return rng.randint(150, 700)


def gen_weights(rng, n):
    kind = rng.choice(['none', 'none', 'one', 'uniform', 'half-one', 'dyadic', 'upper'])
    if kind == 'none':
        return kind, None
    if kind == 'one':
        return kind, [1.0] * n
    if kind == 'uniform':
        return kind, [rng.randint(1, WGRID) / WGRID] * n
    if kind == 'half-one':
        return kind, [rng.choice([0.5, 1.0]) for _ in range(n)]
    if kind == 'dyadic':
        return kind, [rng.randint(1, WGRID) / WGRID for _ in range(n)]
    return kind, [rng.randint(WGRID // 2, WGRID) / WGRID for _ in range(n)]


def grid(x):
    return round(x * GRID) / GRID


STEP_LEVELS = [(0.0, -1.0), (-1.0, 0.0), (0.0, 0.5849609375), (0.5849609375, 0.0), (0.0, 1.0), (1.0, 0.0)]


def gen_two_steps(rng, n):
    """two clean steps a | b | c; when n allows, separated as C11_two_steps asks (>= 32 / 64 / 32), with the
    boundary separations over-represented"""
    a = rng.choice([0.0, 0.0, -1.0, grid(rng.uniform(-1, 1))])
    d1 = rng.choice([1.0, -1.0, grid(0.585), 0.25, 0.125, grid(rng.uniform(-2, 2))]) or 1.0
    d2 = rng.choice([-d1, -d1, d1, d1 / 2, -2 * d1, grid(rng.uniform(-2, 2))]) or -1.0
    b, c = grid(a + d1), grid(a + d1 + d2)
    if b == a:
        b = a + 1.0
    if c == b:
        c = b - 1.0
    if n >= 128 and rng.random() < 0.85:
        t1 = rng.choice([32, rng.randint(32, n - 96)])
        t2 = rng.choice([t1 + 64, n - 32, rng.randint(t1 + 64, n - 32)])
    else:
        t1 = rng.randint(1, n - 2)
        t2 = rng.randint(t1 + 1, n - 1)
    return 'clean-two-steps', [a] * t1 + [b] * (t2 - t1) + [c] * (n - t2), ('two', t1, t2, a, b, c)


def gen_signal(rng, n):
    """-> (kind, values, truth) ; truth = ('flat', c) | ('step', t, a, b) | ('two', t1, t2, a, b, c) | None"""
    kind = rng.choice(['rand', 'plateau', 'flat', 'clean-step', 'clean-two-steps', 'noisy-step', 'multi', 'alphabet', 'noise'])
    if kind == 'clean-two-steps':
        if n < 8:
            kind = 'clean-step'
        else:
            return gen_two_steps(rng, n)
    if kind == 'flat' or n < 2:
        c = rng.choice([0.0, 1.0, -1.0, grid(rng.uniform(-2, 2))])
        return 'flat', [c] * n, ('flat', c)
    if kind == 'rand':
        return kind, [rng.randint(-2 * GRID, 2 * GRID) / GRID for _ in range(n)], None
    if kind == 'alphabet':
        al = rng.choice([[-1, 0, 1], [0, 1], [-2, -1, 0, 1, 2], [0.5, 1.0, 1.5]])
        return kind, [float(rng.choice(al)) for _ in range(n)], None
    if kind == 'plateau':
        out = []
        while len(out) < n:
            v = rng.choice([-1.0, -0.5, 0.0, 0.0, 0.5, 1.0, grid(rng.uniform(-1, 1))])
            out.extend([v] * rng.choice([1, 1, 2, 3, rng.randint(1, 40)]))
        return kind, out[:n], None
    if kind == 'clean-step':
        a, b = rng.choice([(0.0, -1.0), (-1.0, 0.0), (0.0, grid(0.585)), (grid(0.585), 0.0), (0.0, 1.0), (1.0, 0.0),
                           (grid(rng.uniform(-2, 2)), grid(rng.uniform(-2, 2)))])
        if a == b:
            b = a + 1.0
        t = rng.randint(1, n - 1)
        if n >= 64 and rng.random() < 0.8:
            t = rng.choice([32, n - 32, rng.randint(32, n - 32)])
        return kind, [a] * t + [b] * (n - t), ('step', t, a, b)
    sd = rng.choice([0.02, 0.05, 0.1, 0.3])
    if kind == 'noise':
        return kind, [grid(rng.gauss(0, sd)) for _ in range(n)], None
    if kind == 'noisy-step':
        a, b = rng.choice([(0.0, -1.0), (-1.0, 0.0), (0.0, 0.585), (0.585, 0.0), (0.0, 1.0), (0.0, 0.2), (0.0, -0.1)])
        t = rng.randint(1, n - 1)
        return kind, [grid((a if i < t else b) + rng.gauss(0, sd)) for i in range(n)], None
    # multi
    out, lev = [], 0.0
    while len(out) < n:
        lev = rng.choice([0.0, -1.0, 0.585, 1.0, -0.4, 0.3])
        out.extend(grid(lev + rng.gauss(0, sd)) for _ in range(rng.choice([1, 2, 3, 5, 10, 33, 64, rng.randint(1, 200)])))
    return kind, out[:n], None


# ----------------------------------------------------------------------------
# independent oracles


def conv_closed_form(sig, wt, h):
    """mirrored window sums, integer arithmetic; returns Fractions *without* the sqrt scale:
    unweighted: sum(high) - sum(low); weighted: sum_w(high)/W(high) - sum_w(low)/W(low)."""
    n = len(sig)
    if h > n:
        return None
    si = [int(round(x * GRID)) for x in sig]
    if wt is None:
        ext = si[:h][::-1] + si + si[n - h:][::-1]
        P = [0]
        for x in ext:
            P.append(P[-1] + x)
        out = [Fraction(0)]
        for k in range(1, n):
            high = P[k + 2 * h] - P[k + h]
            low = P[k + h] - P[k]
            out.append(Fraction(high - low, GRID))
        return out
    wi = [int(round(x * WGRID)) for x in wt]
    swi = [a * b for a, b in zip(si, wi)]
    extw = wi[:h][::-1] + wi + wi[n - h:][::-1]
    exts = swi[:h][::-1] + swi + swi[n - h:][::-1]
    PW, PS = [0], [0]
    for a, b in zip(extw, exts):
        PW.append(PW[-1] + a)
        PS.append(PS[-1] + b)
    out = [Fraction(0)]
    for k in range(1, n):
        hw, hs = PW[k + 2 * h] - PW[k + h], PS[k + 2 * h] - PS[k + h]
        lw, ls = PW[k + h] - PW[k], PS[k + h] - PS[k]
        out.append(Fraction(hs, hw * GRID) - Fraction(ls, lw * GRID))
    return out


def peaks_plateau_oracle(sig):
    """first index of every maximal run of equal values that is strictly above both
    neighbours and positive (or strictly below and negative); runs touching either
    end of the array do not count."""
    n = len(sig)
    out = []
    i = 0
    while i < n:
        j = i
        while j + 1 < n and sig[j + 1] == sig[i]:
            j += 1
        if i >= 1 and j <= n - 2:
            v = sig[i]
            if v > 0 and v > sig[i - 1] and v > sig[j + 1]:
                out.append(i)
            elif v < 0 and v < sig[i - 1] and v < sig[j + 1]:
                out.append(i)
        i = j + 1
    return out


def unify_oracle(base, addon, w):
    keep = [a for a in addon if all(abs(a - b) > w for b in base)]
    return sorted(set(base) | set(keep))


def seg_means_oracle(sig, bps, wt):
    n = len(sig)
    st = [0] + list(bps)
    ed = list(bps) + [n]
    out = []
    for s, e in zip(st, ed):
        d = [Fraction(x) for x in sig[s:e]]
        if wt is not None and sum(Fraction(x) for x in wt[s:e]) > 0:
            ws = [Fraction(x) for x in wt[s:e]]
            out.append(sum(a * b for a, b in zip(d, ws)) / sum(ws))
        else:
            out.append(sum(d) / len(d))
    return out


def guarded(fn, *args, **kw):
    """run a function of the code under test; an exception on a valid input is an outcome, not a harness failure"""
    try:
        return fn(*args, **kw)
    except Exception as e:   # noqa
        return Err('%s: %s' % (type(e).__name__, str(e)[:120]))


def allclose(code, model, tol=vlib.TOL):
    if isinstance(model, Err) or len(code) != len(model):
        return False
    return all(vlib.close(float(c), m, tol) for c, m in zip(code, model))


# ----------------------------------------------------------------------------
# (a) correspondence of the core


def scale_for(wt, h):
    return math.sqrt(2.0 * h) if wt is None else math.sqrt(h / 2)


def sign_pattern_ambiguous(code, model):
    """the code's floats and the model's rationals order neighbouring values differently, and every
    such place is a near-tie of the exact values (below 1e-9): a float-ambiguous decision."""
    def cmp(a, b):
        return (a > b) - (a < b)
    differ, all_tiny = False, True
    for k in range(len(code)):
        pairs = [(code[k], 0.0, model[k], 0)]
        if k:
            pairs.append((code[k], code[k - 1], model[k], model[k - 1]))
        for cx, cy, mx, my in pairs:
            if cmp(cx, cy) != cmp(mx, my):
                differ = True
                if abs(float(mx - my)) > 1e-9 * max(1.0, abs(float(mx))):
                    all_tiny = False
    return differ and all_tiny


def check_conv_and_peaks(ck, haar, cases):
    """cases: list of (kind, sig, wkind, wt).  For each: HaarConv at h=1 unweighted and at the five
    levels (+ two odd half-widths) with the case's weights; FindLocalPeaks on each code output."""
    reqs, meta = [], []
    for ci, (kind, sig, wkind, wt) in enumerate(cases):
        n = len(sig)
        hs = [(1, None)] + [(2 ** l, wt) for l in LEVELS]
        hs.append((ck.rng.choice([1, 3, 5, 7, n, n + 1, max(1, n - 1)]), wt))
        for h, w in hs:
            reqs.append([sig, w, h, scale_for(w, h)])
            meta.append((ci, h, w))
    model = vlib.model_batch_parallel('c11_conv', reqs)
    peak_reqs, peak_meta = [], []
    for (ci, h, w), req, m in zip(meta, reqs, model):
        kind, sig, wkind, wt = cases[ci]
        n = len(sig)
        code = guarded(haar.HaarConv, np.array(sig, dtype=float), None if w is None else np.array(w, dtype=float), h)
        case = {'fn': 'HaarConv', 'signal': sig, 'weight': w, 'h': h}
        if isinstance(code, Err):
            ck.count(['conv', kind, wkind, n, h, sig[:8]], nontrivial=True, cls='conv:raised')
            ck.violation('HaarConv raised %s' % code.msg, case, code=code, clause='C11_conv_window')
            continue
        code_l = [float(x) for x in code]
        cf = conv_closed_form(sig, w, h)
        sc = scale_for(w, h)
        if cf is None:
            exp = [0.0] * n
        elif w is None:
            exp = [float(x) / sc for x in cf]
        else:
            exp = [float(x) * sc for x in cf]
        nontriv = cf is not None and any(x != 0 for x in cf)
        ck.count(['conv', kind, wkind, n, h, sig[:8]], nontrivial=nontriv,
                 cls='conv:%s:%s' % ('short' if cf is None else ('unweighted' if w is None else 'weighted'), kind))
        ok_oracle = len(code_l) == n and all(abs(c - e) <= 1e-9 * max(1.0, abs(e)) for c, e in zip(code_l, exp))
        if not ok_oracle:
            ck.violation('HaarConv differs from the mirrored window-sum difference (closed form)', case,
                         code=code_l, expected=exp, clause='C11_conv_window')
        elif not allclose(code_l, m):
            ck.tie_break('model haar_conv differs from HaarConv', case, code=code_l, model=m)
        # peaks on the code's own conv output (identical floats on both sides: exact comparison)
        peak_reqs.append(code_l)
        peak_meta.append((kind, wkind, h))
    return peak_reqs, peak_meta


def check_peaks(ck, haar, sigs, metas):
    model = vlib.model_batch_parallel('c11_peaks', sigs)
    for sig, meta, m in zip(sigs, metas, model):
        code = guarded(lambda: [int(x) for x in haar.FindLocalPeaks(np.array(sig, dtype=float))])
        exp = peaks_plateau_oracle(sig)
        case = {'fn': 'FindLocalPeaks', 'signal': sig}
        ck.count(['peaks', meta, len(sig), sig[:12]], nontrivial=len(exp) > 0, cls='peaks:%s' % (meta[0],))
        if code != exp:
            ck.violation('FindLocalPeaks does not return the first index of every strict interior extremal plateau',
                         case, code=code, expected=exp, clause='C11_peaks')
        elif code != m:
            ck.tie_break('model find_local_peaks differs from FindLocalPeaks', case, code=code, model=m)


def gen_plateau_signals(ck, n_cases):
    out, metas = [], []
    for _ in range(n_cases):
        n = ck.rng.choice([0, 1, 2, 3, ck.rng.randint(3, 12), ck.rng.randint(3, 60)])
        al = ck.rng.choice([[-1, 0, 1], [-2, -1, 1, 2], [0, 1, 2], [-1, -2, 0], [-1.5, -1, 0, 1, 1.5]])
        sig = []
        while len(sig) < n:
            sig.extend([float(ck.rng.choice(al))] * ck.rng.choice([1, 1, 2, 3, 4]))
        out.append(sig[:n])
        metas.append(('synthetic-plateaus', '-', 0))
    return out, metas


def check_unify(ck, haar, n_cases):
    cases = []
    for i in range(n_cases):
        top = ck.rng.choice([10, 40, 200, 700])
        nb, na = ck.rng.randint(0, 8), ck.rng.randint(0, 10)
        w = ck.rng.choice([0, 1, 2, 4, 8, 16, ck.rng.randint(0, 40)])
        base = sorted(ck.rng.sample(range(1, top), min(nb, top - 1)))
        addon = sorted(ck.rng.sample(range(1, top), min(na, top - 1)))
        if base and ck.rng.random() < 0.6:
            # add-ons placed exactly at / around the window edges of base elements
            extra = []
            for _ in range(ck.rng.randint(1, 4)):
                b = ck.rng.choice(base)
                extra.append(b + ck.rng.choice([-w - 1, -w, -w + 1, 0, w - 1, w, w + 1]))
            addon = sorted(set(addon) | {a for a in extra if a >= 0})
        malformed = i % 10 == 9
        if malformed:
            addon = addon + [ck.rng.choice(addon)] if addon else addon
            ck.rng.shuffle(addon)
            if ck.rng.random() < 0.5:
                ck.rng.shuffle(base)
        cases.append((base, addon, w, malformed))
    model = vlib.model_batch('c11_unify', [[b, a, w] for b, a, w, _ in cases])
    for (base, addon, w, malformed), m in zip(cases, model):
        code = guarded(lambda: [int(x) for x in haar.UnifyLevels(np.array(base, dtype=np.int_), np.array(addon, dtype=np.int_), w)])
        case = {'fn': 'UnifyLevels', 'base': base, 'addon': addon, 'window': w}
        ck.count(['unify', base, addon, w], nontrivial=bool(base) and bool(addon), cls='unify:%s' % ('unsorted' if malformed else 'sorted'))
        if not malformed:
            exp = unify_oracle(base, addon, w)
            if code != exp:
                ck.violation('UnifyLevels is not sorted(base + add-ons outside every window)', case,
                             code=code, expected=exp, clause='C11_unify_sorted')
                continue
        if code != m:
            ck.tie_break('model unify_levels differs from UnifyLevels', case, code=code, model=m)


def check_segment(ck, haar, n_cases):
    cases = []
    for _ in range(n_cases):
        n = ck.rng.choice([1, 2, 3, ck.rng.randint(2, 30), ck.rng.randint(2, 300)])
        sig = [ck.rng.randint(-2 * GRID, 2 * GRID) / GRID for _ in range(n)]
        wkind, wt = gen_weights(ck.rng, n)
        k = ck.rng.randint(0, min(6, n - 1))
        bps = sorted(ck.rng.sample(range(1, n), k)) if n > 1 else []
        cases.append((sig, bps, wkind, wt))
    model = vlib.model_batch('c11_segment', [[s, b, w] for s, b, _, w in cases])
    for (sig, bps, wkind, wt), m in zip(cases, model):
        code = guarded(lambda: [float(x) for x in haar.SegmentByPeaks(
            np.array(sig, dtype=float), np.array(bps, dtype=np.int_), None if wt is None else np.array(wt, dtype=float))])
        means = seg_means_oracle(sig, bps, wt)
        exp = []
        for (s, e), v in zip(zip([0] + bps, bps + [len(sig)]), means):
            exp.extend([v] * (e - s))
        case = {'fn': 'SegmentByPeaks', 'data': sig, 'peaks': bps, 'weights': wt}
        ck.count(['segment', len(sig), bps, wkind, sig[:6]], nontrivial=len(bps) > 0, cls='segment:%s' % wkind)
        if isinstance(code, Err) or not allclose(code, exp):
            ck.violation('SegmentByPeaks is not the (weighted) mean of each segment', case, code=code,
                         expected=[float(x) for x in exp], clause='C11_segment_means')
        elif not allclose(code, m):
            ck.tie_break('model segment_by_peaks differs from SegmentByPeaks', case, code=code, model=m)


class FdrTap:
    """records the arguments/results of haar.FDRThres while haarSeg runs (in this process only)"""
    def __init__(self, haar):
        self.haar, self.calls, self.orig = haar, [], haar.FDRThres

    def __enter__(self):
        def tap(x, q, stdev):
            t = self.orig(x, q, stdev)
            self.calls.append((np.array(x, dtype=float).copy(), float(q), float(stdev), float(t)))
            return t
        self.haar.FDRThres = tap
        return self

    def __exit__(self, *a):
        self.haar.FDRThres = self.orig


def fdr_oracles(calls):
    """p-values (the way FDRThres computes them: sigma is the *location* of the cdf), the absorption
    flag, and the smallest relative margin of the p <= m*q decisions."""
    from scipy import stats
    pv, ab, margin, near_tie = [], [], 1.0, False
    for x, q, stdev, t in calls:
        M = len(x)
        if M < 2:
            pv.append([])
            ab.append(False)
            continue
        xs = np.sort(np.abs(x))[::-1]
        p = 2 * (1 - stats.norm.cdf(xs, stdev))
        pv.append([float(v) for v in p])
        ab.append(bool(xs[0] + FDR_EPS == xs[0]))
        for i, v in enumerate(p):
            thr = Fraction(i + 1, M) * Fraction(q)
            d = abs(Fraction(float(v)) - thr)
            margin = min(margin, float(d / thr) if thr else 1.0)
        for a, b in zip(xs[:-1], xs[1:]):
            if a != b and abs(a - b) <= 1e-9 * max(1.0, abs(a)):
                near_tie = True
    return pv, ab, margin, near_tie


def property_oracle_ideal(truth, wt, n, res):
    """the idealised clauses on the code's haarSeg output; returns a failure text or None"""
    st, ed, sz, mean = res['start'], res['end'], res['size'], res['mean']
    k = len(st)
    if not (k >= 1 and len(ed) == k and len(sz) == k and len(mean) == k and st[0] == 0 and ed[-1] == n - 1
            and all(sz[i] == ed[i] - st[i] + 1 and sz[i] > 0 for i in range(k))
            and all(st[i + 1] == ed[i] + 1 for i in range(k - 1)) and sum(sz) == n):
        return 'C11_sizes', 'start/end/size do not tile 0..n-1 with positive sizes'
    if truth and truth[0] == 'flat':
        if k != 1 or abs(mean[0] - truth[1]) > 1e-9:
            return 'C11_flat', 'a constant signal is not reported as one segment at the constant'
    uniform = wt is None or (len(set(wt)) == 1 and wt[0] > 0)
    positive = wt is None or all(x > 0 for x in wt)
    if truth and truth[0] == 'step' and positive:
        _, t, a, b = truth
        if t >= 32 and n - t >= 32:
            if (st != [0, t] or ed != [t - 1, n - 1] or sz != [t, n - t]
                    or abs(mean[0] - a) > 1e-9 or abs(mean[1] - b) > 1e-9):
                return ('C11_clean_step' if uniform else 'C11_clean_step_weighted',
                        'a noiseless step with >= 32 bins per side (no / any positive weights) is not exactly one '
                        'breakpoint at t with sizes t, n-t and means a, b')
    if truth and truth[0] == 'two' and uniform:
        _, t1, t2, a, b, c = truth
        if t1 >= 32 and t2 - t1 >= 64 and n - t2 >= 32:
            if not set(st[1:]) <= {t1, t2}:
                return 'C11_two_steps', 'two separated noiseless steps: a breakpoint other than t1, t2 is reported'
            if st == [0, t1, t2] and (abs(mean[0] - a) > 1e-9 or abs(mean[1] - b) > 1e-9 or abs(mean[2] - c) > 1e-9):
                return 'C11_two_steps', 'two separated noiseless steps found, but the segment means are not a, b, c'
    return None


def weighted_shape_oracle(haar, truth, sig, wt, n):
    """C11_clean_step_weighted on the code's HaarConv / FindLocalPeaks, arbitrary positive weights: per level the
    convolution (in the direction of the step) is 0 up to t-h, strictly increasing to t, strictly decreasing to t+h,
    0 after, and equals scale * (b - a) * (weight share past t of the upper window - of the lower window); the peaks
    are exactly [t]."""
    _, t, a, b = truth
    if not (t >= 32 and n - t >= 32):
        return None
    I = np.array(sig, dtype=float)
    W = np.array(wt, dtype=float)
    sgn = 1.0 if b > a else -1.0
    wi = [int(round(x * WGRID)) for x in wt]
    for l in LEVELS:
        h = 2 ** l
        conv = [float(x) for x in haar.HaarConv(I, W, h)]
        v = [sgn * x for x in conv]
        ok = (all(abs(v[k]) <= 1e-12 for k in range(0, t - h + 1)) and all(abs(v[k]) <= 1e-12 for k in range(t + h, n))
              and all(v[k] < v[k + 1] for k in range(t - h, t)) and all(v[k + 1] < v[k] for k in range(t, min(t + h, n - 1))))
        if ok and all(abs(x * WGRID - round(x * WGRID)) < 1e-12 for x in wt):
            ext = wi[:h][::-1] + wi + wi[n - h:][::-1]       # mirrored weights, index j + h

            def share(s):
                tot = sum(ext[s + h:s + 2 * h])
                return Fraction(sum(ext[j + h] for j in range(s, s + h) if j >= t), tot)
            for k in (t - h + 1, t - 1, t, t + 1, t + h - 1):
                e = math.sqrt(h / 2) * (b - a) * float(share(k) - share(k - h))
                if abs(conv[k] - e) > 1e-9 * max(1.0, abs(e)):
                    ok = False
        if not ok:
            return 'C11_clean_step_weighted', ('level %d: the weighted convolution of a noiseless step is not the '
                                               'unimodal weight-share shape (0, strictly up to t, strictly down, 0)' % l), {'code': conv}
        peaks = [int(x) for x in haar.FindLocalPeaks(np.array(conv))]
        if peaks != [t]:
            return 'C11_clean_step_weighted', 'level %d: FindLocalPeaks does not return exactly [t]' % l, \
                {'code': peaks, 'expected': [t]}
    return None


def level_shape_oracle(haar, truth, sig, wt, n):
    """C11_clean_step / C11_two_steps, level by level, on the code's HaarConv and FindLocalPeaks: the convolution is
    the tent amp * max(0, h - |k - t|) (sum of two tents for two steps) and the peaks are exactly the step positions."""
    if not truth or truth[0] not in ('step', 'two'):
        return None
    if not (wt is None or (len(set(wt)) == 1 and wt[0] > 0)):
        if truth[0] == 'step' and all(x > 0 for x in wt):
            return weighted_shape_oracle(haar, truth, sig, wt, n)
        return None
    if truth[0] == 'step':
        _, t, a, b = truth
        if not (t >= 32 and n - t >= 32):
            return None
        steps, clause = [(t, b - a)], 'C11_clean_step'
    else:
        _, t1, t2, a, b, c = truth
        if not (t1 >= 32 and t2 - t1 >= 64 and n - t2 >= 32):
            return None
        steps, clause = [(t1, b - a), (t2, c - b)], 'C11_two_steps'
    I = np.array(sig, dtype=float)
    W = None if wt is None else np.array(wt, dtype=float)
    for l in LEVELS:
        h = 2 ** l
        conv = [float(x) for x in haar.HaarConv(I, W, h)]
        f = (1.0 / math.sqrt(2.0 * h)) if wt is None else (math.sqrt(h / 2) / h)
        exp = [f * sum(d * max(0, h - abs(k - t)) for t, d in steps) for k in range(n)]
        if len(conv) != n or any(abs(x - e) > 1e-9 * max(1.0, abs(e)) for x, e in zip(conv, exp)):
            return clause, 'level %d: the convolution of a noiseless step is not the tent amp * max(0, h - |k - t|)' % l, \
                {'code': conv, 'expected': exp}
        peaks = [int(x) for x in haar.FindLocalPeaks(np.array(conv))]
        if peaks != [t for t, _ in steps]:
            return clause, 'level %d: FindLocalPeaks on the tent does not return exactly the step position(s)' % l, \
                {'code': peaks, 'expected': [t for t, _ in steps]}
    return None


def means_oracle_rows(sig, wt, res):
    """C11_step_means on the code's output: every row's mean is the (weighted) mean of exactly its bins"""
    exp = seg_means_oracle(sig, res['start'][1:], wt)
    return len(exp) == len(res['mean']) and all(abs(float(e) - m) <= 1e-9 * max(1.0, abs(float(e))) for e, m in zip(exp, res['mean']))


def check_haarseg(ck, haar, cases):
    runs = []
    for kind, sig, truth, wkind, wt, q in cases:
        I = np.array(sig, dtype=float)
        W = None if wt is None else np.array(wt, dtype=float)
        with FdrTap(haar) as tap:
            r = guarded(haar.haarSeg, I, q, W=W)
        if isinstance(r, Err):
            runs.append((r, [[] for _ in LEVELS], [False for _ in LEVELS], 1.0, False, None, 0))
            continue
        res = {k: [float(x) if k == 'mean' else int(x) for x in r[k]] for k in ('start', 'end', 'size', 'mean')}
        pv, ab, margin, near_tie = fdr_oracles(tap.calls)
        sigma = tap.calls[0][2] if tap.calls else None
        runs.append((res, pv, ab, margin, near_tie, sigma, len(tap.calls)))
    reqs = []
    for (kind, sig, truth, wkind, wt, q), (res, pv, ab, margin, near_tie, sigma, ncalls) in zip(cases, runs):
        reqs.append([sig, wt, q, math.sqrt(2.0 * 1), [math.sqrt(2.0 * 2 ** l) for l in LEVELS],
                     [math.sqrt(2 ** l / 2) for l in LEVELS], pv, ab])
    model = vlib.model_batch_parallel('c11_haarseg', reqs)
    for (kind, sig, truth, wkind, wt, q), (res, pv, ab, margin, near_tie, sigma, ncalls), m in zip(cases, runs, model):
        n = len(sig)
        case = {'fn': 'haarSeg', 'kind': kind, 'signal': sig, 'weights': wt, 'q': q}
        if isinstance(res, Err):
            ck.count(['haarseg', kind, wkind, n, q, sig[:10]], nontrivial=True, cls='haarseg:raised')
            ck.violation('haarSeg raised %s' % res.msg, case, code=res, clause='C11_sizes')
            continue
        nbp = len(res['start']) - 1
        ck.count(['haarseg', kind, wkind, n, q, sig[:10]], nontrivial=nbp > 0,
                 cls='haarseg:%s:%s' % (kind, 'w' if wt is not None else 'u'))
        ck.cls('haarseg:breakpoints=%s' % (nbp if nbp < 3 else '3+'))
        bad = property_oracle_ideal(truth, wt, n, res)
        if bad:
            ck.violation('haarSeg: ' + bad[1], case, code=res, clause=bad[0])
            continue
        if not means_oracle_rows(sig, wt, res):
            ck.violation('haarSeg: a reported segment mean is not the (weighted) mean of exactly the bins of its row',
                         case, code=res, expected=[float(x) for x in seg_means_oracle(sig, res['start'][1:], wt)],
                         clause='C11_step_means')
            continue
        bad = level_shape_oracle(haar, truth, sig, wt, n)
        if bad:
            ck.violation('haarSeg levels: ' + bad[1], case, clause=bad[0], **bad[2])
            continue
        if ncalls != len(LEVELS):
            ck.tie_break('haarSeg ran %d levels, the model (Gen/HaarDefaults) has %d' % (ncalls, len(LEVELS)), case)
            continue
        if isinstance(m, Err):
            ck.tie_break('model haar_seg failed: %s' % m.msg, case, code=res)
            continue
        mbreaks, mst, med, msz, mmean, msigma, mpeaks, maddon = m
        # per-level peaks of the code, to localise a difference and to recognise float-ambiguous ties
        same = (res['start'] == mst and res['end'] == med and res['size'] == msz)
        if not same:
            amb = margin < 1e-9 or near_tie
            if not amb:
                for li, l in enumerate(LEVELS):
                    W = None if wt is None else np.array(wt, dtype=float)
                    cconv = [float(x) for x in haar.HaarConv(np.array(sig, dtype=float), W, 2 ** l)]
                    mconv = vlib.model_call('c11_conv', [sig, wt, 2 ** l, scale_for(wt, 2 ** l)])
                    if not isinstance(mconv, Err) and len(mconv) == len(cconv) and sign_pattern_ambiguous(cconv, mconv):
                        amb = True
                        break
            if amb:
                ck.float_ambiguous += 1
                ck.cls('haarseg:float-ambiguous')
                continue
            ck.tie_break('model haar_seg breakpoints differ from haarSeg', case, code=res,
                         model={'start': mst, 'end': med, 'size': msz, 'peaks': mpeaks, 'addon': maddon})
            continue
        if not allclose(res['mean'], mmean):
            ck.tie_break('model haar_seg segment means differ from haarSeg', case, code=res['mean'], model=mmean)
        elif sigma is not None and not vlib.close(sigma, msigma):
            ck.tie_break('model peak_sigma_est differs from the sigma haarSeg passes to FDRThres', case,
                         code=sigma, model=msigma)


def check_fdr(ck, haar, n_cases):
    """FDRThres alone, p-values supplied as computed by the code's own formula."""
    cases = []
    for _ in range(n_cases):
        M = ck.rng.choice([0, 1, 2, 3, ck.rng.randint(2, 12), ck.rng.randint(2, 60)])
        scale = ck.rng.choice([0.5, 1, 3, 6])
        x = [ck.rng.choice([-1, 1]) * ck.rng.randint(0, 8 * GRID) / GRID * scale for _ in range(M)]
        q = ck.rng.choice([1e-4, 1e-3, 0.005, 0.05, 0.5])
        stdev = ck.rng.choice([0.0, 0.01, 0.1, 0.5])
        cases.append((x, q, stdev))
    reqs, codes = [], []
    for x, q, stdev in cases:
        with FdrTap(haar) as tap:
            t = guarded(haar.FDRThres, np.array(x, dtype=float), q, stdev)
        if isinstance(t, Err):
            reqs.append([x, q, [], False])
            codes.append((t, 1.0))
            continue
        pv, ab, margin, near = fdr_oracles(tap.calls)
        reqs.append([x, q, pv[0], ab[0]])
        codes.append((float(t), margin))
    model = vlib.model_batch('c11_fdr', reqs)
    for (x, q, stdev), (t, margin), req, m in zip(cases, codes, reqs, model):
        case = {'fn': 'FDRThres', 'x': x, 'q': q, 'stdev': stdev}
        ck.count(['fdr', x, q, stdev], nontrivial=len(x) >= 2, cls='fdr:%s' % ('M<2' if len(x) < 2 else 'M>=2'))
        if isinstance(t, Err):
            ck.violation('FDRThres raised %s' % t.msg, case, code=t, clause='C11_fdr')
            continue
        if margin < 1e-9:
            ck.float_ambiguous += 1
            continue
        if not vlib.close(t, m):
            ck.tie_break('model fdr_thres differs from FDRThres', case, code=t, model=m)


# ----------------------------------------------------------------------------
# one_chrom / segment_haar: the table built from bin coordinates


class StubArm:
    """duck-typed stand-in for the CopyNumArray one_chrom receives: smooth_log2() returns the given (dyadic) signal
    unchanged, so the table assembly is exercised with exact arithmetic and theorem-shaped signals"""
    def __init__(self, starts, ends, sig, wt):
        import pandas as pd
        self.cols = {'start': pd.Series(np.array(starts, dtype=np.int64)), 'end': pd.Series(np.array(ends, dtype=np.int64))}
        if wt is not None:
            self.cols['weight'] = pd.Series(np.array(wt, dtype=float))
        self.sig = np.array(sig, dtype=float)

    def smooth_log2(self):
        return self.sig.copy()

    def __contains__(self, key):
        return key in self.cols

    def __getitem__(self, key):
        return self.cols[key]


def gen_coords(rng, n):
    pos = rng.choice([0, 0, rng.randint(0, 10 ** 6)])
    avg = rng.choice([50, 200, 1000, 20000])
    starts, ends = [], []
    for _ in range(n):
        pos += rng.choice([0, 0, 1, rng.randint(0, avg), rng.randint(0, 50000)])
        size = rng.randint(1, 2 * avg)
        starts.append(pos)
        ends.append(pos + size)
        pos += size
    return starts, ends


def table_oracle(rows, chrom_of, starts, ends, sig, wt):
    """independent statement of what the rows of one arm must be; rows: list of dicts; returns failure text or None"""
    n = len(sig)
    cum = 0
    for r in rows:
        k = r['probes']
        if k <= 0 or cum + k > n:
            return 'probes do not tile the bins of the arm'
        if r['chromosome'] != chrom_of or r['gene'] != '-':
            return 'chromosome / gene column wrong'
        if r['start'] != starts[cum] or r['end'] != ends[cum + k - 1]:
            return 'a row does not start at its first bin / end at its last bin'
        d = [Fraction(x) for x in sig[cum:cum + k]]
        if wt is not None and sum(Fraction(x) for x in wt[cum:cum + k]) > 0:
            ws = [Fraction(x) for x in wt[cum:cum + k]]
            m = sum(a * b for a, b in zip(d, ws)) / sum(ws)
        else:
            m = sum(d) / k
        if abs(float(m) - r['log2']) > 1e-9 * max(1.0, abs(float(m))):
            return 'log2 of a row is not the (weighted) mean of exactly its bins'
        cum += k
    if cum != n:
        return 'probes do not sum to the number of bins'
    return None


def frame_rows(df):
    return [{'chromosome': str(r.chromosome), 'start': int(r.start), 'end': int(r.end), 'log2': float(r.log2),
             'gene': str(r.gene), 'probes': int(r.probes)} for r in df.itertuples(index=False)]


def oracle_lists(pv, ab):
    return ([math.sqrt(2.0 * 2 ** l) for l in LEVELS], [math.sqrt(2 ** l / 2) for l in LEVELS], pv, ab)


def float_ambiguous_arm(haar, sig, wt, margin, near_tie):
    if margin < 1e-9 or near_tie:
        return True
    for l in LEVELS:
        W = None if wt is None else np.array(wt, dtype=float)
        cconv = [float(x) for x in haar.HaarConv(np.array(sig, dtype=float), W, 2 ** l)]
        mconv = vlib.model_call('c11_conv', [sig, wt, 2 ** l, scale_for(wt, 2 ** l)])
        if not isinstance(mconv, Err) and len(mconv) == len(cconv) and sign_pattern_ambiguous(cconv, mconv):
            return True
    return False


def check_one_chrom(ck, haar, n_cases):
    """haar.one_chrom on a stub arm (identity smoothing): table rows against the independent oracle and the model"""
    cases = []
    for i in range(n_cases):
        r = ck.rng.random()
        if r < 0.35:
            n = ck.rng.choice([64, 65, 100, ck.rng.randint(64, 400)])
            t = ck.rng.choice([32, n - 32, ck.rng.randint(32, n - 32)])
            a, b = ck.rng.choice(STEP_LEVELS)
            kind, sig, truth = 'clean-step', [a] * t + [b] * (n - t), ('step', t, a, b)
            wkind, wt = ck.rng.choice([('none', None), ('uniform', [ck.rng.randint(1, WGRID) / WGRID] * n)])
        else:
            n = gen_length(ck.rng)
            kind, sig, truth = gen_signal(ck.rng, n)
            wkind, wt = gen_weights(ck.rng, n)
        starts, ends = gen_coords(ck.rng, len(sig))
        q = ck.rng.choice([1e-4, 1e-4, 1e-3, 0.05])
        chrom = ck.rng.choice(['chr1', 'chrX', '7', 'chr2_random'])
        cases.append((kind, sig, truth, wkind, wt, starts, ends, q, chrom))
    runs, reqs = [], []
    for kind, sig, truth, wkind, wt, starts, ends, q, chrom in cases:
        with FdrTap(haar) as tap:
            df = guarded(haar.one_chrom, StubArm(starts, ends, sig, wt), q, chrom)
        if isinstance(df, Err):
            runs.append((df, 1.0, False))
            reqs.append([starts, ends, sig, wt, q] + list(oracle_lists([[] for _ in LEVELS], [False] * len(LEVELS))))
            continue
        pv, ab, margin, near = fdr_oracles(tap.calls)
        if len(pv) != len(LEVELS):
            pv, ab = [[] for _ in LEVELS], [False] * len(LEVELS)
        runs.append((frame_rows(df), margin, near))
        reqs.append([starts, ends, sig, wt, q] + list(oracle_lists(pv, ab)))
    model = vlib.model_batch_parallel('c11_one_chrom', reqs)
    for (kind, sig, truth, wkind, wt, starts, ends, q, chrom), (rows, margin, near), m in zip(cases, runs, model):
        n = len(sig)
        case = {'fn': 'one_chrom', 'kind': kind, 'signal': sig, 'weights': wt, 'start': starts, 'end': ends, 'q': q, 'chrom': chrom}
        if isinstance(rows, Err):
            ck.count(['one_chrom', kind, wkind, n, sig[:8]], nontrivial=True, cls='one_chrom:raised')
            if n == 0:
                continue       # an empty arm is never produced by by_arm
            ck.violation('one_chrom raised %s' % rows.msg, case, code=rows, clause='C11_table')
            continue
        ck.count(['one_chrom', kind, wkind, n, q, starts[:3], sig[:8]], nontrivial=len(rows) > 1,
                 cls='one_chrom:%s:%s' % (kind, 'w' if wt is not None else 'u'))
        bad = table_oracle(rows, chrom, starts, ends, sig, wt)
        if bad:
            ck.violation('one_chrom table: ' + bad, case, code=rows, clause='C11_table')
            continue
        uniform = wt is None or (len(set(wt)) == 1 and wt[0] > 0)
        if truth and truth[0] == 'step' and uniform and truth[1] >= 32 and n - truth[1] >= 32:
            _, t, a, b = truth
            exp = [(starts[0], ends[t - 1], a, t), (starts[t], ends[n - 1], b, n - t)]
            got = [(r['start'], r['end'], r['log2'], r['probes']) for r in rows]
            if len(got) != 2 or any(g[0] != e[0] or g[1] != e[1] or g[3] != e[3] or abs(g[2] - e[2]) > 1e-9 for g, e in zip(got, exp)):
                ck.violation('one_chrom on a noiseless step is not the two rows (first bin start, bin t-1 end, a, t), '
                             '(bin t start, last bin end, b, n-t)', case, code=rows, expected=exp, clause='C11_clean_step_table')
                continue
        if isinstance(m, Err):
            ck.tie_break('model one_chrom_table failed: %s' % m.msg, case, code=rows)
            continue
        same = len(m) == len(rows) and all(mr[0] == r['start'] and mr[1] == r['end'] and mr[3] == r['probes']
                                           for mr, r in zip(m, rows))
        if not same:
            if float_ambiguous_arm(haar, sig, wt, margin, near):
                ck.float_ambiguous += 1
                ck.cls('one_chrom:float-ambiguous')
                continue
            ck.tie_break('model one_chrom_table rows differ from one_chrom', case, code=rows, model=m)
        elif not all(vlib.close(r['log2'], mr[2]) for mr, r in zip(m, rows)):
            ck.tie_break('model one_chrom_table means differ from one_chrom', case, code=rows, model=m)


def gen_cna_case(ck):
    """a small CopyNumArray: 1..3 chromosomes, some with a centromere-sized gap (two arms), noisy multi-level log2"""
    rng = ck.rng
    chroms, starts, ends, log2, weight = [], [], [], [], []
    with_weight = rng.random() < 0.5
    for c in range(rng.choice([1, 2, 2, 3])):
        chrom = rng.choice(['chr%d' % (c + 1), '%d' % (c + 1), 'chrX'] if c else ['chr1', '1'])
        if chrom in chroms:
            chrom = 'chr%d' % (c + 11)
        n = rng.choice([3, 30, 110, rng.randint(2, 220)])
        cen = None
        margin = max(50, int(round(0.1 * n)))
        if n > 2 * margin + 1 and rng.random() < 0.6:
            cen = rng.randint(margin + 1, n - margin - 1)
        pos = rng.randint(0, 10 ** 5)
        avg = rng.choice([200, 2000, 20000])
        lev, left = 0.0, 0
        sd = rng.choice([0.02, 0.05, 0.1])
        for i in range(n):
            if left == 0:
                lev = rng.choice([0.0, 0.0, -1.0, 0.585, 1.0, -0.4])
                left = rng.choice([5, 20, 40, 80, 200])
            left -= 1
            gap = rng.choice([0, 0, rng.randint(0, avg)])
            if cen is not None and i == cen:
                gap = rng.randint(100000, 3000000)
            pos += gap
            size = rng.randint(max(20, avg // 4), 2 * avg)
            chroms.append(chrom)
            starts.append(pos)
            ends.append(pos + size)
            pos += size
            log2.append(lev + rng.gauss(0, sd))
            weight.append(rng.randint(WGRID // 4, WGRID) / WGRID)   # dyadic: keeps the exact weighted quotients small
    return {'chromosome': chroms, 'start': starts, 'end': ends, 'log2': log2, 'weight': weight if with_weight else None,
            'q': rng.choice([1e-4, 1e-4, 1e-3, 0.01])}


def check_segment_haar(ck, haar, n_cases):
    """haar.segment_haar on real CopyNumArrays; by_arm and smooth_log2 (Savitzky-Golay) are taken from the code as
    oracles, everything after them (haarSeg per arm, table rows from bin coordinates, concatenation in arm order,
    chromosome labels) is compared with the model and with the independent table oracle"""
    import pandas as pd
    from cnvlib.cnary import CopyNumArray as CNA
    cases = [gen_cna_case(ck) for _ in range(n_cases)]
    runs, reqs = [], []
    for case in cases:
        cols = {'chromosome': case['chromosome'], 'start': case['start'], 'end': case['end'], 'gene': '-', 'log2': case['log2']}
        if case['weight'] is not None:
            cols['weight'] = case['weight']
        cna = CNA(pd.DataFrame(cols), {'sample_id': 'c11'})
        with FdrTap(haar) as tap:
            out = guarded(haar.segment_haar, cna, case['q'])
        if isinstance(out, Err):
            runs.append((out, None, None))
            reqs.append([])
            continue
        arms = []
        for chrom, sub in cna.by_arm():
            arms.append({'chrom': str(chrom), 'start': [int(x) for x in sub['start'].values], 'end': [int(x) for x in sub['end'].values],
                         'sig': [float(x) for x in sub.smooth_log2()],
                         'wt': [float(x) for x in sub['weight'].values] if 'weight' in sub else None})
        calls = tap.calls
        req, amb = [], []
        ok = len(calls) == len(LEVELS) * len(arms)
        for ai, arm in enumerate(arms):
            cs = calls[ai * len(LEVELS):(ai + 1) * len(LEVELS)] if ok else []
            pv, ab, margin, near = fdr_oracles(cs) if ok else ([[] for _ in LEVELS], [False] * len(LEVELS), 1.0, False)
            amb.append((margin, near))
            req.append([arm['chrom'], [arm['start'], arm['end'], arm['sig'], arm['wt'], case['q']] + list(oracle_lists(pv, ab))])
        runs.append((frame_rows(out.data), arms, (ok, amb, list(out.data.columns))))
        reqs.append(req)
    model = vlib.model_batch_parallel('c11_segment_haar', reqs)
    for case, (rows, arms, info), m in zip(cases, runs, model):
        small = {'fn': 'segment_haar', 'chromosome': case['chromosome'], 'start': case['start'], 'end': case['end'],
                 'log2': case['log2'], 'weight': case['weight'], 'q': case['q']}
        if isinstance(rows, Err):
            ck.count(['segment_haar', case['start'][:4], case['log2'][:4]], nontrivial=True, cls='segment_haar:raised')
            ck.violation('segment_haar raised %s' % rows.msg, small, code=rows, clause='C11_table')
            continue
        ok, amb, columns = info
        ck.count(['segment_haar', len(arms), case['q'], case['start'][:4], case['log2'][:4]], nontrivial=len(rows) > len(arms),
                 cls='segment_haar:arms=%d:%s' % (min(len(arms), 4), 'w' if case['weight'] is not None else 'u'))
        # independent oracle: the rows, arm after arm, tile each arm's bins; coordinates, labels and means per row
        bad, pos = None, 0
        for arm in arms:
            n, cum, take = len(arm['sig']), 0, []
            while pos < len(rows) and cum < n:
                take.append(rows[pos])
                cum += rows[pos]['probes']
                pos += 1
            bad = table_oracle(take, arm['chrom'], arm['start'], arm['end'], arm['sig'], arm['wt'])
            if bad:
                break
        if not bad and pos != len(rows):
            bad = 'more rows than the arms account for'
        if bad:
            ck.violation('segment_haar table: ' + bad, small, code=rows, clause='C11_table')
            continue
        if not ok:
            ck.tie_break('segment_haar made %d FDRThres calls for %d arms x %d levels' % (len(amb), len(arms), len(LEVELS)), small)
            continue
        if isinstance(m, Err):
            ck.tie_break('model segment_haar_table failed: %s' % m.msg, small, code=rows)
            continue
        same = len(m) == len(rows) and all(mr[0] == r['chromosome'] and mr[1] == r['start'] and mr[2] == r['end'] and mr[4] == r['probes']
                                           for mr, r in zip(m, rows))
        if not same:
            if any(float_ambiguous_arm(haar, arm['sig'], arm['wt'], mg, nr) for arm, (mg, nr) in zip(arms, amb)):
                ck.float_ambiguous += 1
                ck.cls('segment_haar:float-ambiguous')
                continue
            ck.tie_break('model segment_haar_table rows differ from segment_haar', small, code=rows, model=m)
        elif not all(vlib.close(r['log2'], mr[3]) for mr, r in zip(m, rows)):
            ck.tie_break('model segment_haar_table means differ from segment_haar', small, code=rows, model=m)


def pulse_closed_form(sig, p):
    """even pulse sizes (the only ones haarSeg would use: 2 and 2*stepHalfSize): the mirrored moving average over
    the p bins k - p/2 .. k + p/2 - 1"""
    n = len(sig)
    def ext(j):
        if j < 0:
            j = -j - 1
        if j >= n:
            j = 2 * n - 1 - j
        return Fraction(sig[j])
    return [sum(ext(j) for j in range(k - p // 2, k + p // 2)) / p for k in range(n)]


def check_pulse(ck, haar, n_cases):
    """PulseConv (reachable only through haarSeg's rawI branch) against the model, and for even pulse sizes against
    the mirrored moving average; and the rawI branch itself, which raises for every array (`if rawI:`)"""
    cases = []
    for _ in range(n_cases):
        n = ck.rng.choice([1, 2, 3, 8, ck.rng.randint(1, 40), ck.rng.randint(40, 200)])
        if ck.rng.random() < 0.5:
            sig = [float(ck.rng.random() < 0.3) for _ in range(n)]
        else:
            sig = [ck.rng.randint(-GRID, GRID) / GRID for _ in range(n)]
        p = ck.rng.choice([0, 1, 2, 2, 3, 4, 4, 8, 16, 64, n, n + 1, max(1, n - 1)])
        cases.append((sig, p))
    model = vlib.model_batch('c11_pulse', [[s, p] for s, p in cases])
    for (sig, p), m in zip(cases, model):
        code = guarded(lambda: [float(x) for x in haar.PulseConv(np.array(sig, dtype=float), p)])
        case = {'fn': 'PulseConv', 'signal': sig, 'pulseSize': p}
        ck.count(['pulse', p, sig], nontrivial=not isinstance(code, Err), cls='pulse:%s' % ('raises' if isinstance(code, Err) else ('even' if p % 2 == 0 else 'odd')))
        if isinstance(code, Err):
            if m is not None:
                ck.tie_break('PulseConv raises where the model returns a value', case, code=code, model=m)
            continue
        if p % 2 == 0 and p <= len(sig):
            exp = pulse_closed_form(sig, p)
            if not allclose(code, exp):
                ck.violation('PulseConv with an even pulse size is not the mirrored moving average', case, code=code,
                             expected=[float(x) for x in exp], clause='C11_pulse (rawI branch, unused by cnvkit)')
                continue
        if m is None or isinstance(m, Err) or not allclose(code, m):
            ck.tie_break('model pulse_conv differs from PulseConv', case, code=code, model=m)
    # the rawI branch is dead: `if rawI:` raises for any array of length >= 2 (and a list fails at `rawI < NSV_TH`)
    for n in (2, 64, 200):
        I = np.array([0.0] * (n // 2) + [1.0] * (n - n // 2))
        for raw in (np.full(n, 100.0), [100.0] * n):
            r = guarded(haar.haarSeg, I, 1e-4, rawI=raw)
            ck.count(['rawI', n, type(raw).__name__], nontrivial=True, cls='haarseg:rawI-raises')
            if not isinstance(r, Err):
                ck.tie_break('haarSeg(rawI=...) returned a result: the rawI branch is live now and is not in the model '
                             '(Model/Haar.v models rawI = None only)', {'fn': 'haarSeg', 'n': n, 'rawI': type(raw).__name__})


def load_corpus():
    import json, os
    p = os.path.join(os.path.dirname(os.path.abspath(__file__)), '..', 'corpus', 'c11.json')
    with open(p) as fh:
        return json.load(fh)


def corpus_cases():
    """fixed regression cases (corpus/c11.json), expanded to haarSeg cases + the expected breakpoints"""
    out = []
    for c in load_corpus()['haarseg']:
        sig = []
        for v, k in c['runs']:
            sig.extend([float(v)] * k)
        n = len(sig)
        wt = None if c.get('weight') is None else [float(c['weight'])] * n
        cuts, pos = [], 0
        for v, k in c['runs'][:-1]:
            pos += k
            cuts.append(pos)
        vals = [float(v) for v, _ in c['runs']]
        truth = None
        if len(vals) == 1:
            truth = ('flat', vals[0])
        elif len(vals) == 2:
            truth = ('step', cuts[0], vals[0], vals[1])
        elif len(vals) == 3:
            truth = ('two', cuts[0], cuts[1], vals[0], vals[1], vals[2])
        out.append((('corpus', sig, truth, 'none' if wt is None else 'uniform', wt, c.get('q', 1e-4)), c))
    return out


def check_corpus(ck, haar):
    items = corpus_cases()
    check_haarseg(ck, haar, [x for x, _ in items])
    for (kind, sig, truth, wkind, wt, q), c in items:
        r = guarded(haar.haarSeg, np.array(sig, dtype=float), q, W=None if wt is None else np.array(wt, dtype=float))
        got = None if isinstance(r, Err) else [int(x) for x in r['start'][1:]]
        ck.count(['corpus-expect', c['what']], nontrivial=True, cls='corpus:expect')
        if c.get('breaks') is not None and got != c['breaks']:
            ck.violation('corpus case: %s' % c['what'], {'fn': 'haarSeg', 'runs': c['runs'], 'weight': c.get('weight'), 'q': q},
                         code=got, expected=c['breaks'], clause=c.get('clause', 'C11_corpus'))


# ----------------------------------------------------------------------------
# (a') bounded noise: the deterministic theorems C11_noise_* evaluated on the CODE


NOISE_MODES = ['uniform', 'extreme', 'adversarial', 'uniform', 'one-sided']


def gen_bounded_case(rng, idx):
    """clean + noise with |noise_i| <= eps, everything on the 1/1024 grid (so HaarConv's running sums are exact).
    Steps: (D, eps) inside the theorems' range 4 * eps < D (eps at the largest admissible grid value half of the
    time); flats: eps up to 1/4.  Returns a dict."""
    kind = ['step', 'step', 'flat', 'step'][idx % 4]
    n = rng.choice([64, 65, 100, 400, rng.randint(64, 400), rng.randint(64, 400)])
    wsel = (idx // 4) % 4
    if wsel in (0, 1):
        wkind, wt = 'none', None
    elif wsel == 2:
        wkind, wt = 'upper', [rng.randint(WGRID // 2, WGRID) / WGRID for _ in range(n)]
    else:
        wkind, wt = 'half-one', [rng.choice([0.5, 1.0]) for _ in range(n)]
    mode = NOISE_MODES[(idx // 2) % len(NOISE_MODES)]
    if kind == 'flat':
        cg = rng.choice([0, 0, GRID, -GRID, rng.randint(-2 * GRID, 2 * GRID)])
        eg = rng.choice([1, 8, 51, 102, 150, 256])
        clean = [cg] * n
        t = a = b = None
        dg = 0
    else:
        a, b = rng.choice(STEP_LEVELS + STEP_LEVELS + [(grid(rng.uniform(-2, 2)), grid(rng.uniform(-2, 2)))])
        ag, bg = int(round(a * GRID)), int(round(b * GRID))
        if abs(bg - ag) < 8:
            bg = ag + rng.choice([-1, 1]) * rng.randint(8, GRID)
        dg = abs(bg - ag)
        emax = (dg - 1) // 4                     # largest grid eps with 4 * eps < D
        eg = rng.choice([emax, emax, max(1, emax // 2), max(1, emax // 10), rng.randint(1, emax)])
        if rng.random() < 0.8:
            t = rng.choice([32, n - 32, rng.randint(32, n - 32)])
        else:
            t = rng.randint(2, n - 2)            # fewer than 32 bins on one side: only the levels with h <= min(t, n - t)
        clean = [ag] * t + [bg] * (n - t)
        a, b = ag / GRID, bg / GRID
    if mode == 'uniform':
        noise = [rng.randint(-eg, eg) for _ in range(n)]
    elif mode == 'one-sided':
        s = rng.choice([-1, 1])
        noise = [s * rng.randint(0, eg) for _ in range(n)]
    else:
        noise = [rng.choice([-eg, eg]) for _ in range(n)]
        if mode == 'adversarial' and t is not None:
            # the worst pattern for the neighbour of t at one level: it raises conv(t +- 1) against conv(t) by 4 eps
            h = 2 ** rng.choice(LEVELS)
            s = 1 if b > a else -1
            side = rng.choice([-1, 1])
            for j, v in ((t + h, s), (t, -s), (t - h, s)) if side > 0 else ((t - 1 + h, -s), (t - 1, s), (t - 1 - h, -s)):
                if 0 <= j < n:
                    noise[j] = v * eg
    sig = [(c + e) / GRID for c, e in zip(clean, noise)]
    return {'kind': kind, 'n': n, 't': t, 'a': a, 'b': b, 'D': dg / GRID, 'eps': eg / GRID, 'mode': mode,
            'wkind': wkind, 'wt': wt, 'signal': sig, 'clean': [c / GRID for c in clean]}


def bounded_noise_level_oracle(haar, c, h):
    """the bounds of C11_noise_conv_bound / _peak_location / _local_peaks / _flat / _step_weighted at half-width h,
    evaluated on the code's HaarConv and FindLocalPeaks.  -> (clause, text, detail) of the first failure, or None"""
    n, t, eps, D, wt = c['n'], c['t'], c['eps'], c['D'], c['wt']
    tol = 1e-9
    I = np.array(c['signal'], dtype=float)
    W = None if wt is None else np.array(wt, dtype=float)
    conv = [float(x) for x in haar.HaarConv(I, W, h)]
    scale = scale_for(wt, h)
    bound = (2 * h * eps / scale) if wt is None else (2 * eps * scale)
    cf = conv_closed_form(c['clean'], wt, h)
    if cf is None:
        clean = [0.0] * n
    else:
        clean = [float(x) / scale for x in cf] if wt is None else [float(x) * scale for x in cf]
    if len(conv) != n:
        return 'C11_noise_conv_bound', 'HaarConv output length', {'code': len(conv), 'expected': n}
    worst = max(abs(x - y) for x, y in zip(conv, clean))
    if worst > bound + tol:
        k = max(range(n), key=lambda i: abs(conv[i] - clean[i]))
        return ('C11_noise_conv_bound' if wt is None else 'C11_noise_conv_bound_weighted',
                'h=%d: |conv(clean + noise) - conv(clean)| = %.6g at k=%d exceeds the noise bound %.6g (eps %.6g)'
                % (h, worst, k, bound, eps), {'code': conv[k], 'expected': clean[k]})
    if c.get('sharp'):
        return None
    if c['kind'] == 'flat':
        if max(abs(x) for x in conv) > bound + tol:
            return 'C11_noise_flat', 'h=%d: a flat noisy profile has |conv| above the noise bound %.6g' % (h, bound), \
                {'code': max(abs(x) for x in conv), 'expected': bound}
        peaks = [int(x) for x in haar.FindLocalPeaks(np.array(conv))]
        tau = bound * (1 + 1e-6) + 1e-9
        kept = [p for p in peaks if abs(conv[p]) >= tau]
        if kept:
            return 'C11_noise_flat', 'h=%d: a peak of a flat noisy profile survives a threshold above the noise bound' % h, \
                {'code': kept, 'expected': []}
        return None
    if not (h <= t and t + h <= n):
        return None
    if wt is None:
        tent = [(c['b'] - c['a']) / scale * max(0, h - abs(k - t)) for k in range(n)]
        if max(abs(x - y) for x, y in zip(conv, tent)) > bound + tol:
            return 'C11_noise_peak_location', 'h=%d: the noisy convolution leaves the band tent +- noise bound' % h, {'code': conv}
        floor = (h * D - 2 * h * eps) / scale
        dl = (D - 4 * eps) / scale
    else:
        floor = (D - 2 * eps) * scale
        dl = None
    top = abs(conv[t])
    if top < floor - tol:
        return ('C11_noise_peak_location' if wt is None else 'C11_noise_step_weighted',
                'h=%d: |conv(t)| = %.6g is below the peak floor %.6g' % (h, top, floor), {'code': top, 'expected': floor})
    for k in range(n):
        m = abs(k - t)
        if m >= h and abs(conv[k]) > bound + tol:
            return ('C11_noise_peak_location' if wt is None else 'C11_noise_step_weighted',
                    'h=%d: |conv(%d)| = %.6g at distance %d >= h from the step exceeds the noise bound %.6g'
                    % (h, k, abs(conv[k]), m, bound), {'code': conv[k], 'expected': bound})
        if m >= h and not abs(conv[k]) < top:
            return ('C11_noise_peak_location' if wt is None else 'C11_noise_step_weighted',
                    'h=%d: a position at distance >= h is not strictly below |conv(t)|' % h, {'code': conv[k], 'expected': top})
        if wt is None and 0 < m:
            if not abs(conv[k]) < top:
                return 'C11_noise_peak_location', ('h=%d: |conv(%d)| = %.9g is not strictly below |conv(t=%d)| = %.9g although '
                                                   '4 eps < D (eps %.6g, D %.6g): the maximum is not at t' % (h, k, abs(conv[k]), t, top, eps, D)), \
                    {'code': conv[k], 'expected': top}
            if m <= h and abs(conv[k]) + m * dl > top + tol:
                return 'C11_noise_peak_location', 'h=%d: |conv| drops by less than (D - 4 eps)/scale per bin near t (k=%d)' % (h, k), \
                    {'code': abs(conv[k]), 'expected': top - m * dl}
    if wt is not None:
        # C11_noise_peak_within_d_weighted: the smallest d with 4 h eps wmax < d D wmin (exact arithmetic on the dyadic inputs)
        wmin, wmax = Fraction(min(wt)), Fraction(max(wt))
        dmin = int((4 * h * Fraction(eps) * wmax) / (Fraction(D) * wmin)) + 1
        if 1 <= dmin <= h:
            for k in range(n):
                if abs(k - t) >= dmin and not abs(conv[k]) < top:
                    return 'C11_noise_peak_within_d_weighted', ('h=%d: weights in [%s, %s], 4 h eps wmax < d D wmin for d=%d, yet |conv(%d)| at '
                                                                'distance %d is not strictly below |conv(t)|'
                                                                % (h, wmin, wmax, dmin, k, abs(k - t))), {'code': conv[k], 'expected': top}
    am = max(range(n), key=lambda i: abs(conv[i]))
    if (wt is None and am != t) or abs(am - t) > h - 1:
        return ('C11_noise_peak_location' if wt is None else 'C11_noise_step_weighted',
                'h=%d: argmax |conv| = %d, step at %d' % (h, am, t), {'code': am, 'expected': t})
    if wt is None and t + 2 <= n:
        peaks = [int(x) for x in haar.FindLocalPeaks(np.array(conv))]
        if t not in peaks:
            return 'C11_noise_local_peaks', 'h=%d: FindLocalPeaks does not report the step position' % h, {'code': peaks, 'expected': t}
        for p in peaks:
            if p != t and (abs(p - t) < h or abs(conv[p]) > bound + tol):
                return 'C11_noise_local_peaks', ('h=%d: spurious peak %d at distance %d from t with |value| %.6g (noise bound %.6g)'
                                                 % (h, p, abs(p - t), abs(conv[p]), bound)), {'code': peaks, 'expected': t}
        for tau in (0.5 * (bound + floor), bound * (1 + 1e-6) + 1e-9, floor):
            if bound + tol < tau <= floor and [p for p in peaks if abs(conv[p]) >= tau] != [t]:
                return 'C11_noise_local_peaks', 'h=%d: a threshold between the noise bound and the peak floor does not keep exactly [t]' % h, \
                    {'code': [p for p in peaks if abs(conv[p]) >= tau], 'expected': [t]}
    return None


def corpus_bounded_cases():
    out = []
    for e in load_corpus().get('bounded_noise', []):
        n, t, ag, bg, eg, h = e['n'], e['t'], e['ag'], e['bg'], e['eg'], e['h']
        if e['pattern'] == 'alt3':
            noise = [(eg, -eg, eg // 2)[i % 3] for i in range(n)]
        else:
            noise = [eg if i % 2 == 0 else -eg for i in range(n)]
            s = 1 if bg > ag else -1
            for j, v in ((t + h, s), (t, -s), (t - h, s), (t - 1 + h, -s), (t - 1, s), (t - 1 - h, -s)):
                if 0 <= j < n:
                    noise[j] = v * eg
        clean = [ag] * n if t is None else [ag] * t + [bg] * (n - t)
        out.append({'kind': 'flat' if t is None else 'step', 'n': n, 't': t, 'a': ag / GRID, 'b': bg / GRID,
                    'D': abs(bg - ag) / GRID, 'eps': eg / GRID, 'mode': 'corpus:' + e['pattern'], 'wkind': 'none', 'wt': None,
                    'signal': [(c + x) / GRID for c, x in zip(clean, noise)], 'clean': [c / GRID for c in clean],
                    'sharp': bool(e.get('sharp')), 'h': h, 'what': e['what']})
    return out


def check_bounded_noise(ck, haar, n_cases):
    stats = {'cases': 0, 'levels_checked': 0, 'by_kind': {}, 'by_mode': {}, 'by_weights': {}, 'eps_over_D': {},
             'seg_theorem': {'hypotheses_hold': 0, 'fdr_admits_noise_sized_peak': 0, 'no_level_keeps_t': 0, 'not_applicable': 0},
             'flat_seg_theorem': {'hypotheses_hold': 0, 'threshold_not_above_bound': 0}}
    cases = corpus_bounded_cases() + [gen_bounded_case(ck.rng, i) for i in range(n_cases)]
    conv_reqs, conv_meta = [], []
    for ci, c in enumerate(cases):
        n, t, wt = c['n'], c['t'], c['wt']
        stats['cases'] += 1
        if c.get('sharp'):
            # D = 4 eps exactly: the planted pattern must tie conv(t + 1) with conv(t) (the hypothesis 4 eps < D is sharp)
            cv = [float(x) for x in haar.HaarConv(np.array(c['signal'], dtype=float), None, c['h'])]
            stats['sharpness_tie_observed'] = bool(cv[t + 1] == cv[t])
            if cv[t + 1] != cv[t]:
                ck.violation('corpus: %s -- HaarConv does not give conv(t+1) = conv(t)' % c['what'],
                             {'fn': 'HaarConv', 'signal': c['signal'], 'h': c['h'], 't': t}, code=[cv[t], cv[t + 1]],
                             expected='equal', clause='C11_conv_window')
        for key, val in (('by_kind', c['kind']), ('by_mode', c['mode']), ('by_weights', c['wkind'])):
            stats[key][val] = stats[key].get(val, 0) + 1
        if c['kind'] == 'step' and not c.get('sharp'):
            r = c['eps'] / c['D']
            lab = '<0.05' if r < 0.05 else ('<0.15' if r < 0.15 else ('<0.24' if r < 0.24 else '[0.24,0.25)'))
            stats['eps_over_D'][lab] = stats['eps_over_D'].get(lab, 0) + 1
        case = {'fn': 'HaarConv/FindLocalPeaks/haarSeg', 'stream': 'bounded-noise', 'kind': c['kind'], 'signal': c['signal'],
                'weight': wt, 't': t, 'a': c['a'], 'b': c['b'], 'eps': c['eps'], 'mode': c['mode']}
        ck.count(['bounded', c['kind'], c['mode'], c['wkind'], n, t, c['eps'], c['signal'][:8]], nontrivial=True,
                 cls='bounded-noise:%s:%s:%s' % (c['kind'], c['mode'], 'w' if wt is not None else 'u'))
        hs = [2 ** l for l in LEVELS] + ([1, 3, n, n + 1] if c['kind'] == 'flat' else [])
        bad = None
        for h in hs:
            stats['levels_checked'] += 1
            bad = guarded(bounded_noise_level_oracle, haar, c, h)
            if isinstance(bad, Err):
                ck.violation('bounded-noise stream: the code raised %s' % bad.msg, case, code=bad, clause='C11_noise_conv_bound')
                break
            if bad:
                ck.violation('bounded noise: ' + bad[1], dict(case, h=h), clause=bad[0], **bad[2])
                break
            if h <= n and h in (2, 32):
                conv_reqs.append([c['signal'], wt, h, scale_for(wt, h)])
                conv_meta.append((ci, h))
        if bad or c.get('sharp'):
            continue
        # the whole of haarSeg, with the code's own FDR thresholds: C11_noise_step_seg / C11_noise_flat as implications
        q = 1e-4
        I = np.array(c['signal'], dtype=float)
        W = None if wt is None else np.array(wt, dtype=float)
        with FdrTap(haar) as tap:
            r = guarded(haar.haarSeg, I, q, W=W)
        if isinstance(r, Err):
            ck.violation('haarSeg raised %s' % r.msg, case, code=r, clause='C11_sizes')
            continue
        st = [int(x) for x in r['start']]
        mean = [float(x) for x in r['mean']]
        bounds = [(2 * 2 ** l * c['eps'] / scale_for(None, 2 ** l)) if wt is None else (2 * c['eps'] * scale_for(wt, 2 ** l))
                  for l in LEVELS]
        if len(tap.calls) != len(LEVELS):
            ck.tie_break('haarSeg ran %d levels, the theorems speak about %d' % (len(tap.calls), len(LEVELS)), case)
            continue
        # the fallback regime of FDRThres (C11_noise_*_fallback): no p-value passes at any level with two or more peaks
        pv, ab, _, _ = fdr_oracles(tap.calls)
        nopass = [len(x) < 2 or not bool((np.array(p) <= (np.arange(1, len(x) + 1) / len(x)) * qq).any())
                  for (x, qq, _, _), p in zip(tap.calls, pv)]
        fb = stats.setdefault('fallback_theorems', {'step_regime_holds': 0, 'step_found_at_t': 0, 'step_lost_no_level_absorbs': 0,
                                                    'step_a_p_value_passes': 0, 'flat_regime_holds': 0, 'flat_outside_regime': 0})
        if c['kind'] == 'flat':
            reg = all(len(x) == 0 or (len(x) >= 2 and np_ and not a_) for (x, _, _, _), np_, a_ in zip(tap.calls, nopass, ab))
            if reg:
                fb['flat_regime_holds'] += 1
                if st != [0] or abs(mean[0] - c['clean'][0]) > c['eps'] + 1e-9:
                    ck.violation('bounded noise, flat profile: no p-value passes and the 1e-16 fallback is not absorbed at any level, yet '
                                 'haarSeg does not report one segment with mean within eps of the level', case,
                                 code={'start': st, 'mean': mean}, expected={'start': [0], 'mean': c['clean'][0]},
                                 clause='C11_noise_flat_fallback')
                    continue
            else:
                fb['flat_outside_regime'] += 1
        elif wt is None and 32 <= t <= n - 32:
            if all(nopass):
                fb['step_regime_holds'] += 1
                found = any(len(x) < 2 or a_ for (x, _, _, _), a_ in zip(tap.calls, ab))
                fb['step_found_at_t' if found else 'step_lost_no_level_absorbs'] += 1
                exp_st = [0, t] if found else [0]
                bad_means = found and len(mean) == 2 and (abs(mean[0] - c['a']) > c['eps'] + 1e-9 or abs(mean[1] - c['b']) > c['eps'] + 1e-9)
                if st != exp_st or bad_means:
                    ck.violation('bounded noise (eps %.6g < D/4, D %.6g), FDR fallback regime (no passing p-value at any level): haarSeg '
                                 'must report %s (a level absorbs the 1e-16 or has t as its only peak: %s)'
                                 % (c['eps'], c['D'], 'exactly the breakpoint t=%d with means within eps' % t if found else 'no breakpoint', found),
                                 case, code={'start': st, 'mean': mean}, expected={'start': exp_st}, clause='C11_noise_step_seg_fallback')
                    continue
            else:
                fb['step_a_p_value_passes'] += 1
        if c['kind'] == 'flat':
            hyp = all(len(x) == 0 or T > bnd + 1e-9 for (x, _, _, T), bnd in zip(tap.calls, bounds))
            if not hyp:
                # (the code's fallback threshold is max|peak| + 1e-16, which is below the worst-case bound: the theorem's
                # hypothesis fails although nothing is kept -- only the outcome is recorded)
                stats['flat_seg_theorem']['threshold_not_above_bound'] += 1
                key = 'one_segment_anyway' if st == [0] else 'segmented'
                stats['flat_seg_theorem'][key] = stats['flat_seg_theorem'].get(key, 0) + 1
                continue
            stats['flat_seg_theorem']['hypotheses_hold'] += 1
            cval = c['clean'][0]
            if st != [0] or abs(mean[0] - cval) > c['eps'] + 1e-9:
                ck.violation('bounded noise, flat profile: every level threshold is above the noise bound, yet haarSeg does not '
                             'report one segment with mean within eps of the level', case, code={'start': st, 'mean': mean},
                             expected={'start': [0], 'mean': cval}, clause='C11_noise_flat')
            continue
        if wt is not None or not (32 <= t <= n - 32):
            stats['seg_theorem']['not_applicable'] += 1
            continue
        convs = [[float(x) for x in haar.HaarConv(I, None, 2 ** l)] for l in LEVELS]
        h1 = all(len(x) < 2 or T > bnd + 1e-9 for (x, _, _, T), bnd in zip(tap.calls, bounds))
        h2 = any(T <= abs(cv[t]) for (x, _, _, T), cv in zip(tap.calls, convs))
        if not h1:
            stats['seg_theorem']['fdr_admits_noise_sized_peak'] += 1
            continue
        if not h2:
            stats['seg_theorem']['no_level_keeps_t'] += 1
            if st != [0]:
                ck.violation('bounded noise: no level threshold is <= |conv(t)| and all are above the noise bound, yet haarSeg reports '
                             'a breakpoint', case, code={'start': st}, expected={'start': [0]}, clause='C11_noise_level_addon')
            continue
        stats['seg_theorem']['hypotheses_hold'] += 1
        if st != [0, t] or abs(mean[0] - c['a']) > c['eps'] + 1e-9 or abs(mean[1] - c['b']) > c['eps'] + 1e-9:
            ck.violation('bounded noise (eps %.6g < D/4, D %.6g): the level thresholds satisfy the hypotheses of C11_noise_step_seg, yet '
                         'haarSeg does not report exactly the breakpoint t=%d with means within eps of a, b' % (c['eps'], c['D'], t),
                         case, code={'start': st, 'mean': mean}, expected={'start': [0, t], 'mean': [c['a'], c['b']]},
                         clause='C11_noise_step_seg')
    # the same signals through the model (correspondence of the stream): HaarConv at the first and last level
    model = vlib.model_batch_parallel('c11_conv', conv_reqs)
    for (ci, h), req, m in zip(conv_meta, conv_reqs, model):
        c = cases[ci]
        W = None if c['wt'] is None else np.array(c['wt'], dtype=float)
        code = guarded(lambda: [float(x) for x in haar.HaarConv(np.array(c['signal'], dtype=float), W, h)])
        if isinstance(code, Err):
            continue
        if not allclose(code, m):
            ck.tie_break('model haar_conv differs from HaarConv (bounded-noise stream)',
                         {'fn': 'HaarConv', 'signal': c['signal'], 'weight': c['wt'], 'h': h}, code=code, model=m)
    ck.extra['bounded_noise'] = stats


def core_correspondence(ck, haar):
    quick = ck.tier == 'quick'
    n_cases = 130 if quick else 2500
    cases, seg_cases = [], []
    for i in range(n_cases):
        n = gen_length(ck.rng)
        kind, sig, truth = gen_signal(ck.rng, n)
        wkind, wt = gen_weights(ck.rng, n)
        cases.append((kind, sig, wkind, wt))
        q = ck.rng.choice([1e-4, 1e-4, 1e-3, 0.005, 0.05, 0.4])
        seg_cases.append((kind, sig, truth, wkind, wt, q))
    # theorem-shaped cases: flat with every weight kind, clean steps at the 32-bin boundary
    for i in range(20 if quick else 300):
        n = ck.rng.choice([1, 2, 5, 31, 32, 33, 64, 65, ck.rng.randint(2, 700)])
        c = ck.rng.choice([0.0, -1.0, grid(0.585), grid(ck.rng.uniform(-3, 3))])
        wkind, wt = gen_weights(ck.rng, n)
        seg_cases.append(('flat', [c] * n, ('flat', c), wkind, wt, 1e-4))
        n = ck.rng.choice([64, 65, 66, 100, ck.rng.randint(64, 700)])
        t = ck.rng.choice([32, 33, n - 32, n - 33, ck.rng.randint(32, n - 32)])
        a, b = ck.rng.choice(STEP_LEVELS + [(0.0, 1 / GRID), (grid(ck.rng.uniform(-2, 2)), grid(ck.rng.uniform(-2, 2)))])
        if a == b:
            b = a - 1.0
        wkind, wt = ck.rng.choice([('none', None), ('none', None), ('one', [1.0] * n),
                                   ('uniform', [ck.rng.randint(1, WGRID) / WGRID] * n),
                                   ('half-one', [ck.rng.choice([0.5, 1.0]) for _ in range(n)]),
                                   ('upper', [ck.rng.randint(WGRID // 2, WGRID) / WGRID for _ in range(n)]),
                                   ('dyadic', [ck.rng.randint(1, WGRID) / WGRID for _ in range(n)])])
        q = ck.rng.choice([1e-4, 1e-4, 1e-3, 0.05])
        seg_cases.append(('clean-step', [a] * t + [b] * (n - t), ('step', t, a, b), wkind, wt, q))
        # two separated clean steps at and around the 32 / 64 / 32 separations of C11_two_steps
        n = ck.rng.choice([128, 129, 160, ck.rng.randint(128, 700)])
        t1 = min(n - 96, ck.rng.choice([32, 33, ck.rng.randint(32, n - 96)]))
        t2 = min(n - 32, ck.rng.choice([t1 + 64, t1 + 65, n - 32, ck.rng.randint(t1 + 64, n - 32)]))
        a = ck.rng.choice([0.0, 0.0, -1.0])
        d1 = ck.rng.choice([1.0, -1.0, grid(0.585), 0.25, 2.0])
        d2 = ck.rng.choice([-d1, -d1, d1, d1 / 2, -2 * d1])
        wkind, wt = ck.rng.choice([('none', None), ('none', None), ('uniform', [ck.rng.randint(1, WGRID) / WGRID] * n)])
        b, c = grid(a + d1), grid(a + d1 + d2)
        seg_cases.append(('clean-two-steps', [a] * t1 + [b] * (t2 - t1) + [c] * (n - t2), ('two', t1, t2, a, b, c), wkind, wt, q))
    t0 = time.time()
    timing = {}

    def timed(name, fn, *args):
        t1 = time.time()
        r = fn(*args)
        timing[name] = round(time.time() - t1, 1)
        return r
    timed('corpus', check_corpus, ck, haar)
    peak_sigs, peak_meta = timed('conv', check_conv_and_peaks, ck, haar, cases)
    extra_sigs, extra_meta = gen_plateau_signals(ck, 300 if quick else 10000)
    timed('peaks', check_peaks, ck, haar, peak_sigs + extra_sigs, peak_meta + extra_meta)
    timed('unify', check_unify, ck, haar, 400 if quick else 20000)
    timed('segment', check_segment, ck, haar, 150 if quick else 5000)
    timed('fdr', check_fdr, ck, haar, 150 if quick else 5000)
    timed('haarseg', check_haarseg, ck, haar, seg_cases)
    timed('one_chrom', check_one_chrom, ck, haar, 60 if quick else 1500)
    timed('segment_haar', check_segment_haar, ck, haar, 14 if quick else 300)
    timed('pulse', check_pulse, ck, haar, 120 if quick else 5000)
    timed('bounded_noise', check_bounded_noise, ck, haar, 600 if quick else 8000)
    ck.extra['core_parts_s'] = timing
    ck.extra['core_s'] = round(time.time() - t0, 1)


# ----------------------------------------------------------------------------
# (b) monitoring of the claim on the real pipeline


WEIGHT_MODES = ['random', 'all-half', 'all-one', 'two-valued', 'random-low-at-step']
BIN_MODES = ['mixed', 'fixed', 'tiny-to-huge', 'mixed']


def gen_profile(ck, kind, method, idx=0):
    """kind: 'step' | 'flat' | 'mixed'.  Returns the case dict with the full table and the truth rows.
    `idx` walks the strata of the quantifier systematically: direction and sign of the step, weight pattern
    (all within [0.5, 1]), bin size / spacing regime, noise level; everything else is drawn from ck.rng."""
    rng = ck.rng
    nrs = np.random.RandomState(rng.randrange(2 ** 32))
    nch = rng.randint(1, 3)
    sd = [0.01, 0.1, rng.uniform(0.01, 0.1), rng.uniform(0.05, 0.1)][idx % 4]
    wmode = WEIGHT_MODES[(idx // 4) % len(WEIGHT_MODES)]
    bmode = BIN_MODES[(idx // 2) % len(BIN_MODES)]
    deltas = [-1.0, 0.585] + ([1.0] if method == 'haar' else [])
    chroms, starts, ends, levels, truth, weight = [], [], [], [], [], []
    for c in range(nch):
        chrom = 'chr%d' % (c + 1)
        k = kind if kind != 'mixed' else rng.choice(['step', 'flat'])
        cen = None
        if k == 'step':
            nl = rng.choice([100, 400, rng.randint(100, 400)])
            nr = rng.choice([100, 400, rng.randint(100, 400)])
            d = deltas[(idx + c) % len(deltas)]
            la, lb = (0.0, d) if ((idx // 3) + c) % 2 == 0 else (d, 0.0)
            n = nl + nr
            lev = [la] * nl + [lb] * nr
            truth.append({'chrom': chrom, 'n': n, 't': nl, 'la': la, 'lb': lb, 'arms': 1})
        else:
            n = rng.choice([100, 600, rng.randint(100, 600)])
            lev = [0.0] * n
            arms = 1
            if n >= 160 and rng.random() < 0.4:
                margin = max(50, int(round(0.1 * n)))
                cen = rng.randint(margin + 1, n - margin - 1)
                arms = 2
            truth.append({'chrom': chrom, 'n': n, 't': None, 'la': 0.0, 'lb': 0.0, 'arms': arms})
        pos = rng.randint(0, 100000)
        avg = rng.choice([200, 1000, 5000, 20000])
        for i in range(n):
            if bmode == 'fixed':
                gap, size = 0, avg
            elif bmode == 'tiny-to-huge':
                gap = rng.choice([0, rng.randint(0, 90000)])
                size = rng.choice([20, 50, avg, 10 * avg, rng.randint(20, 60000)])
            else:
                gap = rng.choice([0, 0, rng.randint(0, avg), rng.randint(0, 40000)])
                size = rng.randint(max(20, avg // 4), avg * 2)
            if cen is not None and i == cen:
                gap = rng.randint(100000, 5000000)
            pos += gap
            chroms.append(chrom)
            starts.append(pos)
            ends.append(pos + size)
            pos += size
        levels.extend(lev)
        t = truth[-1]['t']
        if wmode == 'all-half':
            w = [0.5] * n
        elif wmode == 'all-one':
            w = [1.0] * n
        elif wmode == 'two-valued':
            w = [rng.choice([0.5, 1.0]) for _ in range(n)]
        else:
            w = nrs.uniform(0.5, 1.0, n).tolist()
            if wmode == 'random-low-at-step' and t is not None:
                for i in range(max(0, t - 20), min(n, t + 20)):
                    w[i] = 0.5
        weight.extend(w)
    N = len(chroms)
    log2 = (np.array(levels) + nrs.normal(0, sd, N)).tolist()
    case = {'method': method, 'kind': kind, 'sd': sd, 'truth': truth, 'chromosome': chroms, 'start': starts,
            'end': ends, 'log2': log2, 'weight': weight, 'strata': {'weights': wmode, 'bins': bmode}}
    return case


def run_profile(case):
    import pandas as pd
    from cnvlib.cnary import CopyNumArray as CNA
    from cnvlib.segmentation import do_segmentation
    df = pd.DataFrame({'chromosome': case['chromosome'], 'start': case['start'], 'end': case['end'],
                       'gene': '-', 'log2': case['log2'], 'weight': case['weight']})
    cna = CNA(df, {'sample_id': 'c11'})
    segs = do_segmentation(cna, case['method'])
    out = []
    for row in segs.data.itertuples(index=False):
        out.append({'chromosome': row.chromosome, 'start': int(row.start), 'end': int(row.end),
                    'log2': float(row.log2), 'probes': int(row.probes)})
    return out


def evaluate_profile(case, segs):
    """the statement of C11, clause by clause, on the segment table.  -> list of (sig, text, detail)"""
    fails = []
    m = 'haar' if case['method'] == 'haar' else 'hmm-germline'
    for tr in case['truth']:
        sub = [s for s in segs if s['chromosome'] == tr['chrom']]
        bstarts = [s for c, s in zip(case['chromosome'], case['start']) if c == tr['chrom']]
        if tr['t'] is None:
            if len(sub) != tr['arms']:
                fails.append(('%s-flat-oversegmented' % m, '%s: flat %d-bin profile (%d arm(s), sd %.3f) gives %d segments'
                              % (tr['chrom'], tr['n'], tr['arms'], case['sd'], len(sub)), sub))
            continue
        if len(sub) != 2:
            sig = '%s-noisy-step-%s' % (m, 'missed' if len(sub) < 2 else 'extra-breakpoints')
            fails.append((sig, '%s: step %g|%g at bin %d of %d (sd %.3f) gives %d breakpoint(s)'
                          % (tr['chrom'], tr['la'], tr['lb'], tr['t'], tr['n'], case['sd'], len(sub) - 1), sub))
            continue
        # position by coordinates (index of the bin that opens the second segment) and by cumulative probes
        try:
            bp = bstarts.index(sub[1]['start'])
        except ValueError:
            bp = sub[0]['probes']
        if abs(bp - tr['t']) > 5 or abs(sub[0]['probes'] - tr['t']) > 5:
            fails.append(('%s-noisy-step-misplaced' % m, '%s: step at bin %d reported at bin %d (cumulative probes %d), sd %.3f'
                          % (tr['chrom'], tr['t'], bp, sub[0]['probes'], case['sd']), sub))
        if abs(sub[0]['log2'] - tr['la']) > 0.1 or abs(sub[1]['log2'] - tr['lb']) > 0.1:
            fails.append(('%s-noisy-step-means' % m, '%s: segment means %.4f, %.4f for true levels %g, %g (sd %.3f)'
                          % (tr['chrom'], sub[0]['log2'], sub[1]['log2'], tr['la'], tr['lb'], case['sd']), sub))
    return fails


def monitor(ck, method, n_profiles):
    t0 = time.time()
    stats = {'profiles': 0, 'chromosomes': 0, 'failed_profiles': 0, 'by_signature': {}}
    for i in range(n_profiles):
        kind = ['step', 'flat', 'step', 'mixed', 'step'][i % 5]
        case = gen_profile(ck, kind, method, i)
        try:
            segs = run_profile(case)
            fails = evaluate_profile(case, segs)
        except Exception as e:   # noqa
            segs = None
            fails = [('%s-exception' % method, 'do_segmentation raised %s: %s' % (type(e).__name__, str(e)[:200]), None)]
        stats['profiles'] += 1
        stats['chromosomes'] += len(case['truth'])
        st = stats.setdefault('strata', {})
        keys = ['weights=%s' % case['strata']['weights'], 'bins=%s' % case['strata']['bins'],
                'sd=%s' % ('0.01' if case['sd'] <= 0.01 else ('0.1' if case['sd'] >= 0.1 else '(0.01,0.1)'))]
        for tr in case['truth']:
            keys.append('flat:arms=%d' % tr['arms'] if tr['t'] is None else 'step:%g->%g' % (tr['la'], tr['lb']))
        for key in keys:
            st[key] = st.get(key, 0) + 1
        small = {k: case[k] for k in ('method', 'kind', 'sd', 'truth')}
        ck.count(['profile', method, kind, case['sd'], case['truth'], case['log2'][:4]], nontrivial=True,
                 cls='monitor:%s:%s' % (method, kind))
        if fails:
            stats['failed_profiles'] += 1
            for sig, text, detail in fails:
                stats['by_signature'][sig] = stats['by_signature'].get(sig, 0) + 1
            sig, text, detail = fails[0]
            ck.violation('%s: %s' % (method, text), case, sig=sig, code=segs, expected=small,
                         clause='C11 statement (monitored)', all_failures=[(s, t) for s, t, _ in fails])
    stats['wall_s'] = round(time.time() - t0, 1)
    ck.extra.setdefault('monitoring', {})[method] = stats


# ----------------------------------------------------------------------------


def run(ck, scratch):
    from cnvlib.segmentation import haar
    ck.rule = ('corpus first (corpus/c11.json: flat / clean-step / two-step regression cases). core: dyadic signals (values k/1024: '
               'constant, clean step, two clean steps, noisy step, multi-level, plateaus, small alphabets, uniform) x weights (None, 1, one '
               'uniform k/64, {1/2,1}, k/64) x lengths 1..700 biased to each level half-width +-1; HaarConv at h=1 and h=2..32 (+ one '
               'odd/limit half-width) against integer mirrored window sums and the model; FindLocalPeaks on every HaarConv output and on '
               'synthetic plateau sequences against the plateau characterisation and the model; UnifyLevels on sorted lists with add-ons '
               'placed at the window edges (+10% unsorted/duplicate, model only); SegmentByPeaks against Fraction means; FDRThres and '
               'haarSeg with the p-values supplied from scipy as the code computes them; theorem-shaped cases: clean steps with t, n-t at '
               '32/33 (no / uniform weights, both directions), two clean steps at the 32/64/32 separations -- per level the tent formula and '
               'the exact peak list on the code\'s HaarConv / FindLocalPeaks, every row mean against the Fraction mean of its bins; '
               'one_chrom on a stub arm (identity smoothing, random bin coordinates) and segment_haar on real CopyNumArrays (by_arm and '
               'smooth_log2 taken from the code) against the table oracle and the model; PulseConv against the model / the mirrored moving '
               'average, and the dead rawI branch. bounded-noise stream (the deterministic theorems C11_noise_* as direct oracles on the '
               'CODE): clean + noise on the 1/1024 grid, n in 64..400, step at t (80%: 32 <= t <= n-32 biased to 32 / n-32, else any t in '
               '2..n-2 with only the levels h <= min(t, n-t)), steps 0|-1, 0|+0.585, 0|+1 both directions + random heights >= 8/1024, '
               'eps uniform over {largest grid value with 4 eps < D (x2), half, a tenth, random below it}, flats with eps in '
               '{1,8,51,102,150,256}/1024; noise modes: uniform integers in [-eps, eps], extreme (+-eps), adversarial (+-eps with the '
               'worst three-bin pattern for a neighbour of t planted at one level), one-sided; weights none (x2) / k/64 in [1/2,1] / '
               '{1/2,1}; per level h=2..32 (flats also h=1,3,n,n+1) on HaarConv and FindLocalPeaks: |conv - conv(clean)| <= bound + 1e-9 '
               '(clean = integer mirrored window sums; unweighted also the tent formula), |conv(t)| >= peak floor, |conv| <= bound at '
               'distance >= h, strict maximum exactly at t and the per-bin drop (unweighted), argmax within h-1 (weighted), t among the '
               'peaks and every other peak at distance >= h and noise-sized, thresholds in the gap keep exactly [t]; then haarSeg with the '
               'thresholds the code itself computes (FDRThres tapped): where they satisfy the hypotheses of C11_noise_step_seg / '
               'C11_noise_flat, or where no p-value passes at any level (the fallback regime of C11_noise_step_seg_fallback / '
               'C11_noise_flat_fallback, p-values recomputed with scipy as the code does), the breakpoints must be exactly [t] / none as the '
               'theorem says and the means within eps; weighted: every position at distance >= d strictly below |conv(t)| for the '
               'smallest d with 4 h eps wmax < d D wmin; corpus/c11.json bounded_noise: fixed worst-pattern cases and the sharpness '
               'witness D = 4 eps (tie conv(t+1) = conv(t)); HaarConv at h=2 and 32 also against the model. '
               'monitoring: generated step/flat/mixed profiles per the quantifier through '
               'do_segmentation, stratified over direction and sign, weight pattern, bin-size regime and noise level. '
               'non-trivial = non-zero convolution / at least one peak / both lists non-empty / at least one breakpoint / every profile')
    ck.explanation = (
        'Level other (partial). Proved in Coq for the exact-arithmetic model of the HaarSeg core (Props/C11.v): flat signals give '
        'zero convolution, no peaks, no breakpoints and one segment at the constant; the recurrence equals the mirrored '
        'window-sum closed form; a noiseless step with >= 32 bins per side (any n, t, a != b; no or uniform weights: the tent '
        'amp*max(0, h-|k-t|), C11_clean_step; arbitrary positive weights: the unimodal weight-share shape, C11_clean_step_weighted) gives '
        'at every level exactly the peak [t], threshold 0, the single breakpoint t and two rows with means exactly a and b '
        '(+ C11_clean_step_table); two separated noiseless steps give exactly the peaks [t1; t2] and never any '
        'other breakpoint (C11_two_steps); for any breakpoints every row mean is the (weighted) mean of exactly its bins and the rows '
        '(start/end coordinates from the first/last bin, probes) tile the arm (C11_segment_means, C11_step_means, C11_table, C11_sizes); '
        'level unification is sorted, duplicate-free, keeps every base breakpoint and no add-on within a window. '
        'Bounded noise (deterministic part of the statistical clause, C11_noise_*, exact rationals, any n, any t with h bins on both '
        'sides, any signal within eps of the clean one in every bin): noise moves every unweighted convolution value by at most '
        '2 h eps / sqrt(2h) and every weighted one (positive weights) by at most 2 eps sqrt(h/2), mirrored edges included '
        '(C11_noise_conv_bound[_weighted]); for a step of height D with 4 eps < D (sharp) the unweighted |conv| at every level has its '
        'STRICT GLOBAL MAXIMUM EXACTLY AT t, is >= (h D - 2 h eps)/sqrt(2h) there, drops by >= (D - 4 eps)/sqrt(2h) per bin within h '
        'of t and is <= the noise bound beyond (C11_noise_peak_location, _within_d); FindLocalPeaks returns t and otherwise only '
        'noise-sized peaks at distance >= h, and every threshold between the noise bound and the peak floor keeps exactly [t] '
        '(C11_noise_local_peaks, C11_local_peaks_sound); with the FDR threshold of each level as an oracle value in that range the '
        'whole of haarSeg returns exactly the breakpoint t and means within eps of a, b (C11_noise_step_seg, _level_addon); flat '
        'profiles: every value within the noise bound at every half-width, no peak survives a threshold above it, one segment with '
        'mean within eps (C11_noise_flat); in the fallback branch of FDRThres (no passing p-value: the code\'s regime for every step '
        'of height <= 1) nothing is assumed about the threshold value: haarSeg returns exactly [t] iff some level absorbs the 1e-16 '
        '(|peak| >= 1 in binary64) or has t as its only peak, nothing otherwise, and a flat profile stays one segment '
        '(C11_fdr_fallback_level/_none, C11_noise_level_addon_fallback, C11_noise_step_seg_fallback, C11_noise_flat_fallback); '
        'weighted step, any positive weights: absolute bounds, maximum within h-1 of t (C11_noise_step_weighted); weights in '
        '[wmin, wmax]: the weighted tent falls by at least wmin/(h wmax) per bin, so 4 h eps wmax < d D wmin puts the maximum within '
        'd-1 bins of t (C11_noise_peak_within_d_weighted, C11_weighted_tent_slope); the '
        'property\'s numbers: height >= 0.585, >= 100 bins per side, ANY noise with |e_i| <= 0.146 (0.25 for the one-copy steps) '
        '(C11_noise_property_numbers). The model is tied to '
        'cnvlib.segmentation.haar by differential correspondence on dyadic inputs (HaarConv, FindLocalPeaks, FDRThres, UnifyLevels, '
        'SegmentByPeaks, haarSeg, one_chrom, segment_haar, PulseConv). The property text itself (noisy profiles, sd <= 0.1, '
        'Savitzky-Golay pre-smoothing, FDR threshold through the normal cdf, and the whole hmm-germline path through pomegranate) is NOT '
        'proved: it is monitored by evaluating the statement on generated profiles (coverage.monitoring).')
    ck.unproved_remainder = [
        'SAMPLED, NOT PROVED: the noisy statistical claim for haar at the property\'s noise level (exactly one breakpoint within 5 '
        'bins, means within 0.1, flat -> one segment per arm, for GAUSSIAN noise sd <= 0.1): coverage.monitoring.haar lists the number '
        'of profiles and the strata walked (direction/sign, weight pattern, bin-size regime, noise level). PROVED instead '
        '(C11_noise_*, coverage.bounded_noise): the worst-case statement for every noise vector with |e_i| <= eps < D/4 (D/4 = 0.146 '
        'for the +0.585 gain, 0.25 for the one-copy loss and the +1 gain) -- the peak of every level is exactly at t and every '
        'spurious peak is noise-sized. Gaussian noise of sd 0.1 is not bounded by D/4 (a bin exceeds 0.146 with probability 0.14, '
        '0.25 with probability 0.012, so a 200..800-bin profile almost surely has one), and at eps >= D/4 the worst-case statement is '
        'false (three bins of noise +-D/4 move the peak); what remains statistical is therefore: (i) the tail of the noise beyond '
        'D/4, (ii) the FDR threshold (normal-cdf p-values of the peaks against a MAD noise estimate: an oracle value in the theorems, '
        'which hold for every threshold between the noise bound and the peak floor), (iii) the Savitzky-Golay pre-smoothing that '
        'cnvkit applies before haarSeg (the smoothed profile is not clean-step-plus-bounded-noise)',
        'unequal weights with noise (cnvkit passes the bin weights, so the real pipeline is in this case): proved are the absolute '
        'bounds and the slope form -- maximum of |conv| within d-1 bins of t when 4 h eps wmax < d D wmin (weights in [1/2, 1]: '
        '8 h eps < d D, i.e. exactly at t at level 1 for eps < D/16, within 5 bins at level 5 for eps < 3 D/128); the sharp '
        '"exactly at t for eps < D/4 at every level" and the statement about FindLocalPeaks / the whole of haarSeg are proved for the '
        'unweighted convolution only',
        'which of the two FDR branches is taken (a p-value passes or not) and whether the flat profile\'s levels have 0 or >= 2 '
        'peaks are properties of the noise realisation: hypotheses of the fallback theorems, observed (coverage.bounded_noise.'
        'fallback_theorems) but not proved',
        'SAMPLED, NOT PROVED: everything about hmm-germline (pomegranate Baum-Welch fit, MAP decoding, squash_by_groups): '
        'coverage.monitoring.hmm-germline; outside the model',
        'two clean steps: which of the two peaks survive the two-peak FDR threshold depends on the p-value oracle and on the 1e-16 float '
        'fallback; proved: nothing but t1, t2 is ever reported, and t_i is reported iff its peak passes some level',
        'smooth_log2 / savgol pre-smoothing, by_arm (oracles taken from the code in the segment_haar correspondence), drop_outliers and '
        'transfer_fields are on the code side of the monitoring only; variants_in_segment and the rawI branch of haarSeg (dead: '
        '`if rawI:` raises for every array) are outside the model',
        'FDRThres p-values (normal cdf with the sigma estimate passed as location) and the sqrt scale constants are oracles supplied '
        'from scipy/libm (proofs need only scale != 0); float rounding of the convolution is bridged by the 1e-9 comparison rule',
    ]
    if not ck.build_status.get('driver_ok'):
        raise RuntimeError('model driver unavailable')
    core_correspondence(ck, haar)
    quick = ck.tier == 'quick'
    monitor(ck, 'haar', 300 if quick else 2500)
    monitor(ck, 'hmm-germline', 100 if quick else 1000)


def replay(ck, body):
    case = body.get('case') or {}
    if isinstance(case, dict) and 'truth' in case and 'log2' in case:
        segs = run_profile(case)
        fails = evaluate_profile(case, segs)
        for s in segs:
            print(s)
        for sig, text, _ in fails:
            print('FAILS [%s] %s' % (sig, text))
        print('replay: %s' % ('still failing' if fails else 'passes now'))
        return 1 if fails else 0
    print(body.get('what'))
    print({k: (v if not isinstance(v, list) or len(v) < 40 else '%d values' % len(v)) for k, v in case.items()} if isinstance(case, dict) else case)
    return 0
