"""C09 -- coverage reports mean per-base depth of the counted reads in every bin.

Correspondence + search harness for cnvlib.coverage.do_coverage (both algorithms:
samtools bedcov pileup, and --count) against

* a direct oracle: an independent per-base brute force (one numpy counter per
  reference position, incremented for every aligned base of every read that has
  none of the flags 0x4/0x100/0x200/0x400 and MAPQ >= cut; a bin's base count is
  the sum of the counters of its positions), depth compared exactly
  (correctly-rounded float of the rational bases/length), log2 by tolerance,
  every row keyed by (chromosome, start, end, name), and the table of every
  (processes, chunk size) configuration compared with the serial one;
* the extracted Coq model (Model/Coverage.v), whose clauses are proved in
  Props/C09.v (C09_depth, C09_empty, C09_filters, C09_algorithms_agree,
  C09_chunks).

Level: proof of the model's clauses + validated model.  PARTIAL with respect to
the runtime: the scheduling of the process pool, the temporary chunk files and
samtools' pileup engine are outside the model; they are exercised here
(processes 1/2/3/16, chunk sizes 1/2/7/5000 through a wrapper around
cnvlib.coverage.to_chunks that lives in this process only) but no theorem speaks
about them beyond "any split into chunks, results concatenated in order".
Reads with I/D/N are a separate stream: --count is still held to "aligned bases
inside the bin"; the pileup algorithm (which, measured in this build, also counts
the deleted/skipped reference positions inside a read's span) is compared with
the model only -- the property claims agreement of the two algorithms only for
reads without indels and its quantifier has no indels."""
import os, math, json, hashlib, tempfile
from fractions import Fraction
import numpy as np
import vlib
from vlib import Err

LEVEL = 'proof'

M, I, D, N, S, H, P, EQ, X = range(9)
CIG = 'MIDNSHP=X'
EXCLUDE_MASK = 0x4 | 0x100 | 0x200 | 0x400      # unmapped, secondary, QC-fail, duplicate
CUTS = [0, 1, 10, 30, 60]
NA_TOKENS = ['', '#N/A', '#N/A N/A', '#NA', '-1.#IND', '-1.#QNAN', '-NaN', '-nan', '1.#IND', '1.#QNAN', '<NA>', 'N/A',
             'NA', 'NULL', 'NaN', 'None', 'n/a', 'nan', 'null']
NUMERIC_NAMES = ['007', '1', '12', '1e3', '1.10', '0x10', '-5', '+3', '1_000', '00', '3.0', 'inf', 'True']
ORDINARY = ['TP53', 'BRCA1', 'EGFR', 'a,b', 'x|y', 'g.1', '-', '.', 'Antitarget', 'CGH', 'gene-2', 'orf(1)', 'a b']


# ----------------------------------------------------------------------------
# worlds: contigs + reads (-> BAM) + BED lines


def cigar_str(cig):
    return None if cig is None else ''.join('%d%s' % (n, CIG[op]) for op, n in cig)


def parse_cigar(s):
    if s is None:
        return None
    out, num = [], ''
    for ch in s:
        if ch.isdigit():
            num += ch
        else:
            out.append((CIG.index(ch), int(num)))
            num = ''
    return out


def ref_len(cig):
    return sum(n for op, n in cig if op in (M, D, N, EQ, X))


def query_len(cig):
    return sum(n for op, n in cig if op in (M, I, S, EQ, X))


def split_int(rng, total, parts):
    """total >= parts >= 1 -> `parts` positive integers summing to total"""
    cuts = sorted(rng.sample(range(1, total), parts - 1)) if parts > 1 else []
    return [b - a for a, b in zip([0] + cuts, cuts + [total])]


def gen_cigar(rng, indel):
    qlen = rng.choice([30, 31, 36, 50, 75, 100, 101, 149, 150, rng.randint(30, 150)])
    lead = rng.choice([0, 0, 0, 1, 5, rng.randint(0, qlen // 3)])
    trail = rng.choice([0, 0, 0, 1, 5, rng.randint(0, qlen // 3)])
    core = qlen - lead - trail
    cig = []
    if rng.random() < 0.08:
        cig.append((H, rng.randint(1, 40)))
    if lead:
        cig.append((S, lead))
    if not indel:
        style = rng.random()
        if style < 0.7 or core < 3:
            cig.append((M, core))
        else:
            parts = split_int(rng, core, rng.randint(2, 3))
            ops = rng.choice([[EQ, X, EQ], [M, X, M], [X, EQ, X], [EQ, M, EQ]])
            cig.extend(zip(ops, parts))
    else:
        nparts = rng.randint(2, min(4, core)) if core >= 2 else 1
        parts = split_int(rng, core, nparts)
        # odd pieces may become insertions (query only); the ends stay aligned
        for j, ln in enumerate(parts):
            if 0 < j < len(parts) - 1 and rng.random() < 0.4:
                cig.append((I, ln))
            else:
                if cig and cig[-1][0] in (M, EQ, X):
                    cig.append((rng.choice([D, D, N]), rng.choice([1, 2, 5, rng.randint(1, 30), rng.randint(1, 200)])))
                cig.append((rng.choice([M, M, EQ]), ln))
    if trail:
        cig.append((S, trail))
    if rng.random() < 0.08:
        cig.append((H, rng.randint(1, 40)))
    return cig


def gen_flag(rng, k):
    """all 16 combinations of the four filter bits appear (k cycles through them with
    probability 1/3), plus reverse / paired / supplementary decorations."""
    f = 0
    if rng.random() < 0.34:
        combo = k % 16
        for b, bit in enumerate((0x4, 0x100, 0x200, 0x400)):
            if combo >> b & 1:
                f |= bit
    if rng.random() < 0.5:
        f |= 0x10
    if rng.random() < 0.06:
        f |= 0x800
    return f


def gen_mapq(rng):
    return rng.choice([0, 1, 2, 9, 10, 11, 29, 30, 31, 59, 60, 60, 60, rng.randint(0, 60)])


def gen_bins(rng, contigs, max_bins, big=False):
    """list of [chrom, lo, hi]; abutting tilings, overlapping / nested / duplicate bins,
    zero-width, bins at 0, over and beyond the contig end."""
    bins = []
    for name, L in contigs:
        if rng.random() < 0.12 and len(contigs) > 1:
            continue
        kinds = ['tile', 'tile', 'overlap', 'zero', 'offend', 'start', 'whole', 'dup', 'rand']
        for _ in range(rng.randint(2, 6) if not big else 1):
            kind = rng.choice(kinds) if not big else 'bigtile'
            w = rng.choice([1, 2, 3, 10, 50, 100, 120, rng.randint(1, max(2, L // 4))])
            a = rng.randint(0, max(0, L - 1))
            if kind == 'tile':
                pos = rng.randint(0, L // 3)
                for _ in range(rng.randint(2, 8)):
                    ww = rng.choice([w, w, rng.randint(1, 150)])
                    bins.append([name, pos, pos + ww])
                    pos += ww
            elif kind == 'bigtile':
                pos = rng.randint(0, 50)
                while pos < L and len(bins) < max_bins:
                    ww = rng.choice([1, 2, 5, 10, 20, rng.randint(1, 40)])
                    bins.append([name, pos, pos + ww])
                    pos += ww + rng.choice([0, 0, 0, 3])
            elif kind == 'overlap':
                bins.append([name, a, a + w])
                bins.append([name, a + w // 2, a + w + w // 2])
                bins.append([name, a + 1, max(a + 1, a + w - 1)])
            elif kind == 'zero':
                bins.append([name, a, a])
            elif kind == 'offend':
                bins.append([name, max(0, L - w // 2 - 1), L + w])
                if rng.random() < 0.5:
                    bins.append([name, L, L + w])
                if rng.random() < 0.3:
                    bins.append([name, L + 10, L + 10 + w])
            elif kind == 'start':
                bins.append([name, 0, w])
            elif kind == 'whole':
                bins.append([name, 0, L])
            elif kind == 'dup':
                bins.append([name, a, a + w])
                bins.append([name, a, a + w])
            else:
                bins.append([name, a, a + w])
    if not bins:
        bins.append([contigs[0][0], 0, min(100, contigs[0][1])])
    if len(bins) > max_bins:
        bins = bins[:max_bins]
    order = {c: i for i, (c, _) in enumerate(contigs)}
    if rng.random() < 0.7 or big:
        bins.sort(key=lambda b: (order[b[0]], b[1], b[2]))
    else:
        rng.shuffle(bins)
    return bins


def gen_names(rng, n, ncols):
    """4th-column names: ordinary, or 'odd' (NA tokens, numeric-looking, empty; the first
    few all numeric so that a small chunk holds numeric names only)"""
    if ncols == 3:
        return [None] * n
    style = rng.random()
    names = []
    for i in range(n):
        if style < 0.6:
            nm = rng.choice(ORDINARY + ['g%d' % (i // 2), 'bin%d' % i])
        elif style < 0.8:
            nm = rng.choice(NUMERIC_NAMES) if i < 4 or rng.random() < 0.3 else rng.choice(ORDINARY + NA_TOKENS)
        else:
            nm = rng.choice(NA_TOKENS + NUMERIC_NAMES + ORDINARY)
        names.append(nm)
    return names


def gen_bed(rng, contigs, max_bins, big=False):
    bins = gen_bins(rng, contigs, max_bins, big)
    ncols = rng.choice([3, 4, 4, 6, 8])
    names = gen_names(rng, len(bins), ncols)
    lines = []
    for (c, lo, hi), nm in zip(bins, names):
        cols = []
        if ncols >= 4:
            cols.append(nm)
        if ncols >= 6:
            cols += [str(rng.choice([0, 500, 1000])), rng.choice('+-.')]
        if ncols >= 8:
            cols += [str(lo), str(hi)]
        lines.append([c, lo, hi, cols])
    return lines


def gen_reads(rng, contigs, beds, nreads, indel):
    anchors = {i: [0, L] for i, (_, L) in enumerate(contigs)}
    idx = {c: i for i, (c, _) in enumerate(contigs)}
    for bed in beds:
        for c, lo, hi, _ in bed[:400]:
            anchors[idx[c]] += [lo, hi]
    reads = []
    k = 0
    while len(reads) < nreads:
        tid = rng.randrange(len(contigs))
        L = contigs[tid][1]
        cig = gen_cigar(rng, indel)
        rl = ref_len(cig)
        mode = rng.random()
        e = rng.choice(anchors[tid])
        if mode < 0.2:
            pos = e + rng.choice([-1, 0, 1])
        elif mode < 0.4:
            pos = e - rl + rng.choice([-1, 0, 1])
        elif mode < 0.65:
            pos = e - rng.randint(1, max(1, rl - 1))
        elif mode < 0.72:
            pos = 0
        elif mode < 0.8:
            pos = L - rl + rng.choice([0, 0, 0, 1, 7])     # ends at / hangs over the contig end
        else:
            pos = rng.randint(0, L - 1)
        pos = max(0, min(L - 1, pos))
        flag = gen_flag(rng, k)
        mapq = gen_mapq(rng)
        name = 'r%d' % k
        k += 1
        if flag & 0x4 and rng.random() < 0.5:
            cig = None                                   # placed unmapped mate: no alignment at all
        reads.append([tid, pos, cigar_str(cig), flag, mapq, name])
        if rng.random() < 0.15 and len(reads) < nreads:    # a mate with the same name, overlapping
            cig2 = gen_cigar(rng, indel)
            pos2 = max(0, min(L - 1, pos + rng.randint(0, max(1, rl))))
            reads[-1][3] |= 0x1 | 0x40 | 0x20
            reads.append([tid, pos2, cigar_str(cig2), gen_flag(rng, k) | 0x1 | 0x80 | 0x10, gen_mapq(rng), name])
    reads.sort(key=lambda r: (r[0], r[1]))
    return reads


def write_bam(path, contigs, reads):
    import pysam
    hdr = {'HD': {'VN': '1.6', 'SO': 'coordinate'}, 'SQ': [{'SN': n, 'LN': l} for n, l in contigs]}
    with pysam.AlignmentFile(path, 'wb', header=hdr) as f:
        for tid, pos, cig, flag, mapq, name in reads:
            a = pysam.AlignedSegment(f.header)
            a.query_name = name
            a.flag = flag
            a.reference_id = tid
            a.reference_start = pos
            a.mapping_quality = mapq
            if cig is not None:
                a.cigarstring = cig
                ql = query_len(parse_cigar(cig))
            else:
                ql = 50
            a.query_sequence = 'A' * ql
            if flag & 0x1:
                a.next_reference_id = tid
                a.next_reference_start = pos
            f.write(a)
    pysam.index(path)


def write_bed(path, lines):
    with open(path, 'w') as fh:
        for c, lo, hi, cols in lines:
            fh.write('\t'.join([c, str(lo), str(hi)] + list(cols)) + '\n')


# ----------------------------------------------------------------------------
# the direct oracle: per-base brute force


def brute_arrays(contigs, reads, cut):
    """per contig: (aligned, spanned) per-position counters of the counted reads"""
    ends = [L for _, L in contigs]
    parsed = []
    for tid, pos, cig, flag, mapq, _ in reads:
        c = parse_cigar(cig)
        if c is None:
            continue
        parsed.append((tid, pos, c, flag, mapq))
        ends[tid] = max(ends[tid], pos + ref_len(c))
    aligned = [np.zeros(e + 1, dtype=np.int64) for e in ends]
    spanned = [np.zeros(e + 1, dtype=np.int64) for e in ends]
    for tid, pos, c, flag, mapq in parsed:
        if flag & EXCLUDE_MASK:
            continue
        if mapq < cut:
            continue
        p = pos
        for op, n in c:
            if op in (M, EQ, X):
                aligned[tid][p:p + n] += 1
                p += n
            elif op in (D, N):
                p += n
        spanned[tid][pos:p] += 1
    return aligned, spanned


def bin_sum(arr, lo, hi):
    if hi <= lo:
        return 0
    lo = max(0, lo)
    hi = min(hi, len(arr))
    if hi <= lo:
        return 0
    return int(arr[lo:hi].sum())


def exp_name(cols):
    return cols[0] if cols else '-'


def expected_rows(contigs, bed, arrays):
    """[(key, bases)] in BED order; key = (chrom, lo, hi, name)"""
    idx = {c: i for i, (c, _) in enumerate(contigs)}
    out = []
    for c, lo, hi, cols in bed:
        out.append(((c, lo, hi, exp_name(cols)), bin_sum(arrays[idx[c]], lo, hi)))
    return out


def depth_float(bases, lo, hi):
    return float(Fraction(bases, hi - lo)) if hi > lo else 0.0


def log2_exact(fr):
    return math.log2(fr.numerator) - math.log2(fr.denominator)


# ----------------------------------------------------------------------------
# running the code


def run_code(bed, bam, alg, cut, procs, chunk):
    from cnvlib import coverage, parallel
    orig = parallel.to_chunks
    if chunk is None:
        coverage.to_chunks = orig
    else:
        coverage.to_chunks = (lambda fname, _k=chunk: orig(fname, chunk_size=_k))
    try:
        cn = coverage.do_coverage(bed, bam, by_count=(alg == 'count'), min_mapq=cut, processes=procs)
        d = cn.data
        rows = []
        for c, s, e, g, dp, l2 in zip(d['chromosome'].tolist(), d['start'].tolist(), d['end'].tolist(),
                                      d['gene'].tolist(), d['depth'].tolist(), d['log2'].tolist()):
            rows.append((c, s, e, g, float(dp), float(l2)))
        return rows
    except Exception as e:   # noqa
        return Err(type(e).__name__ + ': ' + str(e)[:160])
    finally:
        coverage.to_chunks = orig


def run_cli(bed, bam, alg, cut, procs, out):
    """the command line: python -m cnvlib.cnvkit coverage BAM BED [-c] [-q N] [-p N] -o out.cnn,
    the .cnn parsed by hand (no pandas: names stay text)"""
    import subprocess, sys
    cmd = [vlib.PY, '-m', 'cnvlib.cnvkit', 'coverage', bam, bed, '-o', out]
    if alg == 'count':
        cmd.append('-c')
    if cut is not None:
        cmd += ['-q', str(cut)]
    if procs is not None:
        cmd += ['-p', str(procs)]
    p = subprocess.run(cmd, env=vlib.repo_env(), stdout=subprocess.PIPE, stderr=subprocess.PIPE, timeout=600)
    if p.returncode != 0:
        return Err('cnvkit.py coverage exit %d: %s' % (p.returncode, p.stderr.decode(errors='replace')[-160:]))
    lines = open(out).read().split('\n')
    if lines and lines[-1] == '':
        lines.pop()
    hdr = lines[0].split('\t')
    ix = {h: i for i, h in enumerate(hdr)}
    rows = []
    for ln in lines[1:]:
        f = ln.split('\t')
        rows.append((f[ix['chromosome']], int(f[ix['start']]), int(f[ix['end']]), f[ix['gene']],
                     float(f[ix['depth']]), float(f[ix['log2']])))
    os.remove(out)
    return rows


def oracle_check(rows, exp, alg, null_log2=-20.0, tol=0.0, ltol=1e-9):
    """the property's clauses on one output table; returns None or (what, clause, detail)"""
    if isinstance(rows, Err):
        return ('do_coverage raised %s' % rows.msg, 'C09_depth', None)
    if len(rows) != len(exp):
        return ('table has %d rows for %d bins' % (len(rows), len(exp)), 'C09_chunks', None)
    exp_sorted, got = exp, rows           # the pileup table keeps the BED's line order
    if alg != 'pileup':
        # --count sorts the regions (tabio): compare as a multiset, contigs in any order
        exp_sorted = sorted(exp, key=lambda t: (t[0][0], t[0][1], t[0][2], t[0][3], t[1]))
        got = sorted(rows, key=lambda r: (r[0], r[1], r[2], str(r[3]), r[4]))
    for r, (key, bases) in zip(got, exp_sorted):
        k = (r[0], r[1], r[2], r[3])
        if k != key or not isinstance(r[3], str):
            return ('row %r does not keep its bin\'s coordinates and name %r' % (k, key), 'C09_chunks', {'row': r, 'bin': key})
        d = depth_float(bases, key[1], key[2])
        if not (r[4] == d or (tol and abs(r[4] - d) <= tol * max(1.0, abs(d)))):
            return ('bin %r: depth %r, expected %d aligned bases / length = %r' % (key, r[4], bases, d), 'C09_depth',
                    {'row': r, 'bin': key, 'bases': bases})
        if bases == 0 or key[2] <= key[1]:
            if r[5] != null_log2:
                return ('bin %r without counted bases: log2 %r, expected -20' % (key, r[5]), 'C09_empty', {'row': r})
        else:
            l2 = log2_exact(Fraction(bases, key[2] - key[1]))
            if not abs(r[5] - l2) <= ltol * max(1.0, abs(l2)):
                return ('bin %r: log2 %r, expected log2(depth) = %r' % (key, r[5], l2), 'C09_depth', {'row': r})
    return None


def model_rows_check(rows, mrows, alg):
    """code table vs model table"""
    if isinstance(mrows, Err) or isinstance(rows, Err):
        return None if (isinstance(mrows, Err) and isinstance(rows, Err)) else 'error behaviour differs'
    if len(rows) != len(mrows):
        return 'row counts differ'
    mm = [(m[0], m[1], m[2], m[3], m[4], m[5]) for m in mrows]
    got = rows
    if alg != 'pileup':
        mm = sorted(mm, key=lambda r: (r[0], r[1], r[2], r[3], r[4]))
        got = sorted(rows, key=lambda r: (r[0], r[1], r[2], str(r[3]), r[4]))
    for r, m in zip(got, mm):
        if (r[0], r[1], r[2], r[3]) != (m[0], m[1], m[2], m[3]):
            return 'row key %r vs model %r' % (r[:4], m[:4])
        if r[4] != float(m[4]):
            return 'depth %r vs model %s at %r' % (r[4], m[4], r[:4])
        if not vlib.close(r[5], m[5]):
            return 'log2 %r vs model %s at %r' % (r[5], m[5], r[:4])
    return None


# ----------------------------------------------------------------------------
# one world = one BAM + several BEDs, evaluated under several configurations


def digest(obj):
    return hashlib.sha1(json.dumps(obj, sort_keys=True).encode()).hexdigest()[:16]


def model_reads(contigs, reads):
    out = []
    for tid, pos, cig, flag, mapq, _ in reads:
        c = parse_cigar(cig) or []
        out.append([contigs[tid][0], flag, mapq, pos, [[op, n] for op, n in c]])
    return out


def log2_table(depths):
    tbl = []
    for d in sorted(depths):
        if d > 0:
            v = float(np.log2(float(d)))
            ex = log2_exact(d)
            if not abs(v - ex) <= 1e-11 * max(1.0, abs(ex)):
                raise RuntimeError('log2 oracle contract fails at %s: %r vs %r' % (d, v, ex))
            tbl.append([d, Fraction(v)])
    return tbl


def make_case(contigs, reads, bed, alg, cut, procs, chunk):
    return {'contigs': [list(c) for c in contigs], 'reads': [list(r) for r in reads], 'bed': bed,
            'alg': alg, 'cut': cut, 'procs': procs, 'chunk': chunk}


def shrink(scratch, case, clause_detail):
    """restrict a failing case to the failing bin and the reads near it, if it still fails"""
    try:
        key = clause_detail.get('bin') if clause_detail else None
        if not key:
            return case
        c, lo, hi = key[0], key[1], key[2]
        idx = {n: i for i, (n, _) in enumerate(case['contigs'])}
        bed = [b for b in case['bed'] if (b[0], b[1], b[2]) == (c, lo, hi)][:1]
        reads = []
        for r in case['reads']:
            cg = parse_cigar(r[2])
            end = r[1] + (ref_len(cg) if cg else 1)
            if r[0] == idx[c] and r[1] < hi + 1 and end > lo - 1:
                reads.append(r)
        small = dict(case, bed=bed, reads=reads, procs=1, chunk=None)
        res = eval_case(scratch, small, tag='shrink')
        if res['violation']:
            return small
    except Exception:   # noqa
        pass
    return case


def eval_case(scratch, case, tag='case'):
    """build the files of one self-contained case, run the code, apply the oracle
    (used by the corpus, by replay and by shrinking)"""
    contigs = [tuple(c) for c in case['contigs']]
    reads = case['reads']
    bam = os.path.join(scratch, '%s.bam' % tag)
    bed = os.path.join(scratch, '%s.bed' % tag)
    write_bam(bam, contigs, reads)
    write_bed(bed, case['bed'])
    aligned, spanned = brute_arrays(contigs, reads, case['cut'] if case['cut'] is not None else 0)   # -q defaults to 0
    exp = expected_rows(contigs, case['bed'], aligned)
    if case.get('cli'):
        # the .cnn file prints 6 significant digits
        rows = run_cli(bed, bam, case['alg'], case['cut'], case['procs'], os.path.join(scratch, '%s.cnn' % tag))
        base = None
        v = oracle_check(rows, exp, case['alg'], tol=1e-5, ltol=1e-5)
    else:
        rows = run_code(bed, bam, case['alg'], case['cut'], case['procs'], case['chunk'])
        base = run_code(bed, bam, case['alg'], case['cut'], 1, None)
        v = oracle_check(rows, exp, case['alg'])
        if v is None and rows != base:
            v = ('table differs from the serial run', 'C09_chunks', None)
    for f in (bam, bam + '.bai', bed):
        try:
            os.remove(f)
        except OSError:
            pass
    return {'violation': v, 'rows': rows, 'expected': exp, 'serial': base}


def run_world(ck, scratch, wi, stream, nreads, max_bins, nbeds, cuts, configs, big=False):
    rng = ck.rng
    indel = (stream == 'indel')
    ncont = rng.randint(1, 3)
    names = rng.sample(['chr1', 'chr2', 'chrX', '1', 'ctgA', 'chrUn_gl000220', 'chr10'], ncont)
    if big:
        contigs = [(n, rng.choice([200000, 300000])) for n in names]
    else:
        contigs = [(n, rng.choice([200, 400, 1000, 2500, rng.randint(160, 4000)])) for n in names]
    beds = [gen_bed(rng, contigs, max_bins, big) for _ in range(nbeds)]
    reads = gen_reads(rng, contigs, beds, nreads, indel)
    if big:
        ck.extra.setdefault('big_bed_lines', []).append(len(beds[0]))
    bam = os.path.join(scratch, 'w%d.bam' % wi)
    write_bam(bam, contigs, reads)
    wd = digest([contigs, reads])
    mreads = model_reads(contigs, reads)
    requests = []          # [alg, cut, k, reads, bins, log2 table] for the model entry
    pending = []           # (request index, code rows, case without reads, alg)
    for cut in cuts:
        aligned, spanned = brute_arrays(contigs, reads, cut)
        unfiltered, _ = brute_arrays(contigs, [[r[0], r[1], r[2], r[3] & ~EXCLUDE_MASK & ~0x4, 60, r[5]] for r in reads], 0)
        for bi, bedl in enumerate(beds):
            bedp = os.path.join(scratch, 'w%d_b%d.bed' % (wi, bi))
            if not os.path.exists(bedp):
                write_bed(bedp, bedl)
            bd = digest(bedl)
            exp_al = expected_rows(contigs, bedl, aligned)
            exp_sp = expected_rows(contigs, bedl, spanned)
            exp_un = expected_rows(contigs, bedl, unfiltered)
            depths = set()
            for (key, b) in exp_al + exp_sp:
                if key[2] > key[1]:
                    depths.add(Fraction(b, key[2] - key[1]))
            tbl = log2_table(depths)
            filt_matters = any(a[1] != u[1] for a, u in zip(exp_al, exp_un))
            nonzero = any(b for _, b in exp_al)
            ncols = 3 + len(bedl[0][3])
            mbins = [[c, lo, hi, list(cols)] for c, lo, hi, cols in bedl]
            for alg in ('pileup', 'count'):
                serial = run_code(bedp, bam, alg, cut, 1, None)
                # which expectation is the property's: aligned bases. With D/N the pileup
                # algorithm is compared with the model only.
                prop_exp = exp_al
                oracle_applies = not (indel and alg == 'pileup')
                for (procs, chunk) in [(1, None)] + configs(rng, alg):
                    rows = serial if (procs, chunk) == (1, None) else run_code(bedp, bam, alg, cut, procs, chunk)
                    case_id = ['cov', stream, wd, bd, alg, cut, procs, chunk]
                    ck.count(case_id, nontrivial=nonzero and (filt_matters or procs > 1),
                             cls='%s:%s:p%d:k%s:cols%d' % (stream, alg, procs, chunk, min(ncols, 6)))
                    v = oracle_check(rows, prop_exp, alg) if oracle_applies else None
                    if v is None and rows != serial:
                        v = ('%s table with processes=%d chunk_size=%s differs from the serial table' % (alg, procs, chunk),
                             'C09_chunks', None)
                    if v is not None:
                        what, clause, detail = v
                        case = make_case(contigs, reads, bedl, alg, cut, procs, chunk)
                        case = shrink(scratch, case, detail)
                        seen = ck.extra.setdefault('_reported', set())
                        dg = digest([case, clause])
                        if dg not in seen:           # one replay per distinct shrunk case
                            seen.add(dg)
                            ck.violation(what, case, code=rows if isinstance(rows, Err) else rows[:200], clause=clause,
                                         expected=[[list(k), b] for k, b in prop_exp][:200])
                        continue
                    if (procs, chunk) == (1, None):
                        k = rng.choice([0, 0, 1, 2, 7, 5000])
                        requests.append([0 if alg == 'count' else 1, cut, k, mreads, mbins, tbl])
                        pending.append((len(requests) - 1, rows, make_case(contigs, [], bedl, alg, cut, 1, None), alg))
    # model
    if requests:
        runner = vlib.model_batch_parallel if len(requests) >= 64 else vlib.model_batch
        mout = runner('c09_coverage', requests)
        for (ri, rows, case, alg) in pending:
            m = mout[ri]
            why = model_rows_check(rows, m, alg)
            if why is not None:      # the oracle held on this table (else we did not get here): the model is off
                case['reads'] = reads if len(reads) <= 400 else reads[:400] + [['...%d more' % (len(reads) - 400)]]
                ck.tie_break('model coverage differs from do_coverage (%s): %s' % (alg, why), case,
                             code=rows if isinstance(rows, Err) else rows[:60],
                             model=m if isinstance(m, Err) else [list(x) for x in m][:60])
    for f in os.listdir(scratch):
        # the world's own files, and the empty chunk file to_chunks leaves behind whenever
        # chunk_size divides the number of lines
        if f.startswith('w%d' % wi) or (f.startswith('tmp.') and f.endswith('.bed')):
            try:
                os.remove(os.path.join(scratch, f))
            except OSError:
                pass
    return contigs, reads, beds


# ----------------------------------------------------------------------------
# small direct correspondences: cigar blocks, chunking, spec sums


def check_blocks(ck):
    import pysam
    n = 300 if ck.tier == 'quick' else 5000
    hdr = pysam.AlignmentHeader.from_dict({'HD': {'VN': '1.6'}, 'SQ': [{'SN': 'c', 'LN': 100000}]})
    cases, code = [], []
    for i in range(n):
        cig = gen_cigar(ck.rng, indel=(i % 2 == 0))
        if i % 17 == 0:
            cig = [(ck.rng.randrange(9), ck.rng.randint(1, 20)) for _ in range(ck.rng.randint(1, 6))]
            if query_len(cig) == 0:
                cig.append((M, 3))
        pos = ck.rng.choice([0, 1, ck.rng.randint(0, 5000)])
        a = pysam.AlignedSegment(hdr)
        a.query_name = 'q'
        a.reference_id = 0
        a.reference_start = pos
        a.cigarstring = cigar_str(cig)
        a.query_sequence = 'A' * query_len(cig)
        positions = list(a.positions)
        cases.append([pos, [[op, ln] for op, ln in cig]])
        code.append(positions)
    out = vlib.model_batch('c09_blocks', cases)
    for (pos, cig), positions, m in zip(cases, code, out):
        blocks, span = m[:-1], m[-1]
        mp = [x for lo, hi in blocks for x in range(lo, hi)]
        exp = []
        p = pos
        for op, ln in cig:
            if op in (M, EQ, X):
                exp.extend(range(p, p + ln))
                p += ln
            elif op in (D, N):
                p += ln
        ck.count(['blocks', pos, cig], nontrivial=any(op in (I, D, N, S, H) for op, _ in cig), cls='cigar')
        if positions != exp:
            ck.violation('read.positions are not the M/=/X reference positions', {'pos': pos, 'cigar': cigar_str(cig)},
                         code=positions, expected=exp, clause='C09_depth')
        elif mp != positions or span != [pos, p]:
            ck.tie_break('model blocks_of_cigar differs from pysam positions', {'pos': pos, 'cigar': cigar_str(cig)},
                         code=positions, model=m)


def check_chunks(ck, scratch):
    from cnvlib import parallel
    cases, code = [], []
    for n in range(0, 24 if ck.tier == 'quick' else 60):
        for k in (1, 2, 3, 5, 7, 8, 23, 5000):
            p = os.path.join(scratch, 'lines.bed')
            with open(p, 'w') as fh:
                for i in range(n):
                    fh.write('%d\n' % i)
            got = []
            for name in parallel.to_chunks(p, chunk_size=k):
                got.append([int(x) for x in open(name).read().split()])
                parallel.rm(name)
            cases.append([k, list(range(n))])
            code.append(got)
    out = vlib.model_batch('c09_chunks', cases)
    for (k, l), got, m in zip(cases, code, out):
        ck.count(['chunks', k, len(l)], nontrivial=len(l) > k, cls='to_chunks')
        exp = [l[i:i + k] for i in range(0, len(l), k)]
        if got != exp:
            ck.violation('to_chunks does not split into consecutive pieces of chunk_size lines', {'k': k, 'n': len(l)},
                         code=got, expected=exp, clause='C09_chunks')
        elif m != got:
            ck.tie_break('model chunks differs from parallel.to_chunks', {'k': k, 'n': len(l)}, code=got, model=m)


def check_spec(ck):
    """Coq per-position specification sums (Spec/Coverage.v) and the model's interval
    arithmetic against the python brute force, on small worlds (harness-internal)."""
    rng = ck.rng
    n = 25 if ck.tier == 'quick' else 300
    reqs_a, reqs_s, reqs_c, reqs_p, exps = [], [], [], [], []
    for i in range(n):
        contigs = [('chr1', rng.choice([120, 300])), ('chr2', 200)][:rng.randint(1, 2)]
        bed = gen_bed(rng, contigs, 10)
        bed = [[c, lo, min(hi, lo + 120), cols] for c, lo, hi, cols in bed]
        reads = gen_reads(rng, contigs, [bed], rng.randint(0, 25), indel=(i % 2 == 0))
        cut = rng.choice(CUTS)
        al, sp = brute_arrays(contigs, reads, cut)
        mr = model_reads(contigs, reads)
        mb = [[c, lo, hi, list(cols)] for c, lo, hi, cols in bed]
        reqs_a.append([0, cut, mr, mb])
        reqs_s.append([1, cut, mr, mb])
        exps.append(([b for _, b in expected_rows(contigs, bed, al)], [b for _, b in expected_rows(contigs, bed, sp)]))
    oa = vlib.model_batch('c09_spec_bases', reqs_a)
    os_ = vlib.model_batch('c09_spec_bases', reqs_s)
    oc = vlib.model_batch('c09_bases', reqs_a)
    op = vlib.model_batch('c09_bases', reqs_s)
    for ra, a, s, c, p, (ea, es) in zip(reqs_a, oa, os_, oc, op, exps):
        ck.count(['spec', digest(ra)], nontrivial=any(ea), cls='spec-sums')
        if a != ea or s != es:
            raise RuntimeError('Coq specification sums disagree with the python brute force: %r %r vs %r %r' % (a, s, ea, es))
        if c != ea or p != es:
            # the model follows the generated constants of /repo: if it leaves the per-base
            # brute force, the source changed under it (the main streams look for a failing input)
            ck.tie_break('model base counts differ from the per-base brute force (a generated constant of '
                         'cnvlib/coverage.py changed the model?)', {'request': ra},
                         model=[c, p], expected=[ea, es])


def check_cli(ck, scratch):
    """the command line path (cnvkit.py coverage ... -> .cnn) on a few small worlds"""
    rng = ck.rng
    for i in range(2 if ck.tier == 'quick' else 16):
        contigs = [(n, rng.choice([300, 1000, 2000])) for n in rng.sample(['chr1', 'chr2', 'chrX'], rng.randint(1, 3))]
        bed = gen_bed(rng, contigs, 25)
        reads = gen_reads(rng, contigs, [bed], rng.choice([0, 30, 200]), indel=False)
        case = make_case(contigs, reads, bed, rng.choice(['pileup', 'count']), rng.choice([None] + CUTS),
                         rng.choice([None, 1, 2, 3]), None)
        case['cli'] = True
        res = eval_case(scratch, case, tag='cli%d' % i)
        ck.count(['cli', digest(case)], nontrivial=any(b for _, b in res['expected']),
                 cls='cli:%s:p%s' % (case['alg'], case['procs']))
        if res['violation']:
            what, clause, _ = res['violation']
            ck.violation('command line: ' + what, case, code=res['rows'], clause=clause,
                         expected=[[list(k), b] for k, b in res['expected']])


# ----------------------------------------------------------------------------
# corpus


def run_corpus(ck, scratch):
    path = os.path.join(vlib.VERIF, 'corpus', 'c09.json')
    if not os.path.exists(path):
        return
    for i, entry in enumerate(json.load(open(path))):
        case = entry['case']
        res = eval_case(scratch, case, tag='corpus%d' % i)
        ck.count(['corpus', entry.get('id', i)], nontrivial=True, cls='corpus')
        if res['violation']:
            what, clause, _ = res['violation']
            ck.violation('corpus case %s: %s' % (entry.get('id', i), what), case, code=res['rows'], clause=clause,
                         expected=[[list(k), b] for k, b in res['expected']])


# ----------------------------------------------------------------------------


def quick_configs(rng, alg):
    pool = [(2, 1), (2, 2), (3, 7), (3, 2), (2, None), (3, 1), (2, 7), (16, 2)]
    return rng.sample(pool, 2) if alg == 'pileup' else [(rng.choice([2, 3, 3, 16]), None)]


def thorough_configs(rng, alg):
    pool = [(p, k) for p in (2, 3) for k in (1, 2, 7, None)] + [(16, 1), (16, 7), (16, None)]
    if alg == 'pileup':
        return rng.sample(pool, 3)
    return [(p, None) for p in rng.sample([2, 3, 3, 16], 2)]


def run(ck, scratch):
    ck.rule = ('one case = one do_coverage call on a synthetic coordinate-sorted BAM (1-3 contigs, reads of query length 30..150 with '
               'soft/hard clips, M/=/X, all 16 combinations of the flags 0x4/0x100/0x200/0x400 plus reverse/paired/supplementary, MAPQ '
               'around the cut-offs, starts/ends placed on, one off and across bin edges and contig ends, mates overlapping) x a BED '
               '(3/4/6/8 columns; abutting tilings, overlapping, nested, duplicate, zero-width, whole-contig, over- and beyond-the-end '
               'bins; sorted or shuffled; ordinary, NA-token, numeric-looking and empty names) x algorithm x min_mapq in {0,1,10,30,60} '
               'x (processes, chunk size). Streams: noindel (oracle + model), indel (I/D/N: --count oracle + model, pileup model only), '
               'big (BED with more lines than the real chunk size; thorough). Each table is checked against the per-base brute force, '
               'against the serial table and against the Coq model. non-trivial = some bin has non-zero depth and (a filtered read '
               'overlaps a bin or processes > 1); distinct by (BAM digest, BED digest, configuration).')
    ck.unproved_remainder = [
        'runtime scheduling is outside the model (PARTIAL): ProcessPoolExecutor.map order, temporary chunk files, fork start-up '
        'are exercised with processes in {1,2,3,16} and chunk sizes {1,2,7,5000} only; C09_chunks proves "any split into consecutive '
        'chunks, results concatenated in order" for the model',
        'samtools bedcov (pileup engine, default flag filter, -Q) and pysam.fetch/read.positions are oracles of the model: sampled, '
        'not proved; measured here: bedcov counts deleted (D) and skipped (N) reference positions inside a read as covered',
        'log2 is an oracle (math.log / numpy.log2): compared by tolerance 1e-9 with log2 of the exact rational depth',
        'row order of the --count table (tabio sort + by_chromosome grouping) is not modelled: compared as a multiset of rows',
    ]
    if not ck.build_status.get('driver_ok'):
        raise RuntimeError('model driver unavailable')
    tempfile.tempdir = scratch           # chunk files of to_chunks land in the scratch directory
    import pandas
    try:
        from pandas._libs.parsers import STR_NA_VALUES
        if set(STR_NA_VALUES) != set(NA_TOKENS):
            ck.notes.append('pandas NA tokens differ from the harness list')
    except ImportError:
        pass
    run_corpus(ck, scratch)
    check_blocks(ck)
    check_chunks(ck, scratch)
    check_spec(ck)
    check_cli(ck, scratch)
    quick = ck.tier == 'quick'
    wi = 0
    plan = []
    if quick:
        plan += [('noindel', 18), ('indel', 7), ('empty', 1), ('dense', 2), ('big', 1)]
    else:
        plan += [('noindel', 110), ('indel', 40), ('empty', 3), ('dense', 8), ('big', 3)]
    for stream, count in plan:
        for _ in range(count):
            rng = ck.rng
            if stream == 'empty':
                run_world(ck, scratch, wi, 'noindel', 0, 12, 1, [0, 30], quick_configs if quick else thorough_configs)
            elif stream == 'dense':
                # many reads stacked on few positions: high depth, every filter combination
                nreads = 600 if quick else rng.choice([2000, 5000])
                run_world(ck, scratch, wi, 'noindel', nreads, 20, 1, rng.sample(CUTS, 2), quick_configs if quick else thorough_configs)
            elif stream == 'big':
                # more BED lines than the real chunk size: the unwrapped to_chunks splits
                cfg = lambda r, alg: [(2, None), (3, None)] if alg == 'pileup' else [(2, None)]
                nb = 5003 if quick else rng.choice([5001, 7500, 10000, 11000])
                run_world(ck, scratch, wi, 'noindel', 150 if quick else 400, nb, 1, [rng.choice(CUTS)], cfg, big=True)
            else:
                nreads = rng.choice([1, 5, 40, 120, 300]) if quick else rng.choice([1, 5, 40, 300, 1000, 2500])
                cuts = rng.sample(CUTS, 2 if quick else 3)
                run_world(ck, scratch, wi, stream, nreads, 30 if quick else 80, 2, cuts,
                          quick_configs if quick else thorough_configs)
            wi += 1
    ck.extra['streams'] = dict(plan)
    ck.extra.pop('_reported', None)


def replay(ck, body):
    scratch = vlib.scratch_dir('C09-replay')
    try:
        tempfile.tempdir = scratch
        res = eval_case(scratch, body['case'], tag='replay')
    finally:
        vlib.rm_scratch(scratch)
    print('case: alg=%s cut=%s procs=%s chunk=%s, %d reads, %d bins' % (
        body['case']['alg'], body['case']['cut'], body['case']['procs'], body['case']['chunk'],
        len(body['case']['reads']), len(body['case']['bed'])))
    print('code rows    :', res['rows'] if isinstance(res['rows'], Err) else res['rows'][:20])
    print('expected     :', [(k, b) for k, b in res['expected']][:20])
    if res['violation']:
        print('STILL FAILS  :', res['violation'][0], '(clause %s)' % res['violation'][1])
        return 1
    print('passes now')
    return 0
