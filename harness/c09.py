"""C09 -- coverage reports mean per-base depth of the counted reads in every bin.

Correspondence + search harness for cnvlib.coverage.do_coverage (both algorithms:
samtools bedcov pileup, and --count) against

* a direct oracle: an independent per-base brute force (one numpy counter per
  reference position, incremented for every aligned base of every read that has
  none of the flags 0x4/0x100/0x200/0x400 and MAPQ >= cut; a bin's base count is
  the sum of the counters of its positions), depth compared exactly
  (correctly-rounded float of the rational bases/length), log2 by tolerance,
  every row keyed by (chromosome, start, end, name), and the table of every
  (processes, chunk size) configuration compared with the serial one;
* the extracted Coq model (Model/Coverage.v), whose clauses are proved in
  Props/C09.v (C09_depth, C09_empty, C09_filters, C09_algorithms_agree,
  C09_chunks, and for the layers below: C09_bedcov_parse / C09_names_verbatim /
  C09_pileup_text, C09_to_chunks, C09_pileup_order, C09_count_order, C09_min_mapq).
  Tables are compared with the model POSITIONALLY for both algorithms.

Besides whole do_coverage runs the layers are compared directly:
* the text layer of the pileup path: detect_bedcov_columns, bedcov()'s read_csv and
  interval_coverages_pileup's table assembly are called on generated bedcov text
  (pysam.bedcov replaced inside this process by a stand-in that returns the text and
  records its arguments: this also checks that `-Q n` is passed exactly for
  min_mapq > 0); and through samtools: the text pysam.bedcov really returns for each
  world must be, character by character, the model's bedcov_text of the bins and the
  model's pileup base counts;
* parallel.to_chunks on files with '#' comments, track and blank lines, missing final
  newline, against the model's to_chunks_lines;
* the row order of the --count path (tabio.read_auto + by_chromosome + coords, no BAM)
  against the model's count_order and against the statement of C09_count_order.

Level: proof of the model's clauses + validated model.  PARTIAL with respect to
the runtime: the scheduling of the process pool, the temporary chunk files and
samtools' pileup engine are outside the model; they are exercised here
(processes 1/2/3/16, chunk sizes 1/2/7/5000 through a wrapper around
cnvlib.coverage.to_chunks that lives in this process only) but no theorem speaks
about them beyond "any split into chunks, results concatenated in order".
Reads with I/D/N are a separate stream: --count is still held to "aligned bases
inside the bin"; the pileup algorithm (which, measured in this build, also counts
the deleted/skipped reference positions inside a read's span) is compared with
the model only -- the property claims agreement of the two algorithms only for
reads without indels and its quantifier has no indels."""
import os, math, json, hashlib, tempfile
from fractions import Fraction
import numpy as np
import vlib
from vlib import Err

LEVEL = 'proof'

M, I, D, N, S, H, P, EQ, X = range(9)
CIG = 'MIDNSHP=X'
EXCLUDE_MASK = 0x4 | 0x100 | 0x200 | 0x400      # unmapped, secondary, QC-fail, duplicate
CUTS = [0, 1, 10, 30, 60]
NA_TOKENS = ['', '#N/A', '#N/A N/A', '#NA', '-1.#IND', '-1.#QNAN', '-NaN', '-nan', '1.#IND', '1.#QNAN', '<NA>', 'N/A',
             'NA', 'NULL', 'NaN', 'None', 'n/a', 'nan', 'null']
NUMERIC_NAMES = ['007', '1', '12', '1e3', '1.10', '0x10', '-5', '+3', '1_000', '00', '3.0', 'inf', 'True']
ORDINARY = ['TP53', 'BRCA1', 'EGFR', 'a,b', 'x|y', 'g.1', '-', '.', 'Antitarget', 'CGH', 'gene-2', 'orf(1)', 'a b',
            'a"b', "5'UTR", 'x"', 'p;q=1', '#7', '\\N',
            # quote characters: leading, embedded, paired (pileup read them through pandas' quoting until /repo 0ba5218)
            '"TP53"', '"a', '""', '"x""y"', '"', "'q'", 'a""b']


# ----------------------------------------------------------------------------
# worlds: contigs + reads (-> BAM) + BED lines


def cigar_str(cig):
    return None if cig is None else ''.join('%d%s' % (n, CIG[op]) for op, n in cig)


def parse_cigar(s):
    if s is None:
        return None
    out, num = [], ''
    for ch in s:
        if ch.isdigit():
            num += ch
        else:
            out.append((CIG.index(ch), int(num)))
            num = ''
    return out


def ref_len(cig):
    return sum(n for op, n in cig if op in (M, D, N, EQ, X))


def query_len(cig):
    return sum(n for op, n in cig if op in (M, I, S, EQ, X))


def split_int(rng, total, parts):
    """total >= parts >= 1 -> `parts` positive integers summing to total"""
    cuts = sorted(rng.sample(range(1, total), parts - 1)) if parts > 1 else []
    return [b - a for a, b in zip([0] + cuts, cuts + [total])]


def gen_cigar(rng, indel):
    """indel: False (M/=/X with clips), True (I, D and N), 'ins' (insertions only: no reference skip)"""
    ins_only = (indel == 'ins')
    qlen = rng.choice([30, 31, 36, 50, 75, 100, 101, 149, 150, rng.randint(30, 150)])
    lead = rng.choice([0, 0, 0, 1, 5, rng.randint(0, qlen // 3)])
    trail = rng.choice([0, 0, 0, 1, 5, rng.randint(0, qlen // 3)])
    core = qlen - lead - trail
    cig = []
    if rng.random() < 0.08:
        cig.append((H, rng.randint(1, 40)))
    if lead:
        cig.append((S, lead))
    if not indel:
        style = rng.random()
        if style < 0.7 or core < 3:
            cig.append((M, core))
        else:
            parts = split_int(rng, core, rng.randint(2, 3))
            ops = rng.choice([[EQ, X, EQ], [M, X, M], [X, EQ, X], [EQ, M, EQ]])
            cig.extend(zip(ops, parts))
    else:
        nparts = rng.randint(2, min(4, core)) if core >= 2 else 1
        parts = split_int(rng, core, nparts)
        # odd pieces may become insertions (query only); the ends stay aligned
        for j, ln in enumerate(parts):
            if 0 < j < len(parts) - 1 and rng.random() < (0.8 if ins_only else 0.4):
                cig.append((I, ln))
            else:
                if cig and cig[-1][0] in (M, EQ, X) and not ins_only:
                    cig.append((rng.choice([D, D, N]), rng.choice([1, 2, 5, rng.randint(1, 30), rng.randint(1, 200)])))
                cig.append((rng.choice([M, M, EQ]), ln))
    if trail:
        cig.append((S, trail))
    if rng.random() < 0.08:
        cig.append((H, rng.randint(1, 40)))
    return cig


def gen_flag(rng, k):
    """all 16 combinations of the four filter bits appear (k cycles through them with
    probability 1/3), plus reverse / paired / supplementary decorations."""
    f = 0
    if rng.random() < 0.34:
        combo = k % 16
        for b, bit in enumerate((0x4, 0x100, 0x200, 0x400)):
            if combo >> b & 1:
                f |= bit
    if rng.random() < 0.5:
        f |= 0x10
    if rng.random() < 0.12:
        f |= 0x800                 # supplementary: NOT one of the four excluded flags, must be counted
    if rng.random() < 0.25:
        # paired decorations: paired, proper pair, mate unmapped, mate reverse, first / second in pair
        f |= 0x1 | rng.choice([0, 0x2, 0x8, 0x20, 0x2 | 0x20]) | rng.choice([0x40, 0x80])
    return f


def gen_mapq(rng):
    return rng.choice([0, 1, 2, 9, 10, 11, 29, 30, 31, 59, 60, 60, 60, rng.randint(0, 60)])


def gen_bins(rng, contigs, max_bins, big=False):
    """list of [chrom, lo, hi]; abutting tilings, overlapping / nested / duplicate bins,
    zero-width, bins at 0, over and beyond the contig end."""
    bins = []
    for name, L in contigs:
        if rng.random() < 0.12 and len(contigs) > 1:
            continue
        kinds = ['tile', 'tile', 'overlap', 'zero', 'offend', 'start', 'whole', 'dup', 'rand']
        for _ in range(rng.randint(2, 6) if not big else 1):
            kind = rng.choice(kinds) if not big else 'bigtile'
            w = rng.choice([1, 2, 3, 10, 50, 100, 120, rng.randint(1, max(2, L // 4))])
            a = rng.randint(0, max(0, L - 1))
            if kind == 'tile':
                pos = rng.randint(0, L // 3)
                for _ in range(rng.randint(2, 8)):
                    ww = rng.choice([w, w, rng.randint(1, 150)])
                    bins.append([name, pos, pos + ww])
                    pos += ww
            elif kind == 'bigtile':
                pos = rng.randint(0, 50)
                while pos < L and len(bins) < max_bins:
                    ww = rng.choice([1, 2, 5, 10, 20, rng.randint(1, 40)])
                    bins.append([name, pos, pos + ww])
                    pos += ww + rng.choice([0, 0, 0, 3])
            elif kind == 'overlap':
                bins.append([name, a, a + w])
                bins.append([name, a + w // 2, a + w + w // 2])
                bins.append([name, a + 1, max(a + 1, a + w - 1)])
            elif kind == 'zero':
                bins.append([name, a, a])
            elif kind == 'offend':
                bins.append([name, max(0, L - w // 2 - 1), L + w])
                if rng.random() < 0.5:
                    bins.append([name, L, L + w])
                if rng.random() < 0.3:
                    bins.append([name, L + 10, L + 10 + w])
            elif kind == 'start':
                bins.append([name, 0, w])
            elif kind == 'whole':
                bins.append([name, 0, L])
            elif kind == 'dup':
                bins.append([name, a, a + w])
                bins.append([name, a, a + w])
            else:
                bins.append([name, a, a + w])
    if not bins:
        bins.append([contigs[0][0], 0, min(100, contigs[0][1])])
    if len(bins) > max_bins:
        bins = bins[:max_bins]
    order = {c: i for i, (c, _) in enumerate(contigs)}
    if rng.random() < 0.7 or big:
        bins.sort(key=lambda b: (order[b[0]], b[1], b[2]))
    else:
        rng.shuffle(bins)
    return bins


def gen_names(rng, n, ncols):
    """4th-column names: ordinary, or 'odd' (NA tokens, numeric-looking, empty; the first
    few all numeric so that a small chunk holds numeric names only)"""
    if ncols == 3:
        return [None] * n
    style = rng.random()
    names = []
    for i in range(n):
        if style < 0.6:
            nm = rng.choice(ORDINARY + ['g%d' % (i // 2), 'bin%d' % i])
        elif style < 0.8:
            nm = rng.choice(NUMERIC_NAMES) if i < 4 or rng.random() < 0.3 else rng.choice(ORDINARY + NA_TOKENS)
        else:
            nm = rng.choice(NA_TOKENS + NUMERIC_NAMES + ORDINARY)
        names.append(nm)
    return names


def gen_bed(rng, contigs, max_bins, big=False):
    bins = gen_bins(rng, contigs, max_bins, big)
    ncols = rng.choice([3, 4, 4, 6, 8])
    names = gen_names(rng, len(bins), ncols)
    lines = []
    for (c, lo, hi), nm in zip(bins, names):
        cols = []
        if ncols >= 4:
            cols.append(nm)
        if ncols >= 6:
            cols += [str(rng.choice([0, 500, 1000])), rng.choice('+-.')]
        if ncols >= 8:
            cols += [str(lo), str(hi)]
        lines.append([c, lo, hi, cols])
    return lines


def gen_reads(rng, contigs, beds, nreads, indel):
    anchors = {i: [0, L] for i, (_, L) in enumerate(contigs)}
    idx = {c: i for i, (c, _) in enumerate(contigs)}
    for bed in beds:
        for c, lo, hi, _ in bed[:400]:
            anchors[idx[c]] += [lo, hi]
    reads = []
    k = 0
    while len(reads) < nreads:
        tid = rng.randrange(len(contigs))
        L = contigs[tid][1]
        cig = gen_cigar(rng, indel)
        rl = ref_len(cig)
        mode = rng.random()
        e = rng.choice(anchors[tid])
        if mode < 0.2:
            pos = e + rng.choice([-1, 0, 1])
        elif mode < 0.4:
            pos = e - rl + rng.choice([-1, 0, 1])
        elif mode < 0.65:
            pos = e - rng.randint(1, max(1, rl - 1))
        elif mode < 0.72:
            pos = 0
        elif mode < 0.8:
            pos = L - rl + rng.choice([0, 0, 0, 1, 7])     # ends at / hangs over the contig end
        else:
            pos = rng.randint(0, L - 1)
        pos = max(0, min(L - 1, pos))
        flag = gen_flag(rng, k)
        mapq = gen_mapq(rng)
        name = 'r%d' % k
        k += 1
        if flag & 0x4 and rng.random() < 0.5:
            cig = None                                   # placed unmapped mate: no alignment at all
        reads.append([tid, pos, cigar_str(cig), flag, mapq, name])
        if rng.random() < 0.15 and len(reads) < nreads:    # a mate with the same name, overlapping
            cig2 = gen_cigar(rng, indel)
            pos2 = max(0, min(L - 1, pos + rng.randint(0, max(1, rl))))
            reads[-1][3] |= 0x1 | 0x40 | 0x20
            reads.append([tid, pos2, cigar_str(cig2), gen_flag(rng, k) | 0x1 | 0x80 | 0x10, gen_mapq(rng), name])
    reads.sort(key=lambda r: (r[0], r[1]))
    return reads


def write_bam(path, contigs, reads):
    import pysam
    hdr = {'HD': {'VN': '1.6', 'SO': 'coordinate'}, 'SQ': [{'SN': n, 'LN': l} for n, l in contigs]}
    with pysam.AlignmentFile(path, 'wb', header=hdr) as f:
        for tid, pos, cig, flag, mapq, name in reads:
            a = pysam.AlignedSegment(f.header)
            a.query_name = name
            a.flag = flag
            a.reference_id = tid
            a.reference_start = pos
            a.mapping_quality = mapq
            if cig is not None:
                a.cigarstring = cig
                ql = query_len(parse_cigar(cig))
            else:
                ql = 50
            a.query_sequence = 'A' * ql
            if flag & 0x1:
                a.next_reference_id = tid
                a.next_reference_start = pos
            f.write(a)
        if reads and len(reads) % 2 == 0:
            # a tail of unplaced unmapped reads (no contig, no position), where `samtools sort` puts them: a valid
            # coordinate-sorted BAM; they are never counted (round-4 seed C09-m11: the sortedness pre-check must accept
            # them). A deterministic function of `reads`, so that shrinking and replays rebuild the same file.
            for j in range(2):
                a = pysam.AlignedSegment(f.header)
                a.query_name = 'unplaced%d' % j
                a.flag = 0x4
                a.reference_id = -1
                a.reference_start = -1
                a.mapping_quality = 0
                a.query_sequence = 'A' * 30
                f.write(a)
    pysam.index(path)


def bed_text_lines(lines, decor=False):
    """the lines of the regions file; decor: a leading track line, '#' comment lines and blank lines in
    between (skipped by samtools and -- the '#' lines -- by to_chunks; the --count reader rejects them)"""
    out = []
    if decor:
        out.append('track name=verif description="C09 regions"\n')
    for i, (c, lo, hi, cols) in enumerate(lines):
        if decor and i % 3 == 0:
            out.append('#comment %d\tnot\ta\tbin\n' % i)
        if decor and i % 5 == 2:
            out.append('\n')
        out.append('\t'.join([c, str(lo), str(hi)] + list(cols)) + '\n')
    if decor:
        out.append('# trailing comment\n')
    return out


def write_bed(path, lines, decor=False):
    with open(path, 'w') as fh:
        fh.write(''.join(bed_text_lines(lines, decor)))


# ----------------------------------------------------------------------------
# the direct oracle: per-base brute force


def brute_arrays(contigs, reads, cut):
    """per contig: (aligned, spanned) per-position counters of the counted reads"""
    ends = [L for _, L in contigs]
    parsed = []
    for tid, pos, cig, flag, mapq, _ in reads:
        c = parse_cigar(cig)
        if c is None:
            continue
        parsed.append((tid, pos, c, flag, mapq))
        ends[tid] = max(ends[tid], pos + ref_len(c))
    aligned = [np.zeros(e + 1, dtype=np.int64) for e in ends]
    spanned = [np.zeros(e + 1, dtype=np.int64) for e in ends]
    for tid, pos, c, flag, mapq in parsed:
        if flag & EXCLUDE_MASK:
            continue
        if mapq < cut:
            continue
        p = pos
        for op, n in c:
            if op in (M, EQ, X):
                aligned[tid][p:p + n] += 1
                p += n
            elif op in (D, N):
                p += n
        spanned[tid][pos:p] += 1
    return aligned, spanned


def bin_sum(arr, lo, hi):
    if hi <= lo:
        return 0
    lo = max(0, lo)
    hi = min(hi, len(arr))
    if hi <= lo:
        return 0
    return int(arr[lo:hi].sum())


def exp_name(cols):
    return cols[0] if cols else '-'


def expected_rows(contigs, bed, arrays):
    """[(key, bases)] in BED order; key = (chrom, lo, hi, name)"""
    idx = {c: i for i, (c, _) in enumerate(contigs)}
    out = []
    for c, lo, hi, cols in bed:
        out.append(((c, lo, hi, exp_name(cols)), bin_sum(arrays[idx[c]], lo, hi)))
    return out


def depth_float(bases, lo, hi):
    return float(Fraction(bases, hi - lo)) if hi > lo else 0.0


def log2_exact(fr):
    return math.log2(fr.numerator) - math.log2(fr.denominator)


# ----------------------------------------------------------------------------
# running the code


def run_code(bed, bam, alg, cut, procs, chunk):
    from cnvlib import coverage, parallel
    orig = parallel.to_chunks
    if chunk is None:
        coverage.to_chunks = orig
    else:
        coverage.to_chunks = (lambda fname, _k=chunk: orig(fname, chunk_size=_k))
    try:
        cn = coverage.do_coverage(bed, bam, by_count=(alg == 'count'), min_mapq=cut, processes=procs)
        d = cn.data
        rows = []
        for c, s, e, g, dp, l2 in zip(d['chromosome'].tolist(), d['start'].tolist(), d['end'].tolist(),
                                      d['gene'].tolist(), d['depth'].tolist(), d['log2'].tolist()):
            rows.append((c, s, e, g, float(dp), float(l2)))
        return rows
    except Exception as e:   # noqa
        return Err(type(e).__name__ + ': ' + str(e)[:160])
    finally:
        coverage.to_chunks = orig


def run_cli(bed, bam, alg, cut, procs, out):
    """the command line: python -m cnvlib.cnvkit coverage BAM BED [-c] [-q N] [-p N] -o out.cnn,
    the .cnn parsed by hand (no pandas: names stay text)"""
    import subprocess, sys
    cmd = [vlib.PY, '-m', 'cnvlib.cnvkit', 'coverage', bam, bed, '-o', out]
    if alg == 'count':
        cmd.append('-c')
    if cut is not None:
        cmd += ['-q', str(cut)]
    if procs is not None:
        cmd += ['-p', str(procs)]
    p = subprocess.run(cmd, env=vlib.repo_env(), stdout=subprocess.PIPE, stderr=subprocess.PIPE, timeout=600)
    if p.returncode != 0:
        return Err('cnvkit.py coverage exit %d: %s' % (p.returncode, p.stderr.decode(errors='replace')[-160:]))
    import csv
    with open(out, newline='') as fh:
        # the .cnn is written by pandas to_csv: a field holding a double quote is CSV-quoted
        # ('a"b' -> "a""b"); read it with the same convention, every field as text
        lines = list(csv.reader(fh, delimiter='\t'))
    hdr = lines[0]
    ix = {h: i for i, h in enumerate(hdr)}
    rows = []
    for f in lines[1:]:
        rows.append((f[ix['chromosome']], int(f[ix['start']]), int(f[ix['end']]), f[ix['gene']],
                     float(f[ix['depth']]), float(f[ix['log2']])))
    os.remove(out)
    return rows


def oracle_check(rows, exp, alg, null_log2=-20.0, tol=0.0, ltol=1e-9):
    """the property's clauses on one output table; returns None or (what, clause, detail)"""
    if isinstance(rows, Err):
        return ('do_coverage raised %s' % rows.msg, 'C09_depth', None)
    if len(rows) != len(exp):
        return ('table has %d rows for %d bins' % (len(rows), len(exp)), 'C09_chunks', None)
    exp_sorted, got = exp, rows           # the pileup table keeps the BED's line order
    if alg != 'pileup':
        # --count sorts the regions (tabio): compare as a multiset, contigs in any order
        exp_sorted = sorted(exp, key=lambda t: (t[0][0], t[0][1], t[0][2], t[0][3], t[1]))
        got = sorted(rows, key=lambda r: (r[0], r[1], r[2], str(r[3]), r[4]))
    for r, (key, bases) in zip(got, exp_sorted):
        k = (r[0], r[1], r[2], r[3])
        if k != key or not isinstance(r[3], str):
            return ('row %r does not keep its bin\'s coordinates and name %r' % (k, key), 'C09_chunks', {'row': r, 'bin': key})
        d = depth_float(bases, key[1], key[2])
        if not (r[4] == d or (tol and abs(r[4] - d) <= tol * max(1.0, abs(d)))):
            return ('bin %r: depth %r, expected %d aligned bases / length = %r' % (key, r[4], bases, d), 'C09_depth',
                    {'row': r, 'bin': key, 'bases': bases})
        if bases == 0 or key[2] <= key[1]:
            if r[5] != null_log2:
                return ('bin %r without counted bases: log2 %r, expected -20' % (key, r[5]), 'C09_empty', {'row': r})
        else:
            l2 = log2_exact(Fraction(bases, key[2] - key[1]))
            if not abs(r[5] - l2) <= ltol * max(1.0, abs(l2)):
                return ('bin %r: log2 %r, expected log2(depth) = %r' % (key, r[5], l2), 'C09_depth', {'row': r})
    return None


def model_rows_check(rows, mrows, alg):
    """code table vs model table"""
    if isinstance(mrows, Err) or isinstance(rows, Err):
        return None if (isinstance(mrows, Err) and isinstance(rows, Err)) else 'error behaviour differs'
    if len(rows) != len(mrows):
        return 'row counts differ'
    # positional for both algorithms: the model orders the --count table as the code does
    # (C09_count_order: sorted by chromosome key, start, end; grouped by chromosome name)
    mm = [(m[0], m[1], m[2], m[3], m[4], m[5]) for m in mrows]
    for i, (r, m) in enumerate(zip(rows, mm)):
        if (r[0], r[1], r[2], r[3]) != (m[0], m[1], m[2], m[3]):
            return 'row %d: key %r vs model %r (row order / bin identity)' % (i, r[:4], m[:4])
        if r[4] != float(m[4]):
            return 'depth %r vs model %s at %r' % (r[4], m[4], r[:4])
        if not vlib.close(r[5], m[5]):
            return 'log2 %r vs model %s at %r' % (r[5], m[5], r[:4])
    return None


# ----------------------------------------------------------------------------
# one world = one BAM + several BEDs, evaluated under several configurations


def digest(obj):
    return hashlib.sha1(json.dumps(obj, sort_keys=True).encode()).hexdigest()[:16]


def model_reads(contigs, reads):
    out = []
    for tid, pos, cig, flag, mapq, _ in reads:
        c = parse_cigar(cig) or []
        out.append([contigs[tid][0], flag, mapq, pos, [[op, n] for op, n in c]])
    return out


def log2_table(depths):
    tbl = []
    for d in sorted(depths):
        if d > 0:
            v = float(np.log2(float(d)))
            ex = log2_exact(d)
            if not abs(v - ex) <= 1e-11 * max(1.0, abs(ex)):
                raise RuntimeError('log2 oracle contract fails at %s: %r vs %r' % (d, v, ex))
            tbl.append([d, Fraction(v)])
    return tbl


def make_case(contigs, reads, bed, alg, cut, procs, chunk):
    return {'contigs': [list(c) for c in contigs], 'reads': [list(r) for r in reads], 'bed': bed,
            'alg': alg, 'cut': cut, 'procs': procs, 'chunk': chunk}


def shrink(scratch, case, clause_detail):
    """restrict a failing case to the failing bin and the reads near it, if it still fails"""
    try:
        key = clause_detail.get('bin') if clause_detail else None
        if not key:
            return case
        c, lo, hi = key[0], key[1], key[2]
        idx = {n: i for i, (n, _) in enumerate(case['contigs'])}
        bed = [b for b in case['bed'] if (b[0], b[1], b[2]) == (c, lo, hi)][:1]
        reads = []
        for r in case['reads']:
            cg = parse_cigar(r[2])
            end = r[1] + (ref_len(cg) if cg else 1)
            if r[0] == idx[c] and r[1] < hi + 1 and end > lo - 1:
                reads.append(r)
        small = dict(case, bed=bed, reads=reads, procs=1, chunk=None)
        res = eval_case(scratch, small, tag='shrink')
        if res['violation']:
            return small
    except Exception:   # noqa
        pass
    return case


def eval_case(scratch, case, tag='case'):
    """build the files of one self-contained case, run the code, apply the oracle
    (used by the corpus, by replay and by shrinking)"""
    contigs = [tuple(c) for c in case['contigs']]
    reads = case['reads']
    bam = os.path.join(scratch, '%s.bam' % tag)
    bed = os.path.join(scratch, '%s.bed' % tag)
    write_bam(bam, contigs, reads)
    write_bed(bed, case['bed'])
    aligned, spanned = brute_arrays(contigs, reads, case['cut'] if case['cut'] is not None else 0)   # -q defaults to 0
    exp = expected_rows(contigs, case['bed'], aligned)
    if case.get('cli'):
        # the .cnn file prints 6 significant digits
        rows = run_cli(bed, bam, case['alg'], case['cut'], case['procs'], os.path.join(scratch, '%s.cnn' % tag))
        base = None
        v = oracle_check(rows, exp, case['alg'], tol=1e-5, ltol=1e-5)
    else:
        rows = run_code(bed, bam, case['alg'], case['cut'], case['procs'], case['chunk'])
        base = run_code(bed, bam, case['alg'], case['cut'], 1, None)
        v = oracle_check(rows, exp, case['alg'])
        if v is None and rows != base:
            v = ('table differs from the serial run', 'C09_chunks', None)
    for f in (bam, bam + '.bai', bed):
        try:
            os.remove(f)
        except OSError:
            pass
    return {'violation': v, 'rows': rows, 'expected': exp, 'serial': base}


def run_world(ck, scratch, wi, stream, nreads, max_bins, nbeds, cuts, configs, big=False, algs=('pileup', 'count'),
              decor=False):
    """stream: noindel | indel (I, D, N) | ins (insertions only: no reference skip, the oracle applies to both
    algorithms).  decor: the regions file carries a track line, '#' comments and blank lines (pileup only)."""
    import pysam
    rng = ck.rng
    indel = {'indel': True, 'ins': 'ins'}.get(stream, False)
    ncont = rng.randint(1, 3)
    names = rng.sample(['chr1', 'chr2', 'chrX', '1', 'ctgA', 'chrUn_gl000220', 'chr10'], ncont)
    if big:
        contigs = [(n, rng.choice([200000, 300000])) for n in names]
    else:
        contigs = [(n, rng.choice([200, 400, 1000, 2500, rng.randint(160, 4000)])) for n in names]
    beds = [gen_bed(rng, contigs, max_bins, big) for _ in range(nbeds)]
    reads = gen_reads(rng, contigs, beds, nreads, indel)
    if big:
        ck.extra.setdefault('big_bed_lines', []).append(len(beds[0]))
    bam = os.path.join(scratch, 'w%d.bam' % wi)
    write_bam(bam, contigs, reads)
    wd = digest([contigs, reads])
    mreads = model_reads(contigs, reads)
    requests = []          # [alg, cut, k, reads, bins, log2 table] for the model entry
    pending = []           # (request index, code rows, case without reads, alg)
    text_requests, text_pending = [], []      # samtools' own text against the model's bedcov_text
    nsupp = sum(1 for r in reads if r[3] & 0x800 and not r[3] & EXCLUDE_MASK)
    ck.extra['supplementary_counted_reads'] = ck.extra.get('supplementary_counted_reads', 0) + nsupp
    for cut in cuts:
        aligned, spanned = brute_arrays(contigs, reads, cut)
        unfiltered, _ = brute_arrays(contigs, [[r[0], r[1], r[2], r[3] & ~EXCLUDE_MASK & ~0x4, 60, r[5]] for r in reads], 0)
        for bi, bedl in enumerate(beds):
            bedp = os.path.join(scratch, 'w%d_b%d.bed' % (wi, bi))
            if not os.path.exists(bedp):
                write_bed(bedp, bedl, decor)
            bd = digest(bedl)
            exp_al = expected_rows(contigs, bedl, aligned)
            exp_sp = expected_rows(contigs, bedl, spanned)
            exp_un = expected_rows(contigs, bedl, unfiltered)
            depths = set()
            for (key, b) in exp_al + exp_sp:
                if key[2] > key[1]:
                    depths.add(Fraction(b, key[2] - key[1]))
            tbl = log2_table(depths)
            filt_matters = any(a[1] != u[1] for a, u in zip(exp_al, exp_un))
            nonzero = any(b for _, b in exp_al)
            ncols = 3 + len(bedl[0][3])
            mbins = [[c, lo, hi, list(cols)] for c, lo, hi, cols in bedl]
            if not big or cut == cuts[0]:
                # the text layer through samtools: what pysam.bedcov returns for this file is the model's
                # bedcov_text of the bins and the model's pileup base counts, character by character
                try:
                    raw = pysam.bedcov(*([bedp, bam] + (['-Q', str(cut)] if cut > 0 else [])), split_lines=False)
                except pysam.SamtoolsError as e:     # noqa
                    raw = Err('SamtoolsError')
                text_requests.append([cut, mreads, mbins])
                text_pending.append((raw, make_case(contigs, [], bedl, 'pileup', cut, 1, None)))
            for alg in algs:
                serial = run_code(bedp, bam, alg, cut, 1, None)
                # which expectation is the property's: aligned bases. With D/N the pileup
                # algorithm is compared with the model only.
                prop_exp = exp_al
                oracle_applies = not (indel is True and alg == 'pileup')
                for (procs, chunk) in [(1, None)] + configs(rng, alg):
                    rows = serial if (procs, chunk) == (1, None) else run_code(bedp, bam, alg, cut, procs, chunk)
                    case_id = ['cov', stream, wd, bd, alg, cut, procs, chunk]
                    ck.count(case_id, nontrivial=nonzero and (filt_matters or procs > 1),
                             cls='%s:%s:p%d:k%s:cols%d' % (stream, alg, procs, chunk, min(ncols, 6)))
                    v = oracle_check(rows, prop_exp, alg) if oracle_applies else None
                    if v is None and rows != serial:
                        v = ('%s table with processes=%d chunk_size=%s differs from the serial table' % (alg, procs, chunk),
                             'C09_chunks', None)
                    if v is not None:
                        what, clause, detail = v
                        case = make_case(contigs, reads, bedl, alg, cut, procs, chunk)
                        case = shrink(scratch, case, detail)
                        seen = ck.extra.setdefault('_reported', set())
                        dg = digest([case, clause])
                        if dg not in seen:           # one replay per distinct shrunk case
                            seen.add(dg)
                            ck.violation(what, case, code=rows if isinstance(rows, Err) else rows[:200], clause=clause,
                                         expected=[[list(k), b] for k, b in prop_exp][:200])
                        continue
                    if (procs, chunk) == (1, None):
                        k = rng.choice([0, 0, 1, 2, 7, 5000])
                        requests.append([0 if alg == 'count' else 1, cut, k, mreads, mbins, tbl])
                        pending.append((len(requests) - 1, rows, make_case(contigs, [], bedl, alg, cut, 1, None), alg))
    # model
    if requests:
        runner = vlib.model_batch_parallel if len(requests) >= 64 else vlib.model_batch
        mout = runner('c09_coverage', requests)
        for (ri, rows, case, alg) in pending:
            m = mout[ri]
            why = model_rows_check(rows, m, alg)
            if why is not None:      # the oracle held on this table (else we did not get here): the model is off
                case['reads'] = reads if len(reads) <= 400 else reads[:400] + [['...%d more' % (len(reads) - 400)]]
                ck.tie_break('model coverage differs from do_coverage (%s): %s' % (alg, why), case,
                             code=rows if isinstance(rows, Err) else rows[:60],
                             model=m if isinstance(m, Err) else [list(x) for x in m][:60])
    if text_requests:
        tout = vlib.model_batch('c09_bedcov_text', text_requests)
        for (raw, case), m in zip(text_pending, tout):
            ck.count(['bedcov-text', wd, digest(case['bed']), case['cut']], nontrivial=len(reads) > 0, cls='samtools-text')
            if raw != m:
                case['reads'] = reads[:400]
                ck.tie_break('text returned by samtools bedcov differs from the model\'s bedcov_text', case,
                             code=raw if isinstance(raw, Err) else raw[:2000], model=m if isinstance(m, Err) else m[:2000])
    for f in os.listdir(scratch):
        # the world's own files, and the empty chunk file to_chunks leaves behind whenever
        # chunk_size divides the number of lines
        if f.startswith('w%d' % wi) or (f.startswith('tmp.') and f.endswith('.bed')):
            try:
                os.remove(os.path.join(scratch, f))
            except OSError:
                pass
    return contigs, reads, beds


# ----------------------------------------------------------------------------
# small direct correspondences: cigar blocks, chunking, spec sums


def check_blocks(ck):
    import pysam
    n = 300 if ck.tier == 'quick' else 5000
    hdr = pysam.AlignmentHeader.from_dict({'HD': {'VN': '1.6'}, 'SQ': [{'SN': 'c', 'LN': 100000}]})
    cases, code = [], []
    for i in range(n):
        cig = gen_cigar(ck.rng, indel=(i % 2 == 0))
        if i % 17 == 0:
            cig = [(ck.rng.randrange(9), ck.rng.randint(1, 20)) for _ in range(ck.rng.randint(1, 6))]
            if query_len(cig) == 0:
                cig.append((M, 3))
        pos = ck.rng.choice([0, 1, ck.rng.randint(0, 5000)])
        a = pysam.AlignedSegment(hdr)
        a.query_name = 'q'
        a.reference_id = 0
        a.reference_start = pos
        a.cigarstring = cigar_str(cig)
        a.query_sequence = 'A' * query_len(cig)
        positions = list(a.positions)
        cases.append([pos, [[op, ln] for op, ln in cig]])
        code.append(positions)
    out = vlib.model_batch('c09_blocks', cases)
    for (pos, cig), positions, m in zip(cases, code, out):
        blocks, span = m[:-1], m[-1]
        mp = [x for lo, hi in blocks for x in range(lo, hi)]
        exp = []
        p = pos
        for op, ln in cig:
            if op in (M, EQ, X):
                exp.extend(range(p, p + ln))
                p += ln
            elif op in (D, N):
                p += ln
        ck.count(['blocks', pos, cig], nontrivial=any(op in (I, D, N, S, H) for op, _ in cig), cls='cigar')
        if positions != exp:
            ck.violation('read.positions are not the M/=/X reference positions', {'pos': pos, 'cigar': cigar_str(cig)},
                         code=positions, expected=exp, clause='C09_depth')
        elif mp != positions or span != [pos, p]:
            ck.tie_break('model blocks_of_cigar differs from pysam positions', {'pos': pos, 'cigar': cigar_str(cig)},
                         code=positions, model=m)


def check_chunks(ck, scratch):
    from cnvlib import parallel
    cases, code = [], []
    for n in range(0, 24 if ck.tier == 'quick' else 60):
        for k in (1, 2, 3, 5, 7, 8, 23, 5000):
            p = os.path.join(scratch, 'lines.bed')
            with open(p, 'w') as fh:
                for i in range(n):
                    fh.write('%d\n' % i)
            got = []
            for name in parallel.to_chunks(p, chunk_size=k):
                got.append([int(x) for x in open(name).read().split()])
                parallel.rm(name)
            cases.append([k, list(range(n))])
            code.append(got)
    out = vlib.model_batch('c09_chunks', cases)
    for (k, l), got, m in zip(cases, code, out):
        ck.count(['chunks', k, len(l)], nontrivial=len(l) > k, cls='to_chunks')
        exp = [l[i:i + k] for i in range(0, len(l), k)]
        if got != exp:
            ck.violation('to_chunks does not split into consecutive pieces of chunk_size lines', {'k': k, 'n': len(l)},
                         code=got, expected=exp, clause='C09_chunks')
        elif m != got:
            ck.tie_break('model chunks differs from parallel.to_chunks', {'k': k, 'n': len(l)}, code=got, model=m)


def check_spec(ck):
    """Coq per-position specification sums (Spec/Coverage.v) and the model's interval
    arithmetic against the python brute force, on small worlds (harness-internal)."""
    rng = ck.rng
    n = 25 if ck.tier == 'quick' else 300
    reqs_a, reqs_s, reqs_c, reqs_p, exps = [], [], [], [], []
    for i in range(n):
        contigs = [('chr1', rng.choice([120, 300])), ('chr2', 200)][:rng.randint(1, 2)]
        bed = gen_bed(rng, contigs, 10)
        bed = [[c, lo, min(hi, lo + 120), cols] for c, lo, hi, cols in bed]
        reads = gen_reads(rng, contigs, [bed], rng.randint(0, 25), indel=(i % 2 == 0))
        cut = rng.choice(CUTS)
        al, sp = brute_arrays(contigs, reads, cut)
        mr = model_reads(contigs, reads)
        mb = [[c, lo, hi, list(cols)] for c, lo, hi, cols in bed]
        reqs_a.append([0, cut, mr, mb])
        reqs_s.append([1, cut, mr, mb])
        exps.append(([b for _, b in expected_rows(contigs, bed, al)], [b for _, b in expected_rows(contigs, bed, sp)]))
    oa = vlib.model_batch('c09_spec_bases', reqs_a)
    os_ = vlib.model_batch('c09_spec_bases', reqs_s)
    oc = vlib.model_batch('c09_bases', reqs_a)
    op = vlib.model_batch('c09_bases', reqs_s)
    for ra, a, s, c, p, (ea, es) in zip(reqs_a, oa, os_, oc, op, exps):
        ck.count(['spec', digest(ra)], nontrivial=any(ea), cls='spec-sums')
        if a != ea or s != es:
            raise RuntimeError('Coq specification sums disagree with the python brute force: %r %r vs %r %r' % (a, s, ea, es))
        if c != ea or p != es:
            # the model follows the generated constants of /repo: if it leaves the per-base
            # brute force, the source changed under it (the main streams look for a failing input)
            ck.tie_break('model base counts differ from the per-base brute force (a generated constant of '
                         'cnvlib/coverage.py changed the model?)', {'request': ra},
                         model=[c, p], expected=[ea, es])
    # the model's pileup table computed THROUGH the text layer (render samtools' text per chunk, detect the columns,
    # parse, assemble, concatenate) is the model's pileup table (C09_pileup_text_chunks), on the extracted code
    ks = [rng.choice([0, 1, 2, 3, 7]) for _ in reqs_s]
    direct = vlib.model_batch('c09_coverage', [[1, r[1], 0, r[2], r[3], []] for r in reqs_s])
    via = vlib.model_batch('c09_via_text', [[r[1], k, r[2], r[3], []] for r, k in zip(reqs_s, ks)])
    for r, k, d, v in zip(reqs_s, ks, direct, via):
        ck.count(['via-text', digest(r), k], nontrivial=True, cls='model-via-text')
        if d != v:
            # both sides follow the generated constants of /repo (quoting mode, column names ...): a difference means
            # the source changed under the model -- C09_pileup_text no longer describes it; the streams look for an input
            ck.tie_break('model: the pileup table through the text layer differs from the pileup table (chunk size %d); a '
                         'generated constant of bedcov() / detect_bedcov_columns changed the model?' % k, {'request': r},
                         model=v, expected=d)


def check_cli(ck, scratch):
    """the command line path (cnvkit.py coverage ... -> .cnn) on a few small worlds"""
    rng = ck.rng
    for i in range(2 if ck.tier == 'quick' else 16):
        contigs = [(n, rng.choice([300, 1000, 2000])) for n in rng.sample(['chr1', 'chr2', 'chrX'], rng.randint(1, 3))]
        bed = gen_bed(rng, contigs, 25)
        reads = gen_reads(rng, contigs, [bed], rng.choice([0, 30, 200]), indel=False)
        case = make_case(contigs, reads, bed, rng.choice(['pileup', 'count']), rng.choice([None] + CUTS),
                         rng.choice([None, 1, 2, 3]), None)
        case['cli'] = True
        res = eval_case(scratch, case, tag='cli%d' % i)
        ck.count(['cli', digest(case)], nontrivial=any(b for _, b in res['expected']),
                 cls='cli:%s:p%s' % (case['alg'], case['procs']))
        if res['violation']:
            what, clause, _ = res['violation']
            ck.violation('command line: ' + what, case, code=res['rows'], clause=clause,
                         expected=[[list(k), b] for k, b in res['expected']])


# ----------------------------------------------------------------------------
# the text layer of the pileup path, called directly (no samtools): detect_bedcov_columns, bedcov()'s
# read_csv and interval_coverages_pileup's table assembly on generated text


class FakeBedcov:
    """stands in for pysam.bedcov inside this process only: returns the prepared text and
    records the command it was given"""

    def __init__(self, text):
        self.text, self.calls = text, []

    def __call__(self, *args, **kw):
        self.calls.append(list(args))
        return self.text


def with_fake_bedcov(text, fn):
    from cnvlib import coverage
    orig = coverage.pysam.bedcov
    fake = FakeBedcov(text)
    coverage.pysam.bedcov = fake
    try:
        try:
            return fn(coverage), fake.calls
        except Exception as e:   # noqa
            return Err(type(e).__name__), fake.calls
    finally:
        coverage.pysam.bedcov = orig


def gen_text_bins(rng, ncols, n):
    """n BED lines of ncols columns, coordinates incl. zero-width, reversed and very large ones"""
    chroms = rng.sample(['chr1', 'chr2', 'chrX', '1', 'ctgA', 'chrUn_gl000220', 'chr10', 'NA', '007', 'nan', 'chr1_random'], 3)
    names = gen_names(rng, n, ncols)
    out = []
    for i in range(n):
        lo = rng.choice([0, 1, 10, 999, rng.randint(0, 10 ** 6), rng.randint(0, 3 * 10 ** 9)])
        w = rng.choice([0, 0, 1, 2, 3, 7, 100, 120, rng.randint(1, 10 ** 4), -rng.randint(1, 50)])
        hi = max(0, lo + w)
        cols = []
        if ncols >= 4:
            cols.append(names[i])
        for j in range(5, ncols + 1):
            cols.append(rng.choice(['0', '1000', '+', '-', '.', 'x%d' % j, '', 'NA', '1e5', 'chr1']))
        out.append([rng.choice(chroms), lo, hi, cols])
    return out


def bedcov_text_of(bins, counts):
    return ''.join('\t'.join([c, str(lo), str(hi)] + list(cols) + [str(n)]) + '\n' for (c, lo, hi, cols), n in zip(bins, counts))


def table_rows(df):
    """bedcov()'s DataFrame -> [chrom, start, end, gene or None, basecount]"""
    if isinstance(df, Err):
        return df
    try:
        out = []
        has_gene = 'gene' in df
        for i in range(len(df)):
            g = df['gene'].iloc[i] if has_gene else None
            out.append([df['chromosome'].iloc[i], int(df['start'].iloc[i]), int(df['end'].iloc[i]), g, int(df['basecount'].iloc[i])])
        return out
    except (ValueError, TypeError):
        return Err('untyped')         # a column that is not integer-valued (ragged or non-numeric records)


def final_rows(df):
    if isinstance(df, Err):
        return df
    return [(c, int(a), int(b), g, float(d), float(l)) for c, a, b, g, d, l in
            zip(df['chromosome'].tolist(), df['start'].tolist(), df['end'].tolist(), df['gene'].tolist(),
                df['depth'].tolist(), df['log2'].tolist())]


def check_text(ck):
    from cnvlib import coverage
    rng = ck.rng
    n = 120 if ck.tier == 'quick' else 1500
    texts, metas = [], []
    for i in range(n):
        ncols = rng.choice([3, 4, 4, 5, 6, 6, 8, 12])
        bins = gen_text_bins(rng, ncols, rng.choice([1, 1, 2, 3, 5, 12]))
        counts = []
        for (c, lo, hi, cols) in bins:
            span = max(1, hi - lo)
            counts.append(rng.choice([0, 0, 1, span, 2 * span, span * 3 // 2, rng.randint(0, 50 * span), rng.randint(0, 10 ** 12)]))
        texts.append(bedcov_text_of(bins, counts))
        metas.append((ncols, bins, counts))
    depths = set()
    for ncols, bins, counts in metas:
        for (c, lo, hi, cols), b in zip(bins, counts):
            if hi > lo:
                depths.add(Fraction(b, hi - lo))
    tbl = log2_table(depths)
    m_cols = vlib.model_batch('c09_detect_cols', texts)
    m_parsed = vlib.model_batch('c09_parse_bedcov', texts)
    m_final = vlib.model_batch('c09_pileup_text', [[t, tbl] for t in texts])
    for text, (ncols, bins, counts), mc, mp, mf in zip(texts, metas, m_cols, m_parsed, m_final):
        case = {'text': text, 'ncols': ncols}
        ck.count(['text', digest(text)], nontrivial=any(counts), cls='text:cols%d' % min(ncols, 7))
        # 1. the column names
        try:
            cols = coverage.detect_bedcov_columns(text)
        except Exception as e:   # noqa
            cols = Err(type(e).__name__)
        ok = (not isinstance(cols, Err) and len(cols) == ncols + 1 and cols[:3] == ['chromosome', 'start', 'end']
              and cols[-1] == 'basecount' and len(set(cols)) == len(cols)
              and (('gene' in cols and cols.index('gene') == 3) if ncols >= 4 else 'gene' not in cols))
        if not ok:
            ck.violation('detect_bedcov_columns does not name the columns of a %d-column BED (chromosome, start, end, [gene,] ..., '
                         'basecount)' % ncols, case, code=cols, clause='C09_bedcov_parse')
            continue
        if cols != mc:
            ck.tie_break('model detect_bedcov_columns differs from the code', case, code=cols, model=mc)
        # 2. the table bedcov() reads from the text
        q = rng.choice([0, 0, 1, 10, 60])
        df, calls = with_fake_bedcov(text, lambda cv: cv.bedcov('regions.bed', 'sample.bam', q))
        got = table_rows(df)
        exp = [[c, lo, hi, (cl[0] if cl else None), b] for (c, lo, hi, cl), b in zip(bins, counts)]
        if got != exp:
            ck.violation('the table read from bedcov text does not carry each line\'s chromosome, start, end, name and base count',
                         case, code=got, expected=exp, clause='C09_bedcov_parse')
            continue
        if mp != exp:
            ck.tie_break('model parse_bedcov differs from bedcov()', case, code=got, model=mp)
        # the command given to samtools: -Q <min_mapq> exactly when min_mapq > 0
        want = ['regions.bed', 'sample.bam'] + (['-Q', str(q)] if q > 0 else [])
        if calls != [want]:
            ck.violation('bedcov() runs samtools with %r for min_mapq=%d, expected %r' % (calls, q, want), case, code=calls,
                         expected=want, clause='C09_min_mapq')
        # 3. the assembled pileup table
        df, _ = with_fake_bedcov(text, lambda cv: cv.interval_coverages_pileup('regions.bed', 'sample.bam', q, 1))
        rows = final_rows(df)
        keyed = [((c, lo, hi, (cl[0] if cl else '-')), b) for (c, lo, hi, cl), b in zip(bins, counts)]
        v = oracle_check(rows, keyed, 'pileup')
        if v is not None:
            ck.violation('table assembly from bedcov text: ' + v[0], case, code=rows, clause=v[1],
                         expected=[[list(k), b] for k, b in keyed])
            continue
        why = model_rows_check(rows, mf, 'pileup')
        if why is not None:
            ck.tie_break('model pileup_table_of_text differs from interval_coverages_pileup: %s' % why, case, code=rows,
                         model=mf if isinstance(mf, Err) else [list(x) for x in mf])
    # the -Q threshold of the model
    qs = [-7, -1, 0, 1, 2, 10, 30, 60, 255]
    for q, m in zip(qs, vlib.model_batch('c09_pileup_cut', qs)):
        _, calls = with_fake_bedcov('c\t0\t1\t0\n', lambda cv: cv.bedcov('r.bed', 's.bam', q))
        eff = int(calls[0][calls[0].index('-Q') + 1]) if calls and '-Q' in calls[0] else 0
        ck.count(['mapq-option', q], nontrivial=q > 0, cls='mapq-option')
        if eff != max(0, q):
            ck.violation('bedcov() with min_mapq=%d makes samtools use the threshold %d' % (q, eff), {'min_mapq': q}, code=calls,
                         clause='C09_min_mapq')
        elif m != eff:
            ck.tie_break('model pileup_cut differs from the -Q option bedcov() passes', {'min_mapq': q}, code=eff, model=m)
    # malformed / edge text: error classes, and the simple quoted fields the model covers
    edge = ['', 'abc', 'a\tb\n', 'a\tb\tc\n', 'c\t1\t2\t3', 'c\t1\t2\t"x"\t5\n', 'c\t1\t2\t""\t5\nc\t2\t3\ty\t0\n',
            'c\t1\t2\t"a b"\tq\t+\t7\n', 'c\t1\t2\t3\n\nc\t2\t3\t4\n', 'c\t1\t2\ta"b"\t5\n']
    m_edge = vlib.model_batch('c09_parse_bedcov', edge)
    m_ecols = vlib.model_batch('c09_detect_cols', edge)
    for text, mp, mc in zip(edge, m_edge, m_ecols):
        ck.count(['text-edge', text], nontrivial=False, cls='text:edge')
        try:
            cols = coverage.detect_bedcov_columns(text)
        except Exception as e:   # noqa
            cols = Err(type(e).__name__)
        if cols != mc:
            ck.tie_break('model detect_bedcov_columns differs from the code on edge text', {'text': text}, code=cols, model=mc)
        df, _ = with_fake_bedcov(text, lambda cv: cv.bedcov('regions.bed', 'sample.bam', 0))
        got = table_rows(df)
        if isinstance(got, Err) != isinstance(mp, Err) or (not isinstance(got, Err) and got != mp):
            ck.tie_break('model parse_bedcov differs from bedcov() on edge text', {'text': text}, code=got, model=mp)


# ----------------------------------------------------------------------------
# parallel.to_chunks on files with comment / track / blank lines


def check_to_chunks(ck, scratch):
    from cnvlib import parallel
    rng = ck.rng
    cases, code = [], []
    for i in range(60 if ck.tier == 'quick' else 600):
        n = rng.choice([0, 1, 2, 3, 5, 8, 13, 24])
        lines = []
        if rng.random() < 0.3:
            lines.append('track name=t%d\n' % i)
        for j in range(n):
            r = rng.random()
            if r < 0.2:
                lines.append(rng.choice(['#\n', '# comment\n', '#chr1\t1\t2\n', '##x\n']))
            elif r < 0.27:
                lines.append('\n')
            elif r < 0.3:
                lines.append(' #not a comment\t1\t2\n')
            else:
                lines.append('chr%d\t%d\t%d\tg%d\n' % (rng.randint(1, 3), j, j + rng.randint(0, 9), j))
        if lines and lines[-1] != '\n' and rng.random() < 0.2:
            lines[-1] = lines[-1][:-1]                     # no newline at the end of the file
        k = rng.choice([1, 2, 3, 5, 7, 5000])
        p = os.path.join(scratch, 'lines%d.bed' % i)
        with open(p, 'w') as fh:
            fh.write(''.join(lines))
        got = []
        for name in parallel.to_chunks(p, chunk_size=k):
            got.append(open(name).read().splitlines(True))
            parallel.rm(name)
        os.remove(p)
        cases.append([k, lines])
        code.append(got)
    out = vlib.model_batch('c09_to_chunks_lines', cases)
    for (k, lines), got, m in zip(cases, code, out):
        kept = [l for l in lines if not l.startswith('#')]
        ck.count(['to_chunks', k, digest(lines)], nontrivial=len(kept) > k and len(kept) != len(lines), cls='to_chunks-lines')
        flat = [l for piece in got for l in piece]
        ok = flat == kept and all(1 <= len(piece) <= k for piece in got) and all(len(piece) == k for piece in got[:-1])
        if not ok:
            ck.violation('to_chunks pieces do not concatenate to the non-comment lines of the file in pieces of chunk_size lines',
                         {'k': k, 'lines': lines}, code=got, expected=[kept[j:j + k] for j in range(0, len(kept), k)],
                         clause='C09_to_chunks')
        elif m != got:
            ck.tie_break('model to_chunks_lines differs from parallel.to_chunks', {'k': k, 'lines': lines}, code=got, model=m)


# ----------------------------------------------------------------------------
# row order of the --count table (no BAM needed): tabio.read_auto + by_chromosome + coords


def py_chrom_key(label):
    """independent re-statement of the chromosome sort key: numeric part first, then X/Y, then short and long names"""
    chrom = label[3:] if label.lower().startswith('chr') else label
    if chrom in ('X', 'Y'):
        return (1000, chrom)
    i = 0
    while i < len(chrom) and chrom[i].isdigit():
        i += 1
    num = int(chrom[:i]) if i else 0
    rest = chrom[i:]
    if not rest:
        return (num, '')
    return ((2000 if len(rest) == 1 else 3000) + num, rest)


def check_order(ck, scratch):
    from skgenome import tabio
    rng = ck.rng
    pool = ['chr1', 'chr2', 'chr10', 'chrX', 'chrY', '1', '2', 'X', 'chrM', 'MT', 'chr1_random', 'chrUn_gl000220', 'ctgA',
            'chr02', 'CHR3', 'Chr1', '10', 'chr22', 'scaffold_12', '2a', 'chr2b']
    cases, code, raws = [], [], []
    for i in range(50 if ck.tier == 'quick' else 500):
        chroms = rng.sample(pool, rng.randint(1, 6))
        ncols = rng.choice([3, 4, 6])
        n = rng.randint(1, 40)
        bins = []
        for j in range(n):
            lo = rng.choice([0, 5, 10, 10, 100, rng.randint(0, 300)])
            hi = lo + rng.choice([0, 1, 10, 10, 50, rng.randint(0, 100)])
            cols = ['b%d' % j] if ncols >= 4 else []
            if ncols >= 6:
                cols += ['0', rng.choice('+-.')]
            bins.append([rng.choice(chroms), lo, hi, cols])
        if rng.random() < 0.3:
            bins.sort(key=lambda b: (b[0], b[1], b[2]))
        p = os.path.join(scratch, 'order%d.bed' % i)
        write_bed(p, bins)
        try:
            regions = tabio.read_auto(p)
            got = []
            for _chrom, sub in regions.by_chromosome():
                for c, s, e, g in sub.coords(['gene']):
                    got.append([c, int(s), int(e), g])
        except Exception as e:   # noqa
            got = Err(type(e).__name__)
        os.remove(p)
        cases.append([[c, lo, hi, list(cols)] for c, lo, hi, cols in bins])
        code.append(got)
        raws.append(bins)
    out = vlib.model_batch('c09_count_order', cases)
    for bins, got, m in zip(raws, code, out):
        ck.count(['count-order', digest(bins)], nontrivial=len({b[0] for b in bins}) > 1, cls='count-order')
        case = {'bed': bins}
        if isinstance(got, Err):
            ck.tie_break('tabio.read_auto / by_chromosome raised on a plain BED', case, code=got, model=m)
            continue
        keys = [[c, lo, hi, (cols[0] if cols else '-')] for c, lo, hi, cols in bins]
        # the statement of C09_count_order on the code's rows: same multiset; one block per chromosome name;
        # blocks by non-decreasing chromosome key; inside a block (start, end) non-decreasing, ties in file order
        ok = sorted(got) == sorted(keys)
        blocks = []
        for r in got:
            if not blocks or blocks[-1][0] != r[0]:
                blocks.append([r[0], []])
            blocks[-1][1].append(r)
        ok = ok and len({b[0] for b in blocks}) == len(blocks)
        ok = ok and all(py_chrom_key(a[0]) <= py_chrom_key(b[0]) for a, b in zip(blocks, blocks[1:]))
        for cname, rws in blocks:
            want = sorted([k for k in keys if k[0] == cname], key=lambda k: (k[1], k[2]))     # stable
            ok = ok and rws == want
        if not ok:
            ck.tie_break('the regions of the --count path are not in the order C09_count_order states (sorted by chromosome key, '
                         'start, end; grouped by chromosome)', case, code=got, model=m)
        elif m != got:
            ck.tie_break('model count_order differs from tabio.read_auto + by_chromosome', case, code=got, model=m)


# ----------------------------------------------------------------------------
# corpus


def check_index_refresh(ck, scratch):
    """A BAM that was replaced after it had been indexed (same path, new reads, modification time later than the
    index by less than a second): coverage must report the depth of the reads NOW in the file, with both algorithms
    (the index is rebuilt when it is older than the BAM, whatever the time resolution)."""
    bam = os.path.join(scratch, 'refresh.bam')
    bed = os.path.join(scratch, 'refresh.bed')
    # the added reads lie in other 16 kb index bins and on another contig than the old ones
    contigs = [('chr1', 200000), ('chr2', 100000)]
    old = [(0, 100 + 40 * i, '40M', 0, 60, 'a%d' % i) for i in range(10)]
    new = old + [(0, 120000 + 40 * i, '40M', 0, 60, 'b%d' % i) for i in range(20)] + \
        [(1, 50000 + 40 * i, '40M', 0, 60, 'c%d' % i) for i in range(5)]
    with open(bed, 'w') as fh:
        fh.write('chr1\t0\t1000\tfirst\nchr1\t120000\t121000\tsecond\nchr2\t50000\t51000\tthird\n')
    write_bam(bam, contigs, old)
    first = run_code(bed, bam, 'count', 0, 1, None)
    write_bam_noindex = globals().get('write_bam')
    import pysam
    hdr = {'HD': {'VN': '1.6', 'SO': 'coordinate'}, 'SQ': [{'SN': n, 'LN': l} for n, l in contigs]}
    with pysam.AlignmentFile(bam, 'wb', header=hdr) as f:
        for tid, pos, cig, flag, mapq, name in new:
            a = pysam.AlignedSegment(f.header)
            a.query_name, a.flag, a.reference_id, a.reference_start, a.mapping_quality = name, flag, tid, pos, mapq
            a.cigarstring = cig
            a.query_sequence = 'A' * 40
            f.write(a)
    bai = bam + '.bai'
    t = float(int(os.path.getmtime(bai))) + 0.1
    os.utime(bai, (t, t))
    os.utime(bam, (t + 0.5, t + 0.5))            # newer than the index, within the same second
    case = {'stage': 'BAM replaced after indexing', 'old_reads': len(old), 'new_reads': len(new),
            'bam_mtime_minus_index_mtime_s': 0.5}
    for alg in ('count', 'pileup'):
        got = run_code(bed, bam, alg, 0, 1, None)
        ck.count(['index-refresh', alg], nontrivial=True, cls='index:refresh:' + alg)
        exp = {('chr1', 0, 1000): 10 * 40 / 1000.0, ('chr1', 120000, 121000): 20 * 40 / 1000.0, ('chr2', 50000, 51000): 5 * 40 / 1000.0}
        if isinstance(got, Err):
            ck.violation('coverage (%s) fails on a BAM replaced after indexing: %s' % (alg, got.msg), case, code=got, clause='C09_depth')
            continue
        bad = [(r[:3], r[4]) for r in got if abs(r[4] - exp[(r[0], r[1], r[2])]) > 1e-9]
        if bad:
            ck.violation('coverage (%s) of a BAM replaced after indexing does not report the depth of the reads now in the file '
                         '(stale index)' % alg, case, code=bad, expected=[[list(k), v] for k, v in exp.items()], clause='C09_depth')
            # make later checks independent of this file
            break
    for fn in (bam, bai, bed):
        try:
            os.remove(fn)
        except OSError:
            pass


def run_corpus(ck, scratch):
    path = os.path.join(vlib.VERIF, 'corpus', 'c09.json')
    if not os.path.exists(path):
        return
    for i, entry in enumerate(json.load(open(path))):
        case = entry['case']
        res = eval_case(scratch, case, tag='corpus%d' % i)
        ck.count(['corpus', entry.get('id', i)], nontrivial=True, cls='corpus')
        if res['violation']:
            what, clause, _ = res['violation']
            ck.violation('corpus case %s: %s' % (entry.get('id', i), what), case, code=res['rows'], clause=clause,
                         expected=[[list(k), b] for k, b in res['expected']])


# ----------------------------------------------------------------------------


def quick_configs(rng, alg):
    pool = [(2, 1), (2, 2), (3, 7), (3, 2), (2, None), (3, 1), (2, 7), (16, 2)]
    return rng.sample(pool, 2) if alg == 'pileup' else [(rng.choice([2, 3, 3, 16]), None)]


def thorough_configs(rng, alg):
    pool = [(p, k) for p in (2, 3) for k in (1, 2, 7, None)] + [(16, 1), (16, 7), (16, None)]
    if alg == 'pileup':
        return rng.sample(pool, 3)
    return [(p, None) for p in rng.sample([2, 3, 3, 16], 2)]


def run(ck, scratch):
    ck.rule = ('one case = one do_coverage call on a synthetic coordinate-sorted BAM (1-3 contigs, reads of query length 30..150 with '
               'soft/hard clips, M/=/X, all 16 combinations of the flags 0x4/0x100/0x200/0x400 plus reverse / supplementary 0x800 '
               '(12 %; must be counted) / paired, proper-pair, mate-unmapped, mate-reverse, first/second-in-pair decorations, MAPQ '
               'around the cut-offs, starts/ends placed on, one off and across bin edges and contig ends, reads hanging over the '
               'contig end, mates overlapping) x a BED (3/4/6/8 columns; abutting tilings, overlapping, nested, duplicate, zero-width, '
               'whole-contig, over- and beyond-the-end bins; sorted or shuffled; ordinary, NA-token, numeric-looking, empty and '
               'quote-bearing names) x algorithm x min_mapq in {0,1,10,30,60} x (processes, chunk size). Streams: noindel (oracle + '
               'model), ins (insertions only: oracle for both algorithms + model), indel (I/D/N: --count oracle + model, pileup model '
               'only), decor (track line, # comments and blank lines in the regions file; pileup only), big (BED with more lines than '
               'the real chunk size). Each table is checked against the per-base brute force, against the serial table and, '
               'positionally, against the Coq model; the text samtools returns is compared with the model\'s bedcov_text. Direct layer '
               'cases: bedcov text of 3/4/5/6/8/12-column BEDs with coordinates up to 3e9 and counts up to 1e12 through '
               'detect_bedcov_columns / bedcov() / interval_coverages_pileup (stand-in for pysam.bedcov), edge text (no newline, '
               '< 3 tabs, blank records, quoted fields), the -Q option for min_mapq in -7..255, to_chunks on files with comments / '
               'track / blank lines, the --count region order on 1-6 chromosome names of every naming style. non-trivial = some bin '
               'has non-zero depth and (a filtered read overlaps a bin or processes > 1); distinct by (BAM digest, BED digest, '
               'configuration).')
    ck.unproved_remainder = [
        'runtime scheduling is outside the model (PARTIAL): ProcessPoolExecutor.map order, temporary files, fork start-up are '
        'exercised with processes in {1,2,3,16} and chunk sizes {1,2,7,5000} only; C09_chunks / C09_pileup_order / C09_to_chunks '
        'prove "pieces of <= chunk_size lines that concatenate to the file, tables concatenated in order" for the model',
        'samtools bedcov (pileup engine, default flag filter, -Q, its BED line reader) and pysam.fetch/read.positions are oracles of '
        'the model: sampled, not proved; measured here: bedcov counts deleted (D) and skipped (N) reference positions inside a '
        'read as covered; its output text is compared character by character with the model\'s bedcov_text on every world',
        'pandas.read_csv\'s tokenizer is modelled at field level only (records end at LF/CR, fields split at tab, decimal integers, '
        'names verbatim under quoting=3 / dtype str / keep_default_na=False): C09_bedcov_parse is about that model',
        'log2 is an oracle (math.log / numpy.log2): compared by tolerance 1e-9 with log2 of the exact rational depth',
        'stated preconditions (inputs outside a well-formed k-column BED, not compared): every line has the same number of columns '
        '(a ragged BED makes the pileup path raise TypeError, --count accepts it); names without trailing white space (--count '
        'rstrip()s the name, the pileup keeps it); no #-comment or blank lines for --count (its reader raises "Bad line"; samtools '
        'and to_chunks skip them); no chunk made only of lines samtools skips (track / blank line alone: bedcov() raises ValueError '
        'on the empty output); fields without tab / LF / CR; distinct chromosome names with equal sort keys ("chr1" next to "1") '
        'leave the --count table grouped by name rather than globally sorted (C09_count_order states exactly what holds)',
    ]
    if not ck.build_status.get('driver_ok'):
        raise RuntimeError('model driver unavailable')
    tempfile.tempdir = scratch           # chunk files of to_chunks land in the scratch directory
    import pandas
    try:
        from pandas._libs.parsers import STR_NA_VALUES
        if set(STR_NA_VALUES) != set(NA_TOKENS):
            ck.notes.append('pandas NA tokens differ from the harness list')
    except ImportError:
        pass
    run_corpus(ck, scratch)
    check_blocks(ck)
    check_chunks(ck, scratch)
    check_spec(ck)
    check_text(ck)
    check_to_chunks(ck, scratch)
    check_order(ck, scratch)
    check_index_refresh(ck, scratch)
    check_cli(ck, scratch)
    quick = ck.tier == 'quick'
    wi = 0
    plan = []
    if quick:
        plan += [('noindel', 16), ('indel', 6), ('ins', 2), ('decor', 1), ('empty', 1), ('dense', 2), ('big', 1)]
    else:
        plan += [('noindel', 90), ('indel', 32), ('ins', 12), ('decor', 6), ('empty', 3), ('dense', 8), ('big', 3)]
    for stream, count in plan:
        for _ in range(count):
            rng = ck.rng
            if stream == 'decor':
                # track line, '#' comments and blank lines in the regions file: samtools and to_chunks skip them
                # (the --count reader does not accept them, so the pileup algorithm only)
                # chunk sizes >= 2: a chunk made ONLY of lines samtools skips (the track line alone, a blank line
                # alone) has empty bedcov output and bedcov() raises ValueError -- outside the property's BED files
                cfg = lambda r, alg: [(2, 2), (3, 2), (2, 7), (2, None)]
                run_world(ck, scratch, wi, 'decor', rng.choice([40, 200]), 30, 2, rng.sample(CUTS, 2), cfg,
                          algs=('pileup',), decor=True)
            elif stream == 'empty':
                run_world(ck, scratch, wi, 'noindel', 0, 12, 1, [0, 30], quick_configs if quick else thorough_configs)
            elif stream == 'dense':
                # many reads stacked on few positions: high depth, every filter combination
                nreads = 600 if quick else rng.choice([2000, 5000])
                run_world(ck, scratch, wi, 'noindel', nreads, 20, 1, rng.sample(CUTS, 2), quick_configs if quick else thorough_configs)
            elif stream == 'big':
                # more BED lines than the real chunk size: the unwrapped to_chunks splits
                cfg = lambda r, alg: [(2, None), (3, None)] if alg == 'pileup' else [(2, None)]
                nb = 5003 if quick else rng.choice([5001, 7500, 10000, 11000])
                run_world(ck, scratch, wi, 'noindel', 150 if quick else 400, nb, 1, [rng.choice(CUTS)], cfg, big=True)
            else:
                nreads = rng.choice([1, 5, 40, 120, 300]) if quick else rng.choice([1, 5, 40, 300, 1000, 2500])
                cuts = rng.sample(CUTS, 2 if quick else 3)
                run_world(ck, scratch, wi, stream, nreads, 30 if quick else 80, 2, cuts,
                          quick_configs if quick else thorough_configs)
            wi += 1
    ck.extra['streams'] = dict(plan)
    ck.extra.pop('_reported', None)


def replay(ck, body):
    scratch = vlib.scratch_dir('C09-replay')
    try:
        tempfile.tempdir = scratch
        res = eval_case(scratch, body['case'], tag='replay')
    finally:
        vlib.rm_scratch(scratch)
    print('case: alg=%s cut=%s procs=%s chunk=%s, %d reads, %d bins' % (
        body['case']['alg'], body['case']['cut'], body['case']['procs'], body['case']['chunk'],
        len(body['case']['reads']), len(body['case']['bed'])))
    print('code rows    :', res['rows'] if isinstance(res['rows'], Err) else res['rows'][:20])
    print('expected     :', [(k, b) for k, b in res['expected']][:20])
    if res['violation']:
        print('STILL FAILS  :', res['violation'][0], '(clause %s)' % res['violation'][1])
        return 1
    print('passes now')
    return 0
