"""do_call end to end (shared by the C01 and C02 harnesses).

One stream in which everything do_call composes varies together: method none / threshold / clonal x purity
None / < 1 / >= 1 x ploidy 1..6 x reference sex x sample sex x naming x build None / grch37 / grch38 x threshold
vector x baf: no column / a baf column / a VariantArray (then the baf is purity-rescaled) x row labels default / with
gaps / permuted.  The extracted model is Model/Baf.v `do_call_model` (entry c02_do_call): the purity rewrite of
Model/Call.v first, then the method (the threshold scan sees the REWRITTEN log2), then the allelic split.

Direct oracles on the code's own output, typed from the property texts (independent of the model):
  * C01: mixture rows (log2 = log2((p*n + (1-p)*x)/r)): clonal cn == n; on the purity-adjusted path with even ploidy the
    rewritten log2 is log2(max(n, 0.001*ploidy)/r) whatever the method; no purity: |cn - r*2^log2| <= 1/2, log2 untouched;
    every cn is an integer >= 0;
  * C02: threshold cn == the property's step function evaluated at the log2 the table holds when the method runs (the
    rewritten one on the purity-adjusted path, i.e. the log2 column of the result); NaN -> reference copies;
    with a baf: cn1 + cn2 == cn, both within [0, cn], both missing exactly where the baf is missing and cn > 0;
    baf column == (b - (1-p)/2)/p when it came from variants on the purity-adjusted path (that a baf from elsewhere is
    left untouched is not in the property texts: compared with the model only).

The model needs two library values on the purity-adjusted path that depend on its own intermediate result: v2 = log2 of
the rewritten ratio and e2 = 2^v2.  They are supplied the way every oracle value is: phase 1 runs the model to obtain the
exact rewritten ratio q, the harness evaluates np.log2(q) and 2**v2 with the library the code uses, phase 2 runs the model
with them.  A row whose v2 lies within 1e-9 of a threshold is float-ambiguous for the threshold decision."""
import math
from fractions import Fraction as F
import numpy as np
import pandas as pd
import vlib
from vlib import Err
import c01
import c02

NAN = float('nan')
HALF = F(1, 2)
AMBIG = 1e-7
THR_AMBIG = 1e-9


def isnan(x):
    return x is None or x != x


def exp2(v):
    return F(float(np.float64(2.0) ** np.float64(v)))


def purity_path(p):
    return bool(p) and p < 1.0


# --------------------------------------------------------------------------------------
# running the code


def make_arr(rows, baf_column, index_mode):
    from cnvlib.cnary import CopyNumArray
    d = {
        'chromosome': [r['chrom'] for r in rows],
        'start': np.array([r['start'] for r in rows], dtype=np.int64),
        'end': np.array([r['end'] for r in rows], dtype=np.int64),
        'gene': ['-'] * len(rows),
        'log2': np.array([NAN if isnan(r['log2']) else r['log2'] for r in rows], dtype=np.float64),
        'probes': np.array([1] * len(rows), dtype=np.int64),
        'weight': np.array([1.0] * len(rows), dtype=np.float64),
    }
    if baf_column:
        d['baf'] = np.array([NAN if isnan(r.get('baf')) else r['baf'] for r in rows], dtype=np.float64)
    df = pd.DataFrame(d)
    if index_mode != 'default':
        df.index = c01.index_labels(len(rows), index_mode)
    return CopyNumArray(df, {'sample_id': 'gen'})


def make_variants(rows):
    """one heterozygous SNP per distinct region that wants a baf (alt_freq = that baf)"""
    from cnvlib.vary import VariantArray
    seen, recs = set(), []
    for r in rows:
        key = (r['chrom'], r['start'], r['end'])
        if key in seen or isnan(r.get('baf')):
            seen.add(key)
            continue
        seen.add(key)
        pos = r['start'] + (r['end'] - r['start']) // 2
        recs.append((r['chrom'], pos, pos + 1, 'A', 'C', 0.5, 100, int(round(r['baf'] * 100)), float(r['baf'])))
    if not recs:
        return None
    df = pd.DataFrame(recs, columns=['chromosome', 'start', 'end', 'ref', 'alt', 'zygosity', 'depth', 'alt_count', 'alt_freq'])
    return VariantArray(df, {'sample_id': 'gen'})


def run_code(cfg, rows):
    """-> (dict with the columns of the result, effective baf inputs) or Err"""
    from cnvlib import call
    arr = make_arr(rows, cfg['baf_mode'] == 'column', cfg['index'])
    variants = None
    baf_in = [r.get('baf') if cfg['baf_mode'] == 'column' else None for r in rows]
    if cfg['baf_mode'] == 'variants':
        variants = make_variants(rows)
        if variants is None:
            return Err('harness: no variants'), baf_in
        # do_call's first step is exactly this call (its content is C18's subject): the values are the model's baf input
        baf_in = [None if x != x else float(x) for x in variants.baf_by_ranges(arr).values]
    kw = dict(method=cfg['method'], ploidy=cfg['ploidy'], is_haploid_x_reference=cfg['hapx'], is_sample_female=cfg['female'])
    if cfg['purity'] is not None:
        kw['purity'] = cfg['purity']
    if cfg['build'] is not None:
        kw['diploid_parx_genome'] = cfg['build']
    if cfg['thresholds'] is not None:
        kw['thresholds'] = tuple(cfg['thresholds'])
    try:
        out = call.do_call(arr, variants, **kw)
    except AssertionError:
        return Err('AssertionError'), baf_in
    if len(out) != len(rows):
        return Err('row count changed: %d -> %d' % (len(rows), len(out))), baf_in
    cols = list(out.data.columns)
    res = {'cols': cols, 'log2': [float(x) for x in out.data['log2'].values]}
    for c in ('chromosome', 'start', 'end'):
        if list(out.data[c].values) != list(arr.data[c].values):
            return Err('column %s changed' % c), baf_in
    if list(out.data.index) != list(arr.data.index):
        return Err('row labels changed'), baf_in
    if 'cn' in cols:
        if not np.issubdtype(out.data['cn'].dtype, np.integer):
            return Err('cn dtype %s is not an integer type' % out.data['cn'].dtype), baf_in
        res['cn'] = [int(x) for x in out.data['cn'].values]
    for c in ('cn1', 'cn2', 'baf'):
        if c in cols:
            res[c] = [None if x != x else float(x) for x in out.data[c].values]
    return res, baf_in


def model_rows(rows, baf_in, v2e2=None):
    out = []
    for i, r in enumerate(rows):
        v = r['log2']
        v2, e2 = (F(0), F(0)) if v2e2 is None else v2e2[i]
        out.append([r['chrom'], r['start'], r['end'], None if isnan(v) else F(v), F(0) if isnan(v) else exp2(v),
                    None if isnan(baf_in[i]) else F(baf_in[i]), v2, e2])
    return out


def model_input(cfg, rows, baf_in, v2e2=None):
    ts = None if cfg['thresholds'] is None else [F(t) for t in cfg['thresholds']]
    return [cfg['method'], cfg['ploidy'], None if cfg['purity'] is None else F(cfg['purity']), bool(cfg['hapx']),
            bool(cfg['female']), cfg['build'], ts, cfg['baf_mode'] == 'variants', cfg['baf_mode'] == 'column',
            model_rows(rows, baf_in, v2e2)]


def run_model(tables, bafs):
    """two phases on the purity-adjusted path (see module docstring)"""
    first = vlib.model_batch_parallel('c02_do_call', [model_input(cfg, rows, b) for (cfg, rows), b in zip(tables, bafs)])
    again, v2e2s = [], {}
    for ti, ((cfg, rows), b, m) in enumerate(zip(tables, bafs, first)):
        if isinstance(m, Err) or not purity_path(cfg['purity']):
            continue
        v2e2 = []
        for o in m:
            q = o[0]
            if q is None:
                v2e2.append((F(0), F(0)))
            else:
                v2 = float(np.log2(np.float64(float(q))))
                v2e2.append((F(v2), exp2(v2)))
        v2e2s[ti] = v2e2
        again.append(ti)
    second = vlib.model_batch_parallel('c02_do_call', [model_input(tables[ti][0], tables[ti][1], bafs[ti], v2e2s[ti]) for ti in again])
    for ti, m in zip(again, second):
        first[ti] = m
    return first, v2e2s


# --------------------------------------------------------------------------------------
# generators


def gen_table(rng, cfg, n_rows):
    k, p, hapx, female, build, style = cfg['ploidy'], cfg['purity'], cfg['hapx'], cfg['female'], cfg['build'], cfg['style']
    pp = purity_path(p)
    p_mix = p if (p is not None and 0 < p <= 1) else 1.0
    ts = c02.DEFAULTS if cfg['thresholds'] is None else cfg['thresholds']
    xn, yn = ('chrX', 'chrY') if style else ('X', 'Y')
    autos = ['chr1', 'chr17', 'chr2'] if style else ['1', '17', '2']
    rows = []
    pos = {}
    for i in range(n_rows):
        u = rng.random()
        if u < 0.45:
            chrom = rng.choice(autos)
            # distinct regions on the autosomes (one SNP each in variants mode)
            pos[chrom] = pos.get(chrom, 0) + 1
            lo, hi, tag = pos[chrom] * 10000, pos[chrom] * 10000 + 5000, 'auto'
        else:
            sex = 'X' if rng.random() < 0.55 else 'Y'
            chrom = xn if sex == 'X' else yn
            if rng.random() < 0.5:
                lo, hi, tag = 3000000 + 1000 * i, 3000000 + 1000 * i + 900, 'nonpar'
            else:
                lo, hi, tag = rng.choice(c01.coord_instances(build, sex))
        kl = c01.py_class(style, build, chrom, lo, hi, par=pp)
        r, x = c01.py_copies(k, hapx, female, kl)
        r_pure = c02.py_ref(chrom, k, hapx)
        n = None
        u = rng.random()
        if u < 0.35:
            n = rng.randint(0, 12)
            v = c01.mixture_log2(n, p_mix, r, x)
            if v is None:
                n, v, vt = None, float(rng.choice([-1.0, 0.0, 0.5])), 'nomix'
            else:
                vt = 'mix'
        elif u < 0.40 and cfg['method'] != 'clonal':
            v, vt = NAN, 'nan'
        elif u < 0.60 and not pp:
            v, vt = rng.choice([q for q in c02.log2_points(rng, ts, k, r_pure, 2) if not (isnan(q[0]) and cfg['method'] == 'clonal')])
        elif u < 0.75:
            cands = c01.boundary_log2s(rng, k, p if pp else None, r, x)
            v, vt = rng.choice(cands) if cands else (rng.uniform(-3, 3), 'rand')
        else:
            v, vt = rng.choice([(rng.uniform(-4, 3), 'rand'), (rng.uniform(-30, 30), 'rand-wide'),
                                (float(rng.choice([-30, 30, 0, -1, 1, -5])), 'rand-fixed')])
        row = dict(chrom=chrom, start=int(lo), end=int(hi), log2=float(v), n=n, kl=kl, r=r, x=x, r_pure=r_pure, tag='%s:%s' % (vt, tag))
        if cfg['baf_mode'] != 'none':
            b = c02.baf_for(rng, rng.randint(0, 8))
            if cfg['baf_mode'] == 'variants' and not isnan(b):
                b = round(b, 2)          # alt_count / depth with depth 100
            row['baf'] = b
        rows.append(row)
    # which row comes first decides the labels; all candidates are consistently named
    if rng.random() < 0.3:
        sexrows = [i for i, r in enumerate(rows) if r['chrom'] in (xn, yn)]
        if sexrows:
            rows.insert(0, rows.pop(rng.choice(sexrows)))
    return rows


def gen_cfg(rng, weights, idx):
    method = rng.choices(['threshold', 'clonal', 'none'], weights)[0]
    purity = rng.choice([None, None, 1.0, 1.5, 0.999, 0.9, 0.75, 0.5, 0.3, 0.1, round(rng.uniform(0.02, 0.998), rng.choice([2, 3, 17])),
                         round(rng.uniform(0.3, 0.998), 3)])
    pp = purity_path(purity)
    tsk = rng.random()
    if tsk < 0.3:
        ts = None
    elif tsk < 0.45:
        ts = c02.GERMLINE
    elif tsk < 0.55:
        k0 = rng.choice([1, 2, 3, 4, 6])
        ts = tuple(float(x) for x in np.log2((np.arange(k0 + 2) + 0.5) / k0))
    else:
        n = rng.randint(1, 8)
        xs = sorted({round(rng.uniform(-3, 2.5), rng.choice([1, 2])) for _ in range(n)})
        ts = tuple(xs)
    return dict(method=method, ploidy=rng.randint(1, 6), purity=purity, hapx=rng.random() < 0.5, female=rng.random() < 0.5,
                build=rng.choice([None, 'grch37', 'grch38']) if pp else rng.choice([None, None, 'grch38']),
                thresholds=ts, style=rng.random() < 0.5, baf_mode=rng.choice(['none', 'column', 'column', 'variants', 'variants']),
                index=('default', 'gaps', 'permuted')[idx % 3])


# --------------------------------------------------------------------------------------
# checking


def slim(row):
    d = {k: row[k] for k in ('chrom', 'start', 'end', 'log2', 'n') if k in row}
    if 'baf' in row:
        d['baf'] = row['baf']
    return d


def case_of(cfg, rows, i):
    keep = [rows[0]] if i == 0 else [rows[0], rows[i]]
    return {'stream': 'do_call', 'cfg': cfg, 'rows': [slim(r) for r in keep], 'row_index': 0 if i == 0 else 1}


def same_float(a, b):
    return (a != a and b != b) or a == b


def check_table(ck, cfg, rows, code, baf_in, model, v2e2, count=True, tag='docall'):
    """direct oracles on the code's output, then code vs model; returns the number of rows with a violation"""
    k, p, method = cfg['ploidy'], cfg['purity'], cfg['method']
    pp = purity_path(p)
    ts_eff = c02.DEFAULTS if cfg['thresholds'] is None else tuple(cfg['thresholds'])
    whole = {'stream': 'do_call', 'cfg': cfg, 'rows': [slim(r) for r in rows]}
    if isinstance(code, Err) or isinstance(model, Err):
        if count:
            ck.count(['docall-err', cfg, [slim(r) for r in rows]], nontrivial=False, cls='%s|error' % tag)
        if isinstance(code, Err) and code.msg.startswith('harness'):
            return 0
        if isinstance(code, Err) and code.msg != 'AssertionError':
            ck.violation('do_call output malformed: %s' % code.msg, whole, code=code, clause='C02_rows')
            return 1
        if (code.msg if isinstance(code, Err) else None) != (model.msg if isinstance(model, Err) else None):
            ck.tie_break('error behaviour differs between do_call and the model', whole, code=code, model=model)
        return 0
    if len(model) != len(rows):
        raise RuntimeError('model returned %d rows for %d' % (len(model), len(rows)))
    cols = code['cols']
    has_baf = cfg['baf_mode'] != 'none'
    # ---- which columns exist
    want = {'cn': method != 'none', 'baf': has_baf, 'cn1': has_baf and method != 'none', 'cn2': has_baf and method != 'none'}
    for c, w in want.items():
        if (c in cols) != w:
            ck.violation('column %s present=%s (method %s, baf %s)' % (c, c in cols, method, cfg['baf_mode']), whole,
                         code=cols, clause='C02_alleles' if c != 'cn' else 'C02_rows')
            return 1
    nv = 0
    for i, (row, m) in enumerate(zip(rows, model)):
        m_ratio, m_log2, m_abs, m_cn, m_baf, m_has, m_c1, m_c2 = m
        v_in, v_out = row['log2'], code['log2'][i]
        bad = False
        skip_cn = False

        def viol(what, clause, **kw):
            nonlocal bad
            ck.violation(what, case_of(cfg, rows, i), clause=clause, **kw)
            bad = True
        # ---- log2 column
        if not pp:
            if not same_float(v_in, v_out):
                viol('log2 changed although no purity adjustment applies', 'C01_rescaled_log2', code=v_out, expected=v_in)
        elif isnan(v_in):
            if not isnan(v_out):
                viol('a missing log2 became %r on the purity-adjusted path' % v_out, 'C02_nan', code=v_out)
        elif row.get('n') is not None and k % 2 == 0 and row['r'] > 0:
            exp_ratio = max(F(row['n']), F(1, 1000) * k) / row['r']
            if isnan(v_out) or not vlib.close(2.0 ** v_out, exp_ratio):
                viol('rewritten log2 is not that of a pure %d-copy sample against the reference (method %s)' % (row['n'], method),
                     'C01_rescaled_log2', code=v_out, expected=math.log2(exp_ratio))
        # ---- cn
        cn = code['cn'][i] if method != 'none' else None
        if cn is not None:
            if cn < 0:
                viol('negative copy number', 'C01_nonneg' if method == 'clonal' else 'C02_thr_nonneg', code=cn, expected='>= 0')
            if method == 'clonal':
                if row.get('n') is not None and cn != row['n']:
                    viol('clonal call does not invert the mixing model: cn=%d for a generated n=%d' % (cn, row['n']), 'C01_cn_exact',
                         code=cn, expected=row['n'])
                if not pp:
                    d = abs(F(cn) - row['r_pure'] * exp2(v_in))
                    if d > HALF:
                        if float(d - HALF) <= AMBIG * max(1.0, float(row['r_pure'] * exp2(v_in))):
                            ck.float_ambiguous += 1
                            skip_cn = True
                        else:
                            viol('cn is not the nearest integer to r*2^log2', 'C01_nearest', code=cn, expected=float(row['r_pure'] * exp2(v_in)))
            else:
                # the step function of the property at the log2 the table holds when the method runs
                exp_cn, amb = c02.py_step(v_out, ts_eff, k, row['r_pure'])
                if cn != exp_cn:
                    if amb and abs(cn - exp_cn) == 1:
                        ck.float_ambiguous += 1
                        skip_cn = True
                    else:
                        above = (not isnan(v_out)) and all(t < v_out for t in ts_eff)
                        viol('threshold cn is not the step function of the%s log2' % (' rewritten' if pp else ''),
                             'C02_nan' if isnan(v_out) else 'C02_above' if above else 'C02_step', code=cn, expected=exp_cn)
        # ---- baf column and alleles
        if has_baf:
            b_in, b_out = baf_in[i], code['baf'][i]
            if cfg['baf_mode'] == 'variants' and pp and not isnan(b_in):
                exp_b = (F(b_in) - HALF * (1 - F(p))) / F(p)
                if not vlib.close(b_out, exp_b):
                    viol('baf from variants is not purity-rescaled to (b - (1-p)/2)/p', 'C02_rescale_baf', code=b_out, expected=float(exp_b))
            # (a baf that did not come from variants is left alone by do_call; the property texts do not speak about that
            #  case, so it is compared with the model below -- a tie-break, not a violation)
            if cn is not None:
                c1, c2 = code['cn1'][i], code['cn2'][i]
                if isnan(b_out) and cn > 0:
                    if not (c1 is None and c2 is None):
                        viol('cn1/cn2 are not both missing where baf is missing and cn > 0', 'C02_missing', code=[cn, c1, c2])
                elif c1 is None or c2 is None:
                    viol('cn1/cn2 missing although baf is present or cn = 0', 'C02_missing', code=[cn, c1, c2])
                elif not (c1 == int(c1) and c2 == int(c2) and c1 + c2 == cn and 0 <= c1 <= cn and 0 <= c2 <= cn):
                    viol('cn1 + cn2 != cn or an allele count outside [0, cn]', 'C02_alleles', code=[cn, c1, c2])
        # ---- count
        if count:
            ck.count(['docall', cfg, slim(row)], nontrivial=not isnan(v_in) and not row['tag'].startswith('rand-wide'),
                     cls='%s|%s|%s|%s|%s' % (tag, method, 'purity' if pp else 'pure', cfg['baf_mode'], row['tag'].split(':')[0]))
        if bad:
            nv += 1
            continue
        # ---- code vs model -------------------------------------------------------------------
        if pp and not isnan(v_in):
            if m_ratio is None or not vlib.close(2.0 ** v_out, m_ratio):
                ck.tie_break('model rewritten ratio differs from do_call', case_of(cfg, rows, i), code=2.0 ** v_out, model=m_ratio)
                continue
            v2 = float(v2e2[i][0])
            if abs(v_out - v2) > 1e-9 * max(1.0, abs(v2)):
                ck.tie_break('rewritten log2 differs from np.log2 of the model ratio', case_of(cfg, rows, i), code=v_out, model=v2)
                continue
        elif m_ratio is not None:
            ck.tie_break('model rewrites log2 where do_call does not', case_of(cfg, rows, i), code=v_out, model=m_ratio)
            continue
        if cn is not None and not skip_cn:
            if method == 'threshold':
                amb = False
                if pp and not isnan(v_in):
                    v2 = float(v2e2[i][0])
                    amb = any(abs(v2 - t) <= THR_AMBIG * max(1.0, abs(t)) for t in ts_eff)
                    if not amb and all(t < v2 for t in ts_eff):
                        xx = row['r_pure'] * v2e2[i][1]
                        near = min(xx - math.floor(xx), math.ceil(xx) - xx)
                        amb = float(near) <= AMBIG * max(1.0, float(xx))
                else:
                    _, amb = c02.py_step(v_out, ts_eff, k, row['r_pure'])
                if cn != m_cn:
                    if amb:
                        ck.float_ambiguous += 1
                        ck.cls('ambiguous:docall-threshold')
                        continue
                    ck.tie_break('model cn differs from do_call(threshold)', case_of(cfg, rows, i), code=cn, model=m_cn)
                    continue
            else:
                if cn != m_cn:
                    frac = m_abs - math.floor(m_abs)
                    if abs(float(frac - HALF)) <= AMBIG * max(1.0, abs(float(m_abs))):
                        ck.float_ambiguous += 1
                        continue
                    ck.tie_break('model cn differs from do_call(clonal)', case_of(cfg, rows, i), code=cn, model=m_cn, model_abs=float(m_abs))
                    continue
        if has_baf:
            if not vlib.close(code['baf'][i], m_baf):
                ck.tie_break('model baf column differs from do_call', case_of(cfg, rows, i), code=code['baf'][i], model=m_baf)
                continue
            if cn is not None and not skip_cn:
                c1, c2 = code['cn1'][i], code['cn2'][i]
                c1 = None if c1 is None else int(c1)
                c2 = None if c2 is None else int(c2)
                if (c1, c2) != (m_c1, m_c2):
                    ub = F(1) if m_baf is None else abs(m_baf - HALF) + HALF
                    raw = m_abs * ub
                    frac = raw - math.floor(raw)
                    if abs(float(frac - HALF)) <= AMBIG * max(1.0, abs(float(raw))):
                        ck.float_ambiguous += 1
                        ck.cls('ambiguous:docall-cn1-at-half')
                    else:
                        ck.tie_break('model cn1/cn2 differ from do_call', case_of(cfg, rows, i), code=[c1, c2], model=[m_c1, m_c2])
    return nv


def check_tables(ck, tables, count=True, tag='docall'):
    codes, bafs = [], []
    for cfg, rows in tables:
        c, b = run_code(cfg, rows)
        codes.append(c)
        bafs.append(b)
    models, v2e2s = run_model(tables, bafs)
    nv = 0
    for ti, ((cfg, rows), c, b, m) in enumerate(zip(tables, codes, bafs, models)):
        nv += check_table(ck, cfg, rows, c, b, m, v2e2s.get(ti), count=count, tag=tag)
    return nv


RULE = ('do_call end to end: one call per table with method none/threshold/clonal x purity None, 1.0, 1.5, 0.999, fixed and random '
        'in (0,1) x ploidy 1..6 x reference sex x sample sex x build x threshold vector (default, germline, command-line style, '
        'random) x baf none / column / VariantArray x row labels default/gaps/permuted; rows: mixture rows (n 0..12), values next '
        'to rounding / clipping boundaries, thresholds and their float neighbours, NaN, random; compared with Model/Baf.v '
        'do_call_model (purity rewrite, then method on the rewritten log2, then allelic split)')


def stream(ck, n_tables, weights, tag):
    rng = ck.rng
    tables = []
    for i in range(n_tables):
        cfg = gen_cfg(rng, weights, i)
        tables.append((cfg, gen_table(rng, cfg, rng.choice([6, 20, 40]))))
    step = 200
    for i in range(0, len(tables), step):
        check_tables(ck, tables[i:i + step], tag=tag)
    ck.extra['do_call_tables'] = len(tables)


def table_of_case(case):
    """(cfg, rows) of a stored case (corpus entry or replay file)"""
    cfg = dict(case['cfg'])
    cfg.setdefault('index', 'default')
    if cfg.get('thresholds') is not None:
        cfg['thresholds'] = tuple(cfg['thresholds'])
    pp = purity_path(cfg['purity'])
    rows = []
    for r in case['rows']:
        r = dict(r)
        for key in ('log2', 'baf'):
            if key in r and (r[key] is None or r[key] == 'NaN'):
                r[key] = NAN
        r.setdefault('tag', 'replay:replay')
        r.setdefault('n', None)
        if cfg.get('style') is None:
            # inconsistently named table: the first row decides (C01_mixed_naming); the no-purity classifier lower-cases
            kl = c01.first_row_class(case['rows'][0]['chrom'], cfg['build'] if pp else None, r['chrom'], r['start'], r['end'])
            low = r['chrom'].lower()
            r['r_pure'] = cfg['ploidy'] // 2 if (low in ('chry', 'y') or (cfg['hapx'] and low in ('chrx', 'x'))) else cfg['ploidy']
        else:
            kl = c01.py_class(cfg['style'], cfg['build'], r['chrom'], r['start'], r['end'], par=pp)
            r['r_pure'] = c02.py_ref(r['chrom'], cfg['ploidy'], cfg['hapx'])
        r['kl'] = kl
        r['r'], r['x'] = c01.py_copies(cfg['ploidy'], cfg['hapx'], cfg['female'], kl)
        if cfg['baf_mode'] != 'none':
            r.setdefault('baf', NAN)
        rows.append(r)
    return cfg, rows


def corpus(ck, entries):
    """fixed do_call cases (corpus entries carrying "stream": "do_call"); `style` null = inconsistently named: the
    mixture / class oracles are skipped, everything else applies"""
    tables = [table_of_case(c) for c in entries]
    check_tables(ck, tables, tag='docall-corpus')
    ck.extra['do_call_corpus_cases'] = len(tables)


def replay_case(ck, case):
    cfg, rows = table_of_case(case)
    code, baf_in = run_code(cfg, rows)
    print('configuration:', cfg)
    for r in rows:
        print('  row:', slim(r))
    print('do_call output:', code)
    models, v2e2s = run_model([(cfg, rows)], [baf_in])
    print('model output:', models[0])
    check_table(ck, cfg, rows, code, baf_in, models[0], v2e2s.get(0), count=False)
