"""C05 -- the pooled reference is the robust per-bin consensus in the chosen reference sex.

Correspondence: cnvlib.reference.do_reference (corrections off) / do_reference_flat /
calculate_gc_lo / fasta_extract_regions and descriptives.biweight_location /
biweight_midvariance against the extracted Coq model (Model/Reference.v, on C15's
Center/Sex models and C19's biweight location).  Direct oracles are independent Python
`fractions.Fraction` computations written from the published biweight formulas and the
property text (bins, estimator, depth-only cohorts, sex levels, flat reference, gc/rmask).
The noise clauses ("~", tolerance 0.15, corrections on) are evaluated on the code only."""
import os, re, json, math, logging
from fractions import Fraction as Fr
import vlib
from vlib import Err

LEVEL = 'proof'
HERE = os.path.dirname(os.path.abspath(__file__))

EPS = Fr(1e-3)            # the double the code holds
PREC = 2 ** 220
MAD_SD = Fr(1.4826)
PAR = {'grch37': {'PAR1X': (60000, 2699520), 'PAR2X': (154931043, 155260560),
                  'PAR1Y': (10000, 2649520), 'PAR2Y': (59034049, 59363566)},
       'grch38': {'PAR1X': (10000, 2781479), 'PAR2X': (155701382, 156030895),
                  'PAR1Y': (10000, 2781479), 'PAR2Y': (56887902, 57217415)}}
SIG_PARY = 'c05-flat-pary-male-ref'


# ----------------------------------------------------------------------------
# independent oracle: published biweight formulas in exact rationals

def f_median(xs):
    s = sorted(xs)
    n = len(s)
    return s[n // 2] if n % 2 else (s[n // 2 - 1] + s[n // 2]) / 2


def bw_location(xs, c=6, eps=EPS, iters=5):
    """Tukey's biweight location iterated from the median; returns (value, decision margin)."""
    xs = [Fr(x) for x in xs]
    if not xs:
        return None, Fr(1)
    if len(xs) == 1:
        return xs[0], Fr(1)
    m = f_median(xs)
    margin = Fr(1)
    r = m
    for _ in range(iters):
        mad = f_median([abs(x - m) for x in xs])
        s = max(c * mad, eps)
        num = den = Fr(0)
        for x in xs:
            u = (x - m) / s
            margin = min(margin, abs(abs(u) - 1))
            if abs(u) < 1:
                w = (1 - u * u) ** 2
                num += (x - m) * w
                den += w
        r = m if den == 0 else m + num / den
        if r.denominator > PREC:
            # carry the centre forward with 220 fractional bits (exact arithmetic on the full
            # fraction is infeasible from the third iteration on; the error is far below the
            # 1e-9 comparison tolerance and below the margins that are reported)
            r = Fr(round(r * PREC), PREC)
        step = abs(r - m)
        margin = min(margin, abs(step - eps))
        if step <= eps:
            break
        m = r
    return r, margin


def bw_midvar_sq(xs, m, c=9, eps=EPS, k=MAD_SD):
    """Biweight midvariance (squared) about m; (value or None when the denominator vanishes, margin)."""
    xs = [Fr(x) for x in xs]
    if not xs:
        return None, Fr(1)
    if len(xs) == 1:
        return Fr(0), Fr(1)
    mad = f_median([abs(x - m) for x in xs])
    s = max(c * mad, eps)
    margin = Fr(1)
    inside = []
    for x in xs:
        u = (x - m) / s
        margin = min(margin, abs(abs(u) - 1))
        if abs(u) < 1:
            inside.append((x - m, u))
    nz = [abs(d) for d, _ in inside if d != 0]
    if not nz:
        return (k * mad) ** 2, margin
    margin = min(margin, min(nz))
    n = len(inside)
    num = n * sum(d * d * (1 - u * u) ** 4 for d, u in inside)
    den = sum((1 - u * u) * (1 - 5 * u * u) for d, u in inside)
    if abs(den) < Fr(1, 10 ** 6):
        return None, Fr(0)
    return num / (den * den), margin


def float_iters(xs, c=6.0, eps=1e-3, iters=5):
    """number of location iterations a float evaluation of the published formula takes
    (used only to decide whether exact rational evaluation of the Coq model is affordable)"""
    xs = [float(x) for x in xs]
    if len(xs) < 2:
        return 0
    s_ = sorted(xs)
    n = len(s_)
    m = s_[n // 2] if n % 2 else (s_[n // 2 - 1] + s_[n // 2]) / 2
    for it in range(1, iters + 1):
        dv = sorted(abs(x - m) for x in xs)
        mad = dv[n // 2] if n % 2 else (dv[n // 2 - 1] + dv[n // 2]) / 2
        sc = max(c * mad, eps)
        num = den = 0.0
        for x in xs:
            u = (x - m) / sc
            if abs(u) < 1:
                w = (1 - u * u) ** 2
                num += (x - m) * w
                den += w
        r = m if den == 0 else m + num / den
        if abs(r - m) <= eps:
            return it
        m = r
    return iters


def model_cost(col):
    """rough cost (seconds) of the exact rational consensus of one column in the extracted model"""
    it = float_iters(col)
    nd = len(set(col))
    if it <= 1:
        return 0.002 + 0.0004 * nd ** 3 if nd > 2 else 0.002
    if it == 2:
        return 0.02 * nd ** 2.5
    return 1e9


def run_models(entry, vals, timeout, workers=8):
    """one driver process per value, in parallel; None where the exact evaluation exceeds `timeout`"""
    import subprocess
    from concurrent.futures import ThreadPoolExecutor

    def one(v):
        try:
            return vlib.model_batch(entry, [v], timeout=timeout)[0]
        except subprocess.TimeoutExpired:
            return None
    if not vals:
        return []
    with ThreadPoolExecutor(workers) as ex:
        return list(ex.map(one, vals))


# ----------------------------------------------------------------------------
# independent oracle: tables

def chrom_key(name):
    c = name[3:] if name.lower().startswith('chr') else name
    if c in ('X', 'Y'):
        return (1000, c)
    m = re.match(r'\d*', c)
    nums, chars = m.group(0), c[len(m.group(0)):]
    n = int(nums) if nums else 0
    if not chars:
        return (n, '')
    return (2000 + n, chars) if len(chars) == 1 else (3000 + n, chars)


def sort_rows(rows):
    return sorted(rows, key=lambda r: (chrom_key(r[0]), r[1], r[2]))


def is_auto(name):
    return re.fullmatch(r'(chr)?\d+', name) is not None


def labels(rows):
    if not rows:
        return '', ''
    return ('chrX', 'chrY') if rows[0][0].startswith('chr') else ('X', 'Y')


def in_par(build, which, r):
    p = PAR[build.lower()]
    (a1, b1), (a2, b2) = p['PAR1' + which], p['PAR2' + which]
    return (r[1] >= a1 and r[2] <= b1) or (r[1] >= a2 and r[2] <= b2)


def x_mask(rows, build, r):
    xl, _ = labels(rows)
    return r[0] == xl and not (build is not None and in_par(build, 'X', r))


def y_mask(rows, build, r):
    _, yl = labels(rows)
    return r[0] == yl and not (build is not None and in_par(build, 'Y', r))


def flat_level(rows, hap, build, r):
    if hap:
        return Fr(-1) if (x_mask(rows, build, r) or y_mask(rows, build, r)) else Fr(0)
    return Fr(-1) if y_mask(rows, None, r) else Fr(0)


def centre_shift(rows, skip_low, build):
    """rows: [chrom, start, end, gene, log2, depth|None]; the amount center_all adds (None: nothing)."""
    sel = rows
    if skip_low:
        sel = [r for r in rows if not (Fr(r[4]) < -15 or (r[5] is not None and r[5] == 0))]
    if any(is_auto(r[0]) for r in sel):
        xl, _ = labels(rows)     # the label was cached on the full table... same first row unless dropped
        xl2, _ = labels(sel)
        sel = [r for r in sel if is_auto(r[0]) or (build is not None and r[0] == xl2 and in_par(build, 'X', r))]
    if not sel:
        return None
    groups, order = {}, []
    for r in sel:
        if r[0] not in groups:
            groups[r[0]] = []
            order.append(r[0])
        groups[r[0]].append(Fr(r[4]))
    return -f_median([f_median(groups[c]) for c in order])


def oracle_columns(case, sexes):
    """key -> all_logr column (flat first) computed from the case alone; None if the inputs must be rejected"""
    out = []
    blocks = [(case['targets'], True)]
    if case.get('antis'):
        blocks.append((case['antis'], False))
    for files, skip_low in blocks:
        files = sorted(files, key=lambda f: f['id'])
        first = sort_rows(files[0]['rows'])
        if not first:
            if any(f['rows'] for f in files[1:]):
                return None          # an empty first file and a file with bins: the bins differ
            continue
        fkeys = [tuple(r[:4]) for r in first]
        cols = [[flat_level(first, case['hap'], case['build'], r)] for r in first]
        dcols = [[] for _ in first]
        for f in files:
            rows = sort_rows(f['rows'])
            if [tuple(r[:4]) for r in rows] != fkeys:
                return None
            if not f.get('with_depth', True):
                import numpy as np
                rows = [[r[0], r[1], r[2], r[3], r[4], None] for r in rows]
                f = dict(f, depths=[float(np.exp2(float(r[4]))) for r in rows])
            sh = centre_shift(rows, skip_low, case['build'])
            is_xx = bool(sexes.get(f['id']))
            for i, r in enumerate(rows):
                v = Fr(r[4]) + (sh or 0) + cols[i][0]
                xm, ym = x_mask(first, case['build'], first[i]), y_mask(first, case['build'], first[i])
                if is_xx:
                    if ym:
                        v = Fr(-1)
                elif xm or ym:
                    v += 1
                cols[i].append(v)
                dcols[i].append(Fr(f['depths'][i]) if 'depths' in f else Fr(r[5]))
        out.extend(zip(fkeys, cols, dcols))
    return out


# ----------------------------------------------------------------------------
# running the code

def write_cnn(path, rows, with_depth=True):
    with open(path, 'w') as fh:
        fh.write('chromosome\tstart\tend\tgene\t' + ('depth\t' if with_depth else '') + 'log2\n')
        for r in rows:
            if with_depth:
                fh.write('%s\t%d\t%d\t%s\t%r\t%r\n' % (r[0], r[1], r[2], r[3], float(r[5]), float(r[4])))
            else:
                fh.write('%s\t%d\t%d\t%s\t%r\n' % (r[0], r[1], r[2], r[3], float(r[4])))


def write_files(case, scratch, tag):
    d = os.path.join(scratch, tag)
    os.makedirs(d, exist_ok=True)
    tn, an = [], None
    for f in case['targets']:
        p = os.path.join(d, f['id'] + '.targetcoverage.cnn')
        write_cnn(p, f['rows'], f.get('with_depth', True))
        tn.append(p)
    if case.get('antis') is not None:
        an = []
        for f in case['antis']:
            p = os.path.join(d, f['id'] + '.antitargetcoverage.cnn')
            write_cnn(p, f['rows'], f.get('with_depth', True))
            an.append(p)
    return tn, an


def err_kind(e):
    if isinstance(e, ValueError):
        return 'ValueError'
    if isinstance(e, RuntimeError):
        return 'RuntimeError'
    if isinstance(e, AssertionError):
        return 'Assertion'
    if isinstance(e, IndexError):
        return 'IndexError'
    return 'Other:' + type(e).__name__


def table_rows(cna, cols=('log2', 'depth', 'spread')):
    df = cna.data
    out = []
    for i in range(len(df)):
        row = [str(df['chromosome'].iat[i]), int(df['start'].iat[i]), int(df['end'].iat[i]), str(df['gene'].iat[i])]
        for c in cols:
            row.append(float(df[c].iat[i]) if c in df else None)
        out.append(row)
    return out


def run_code(case, scratch, tag, fa=None, corr=False):
    from cnvlib import reference
    tn, an = write_files(case, scratch, tag)
    sexes = None
    try:
        if case['female_samples'] is None:
            # the code's own inference is an oracle for the model (its correctness is C15's business)
            ts = reference.infer_sexes(tn, False, case['build'])
            asx = reference.infer_sexes(an, False, case['build']) if an else {}
            sexes = ({k: bool(v) for k, v in ts.items()}, {k: bool(v) for k, v in asx.items()})
        ref = reference.do_reference(tn, an, fa, case['hap'], case['build'], case['female_samples'],
                                     corr, corr, corr)
        cols = ('log2', 'depth', 'spread', 'gc', 'rmask') if corr else ('log2', 'depth', 'spread')
        return table_rows(ref, cols), sexes
    except Exception as e:  # noqa
        return Err(err_kind(e)), sexes


def sexes_dict(case, sexes):
    if case['female_samples'] is not None:
        return {f['id']: case['female_samples'] for f in case['targets']}
    d = dict(sexes[0])
    d.update(sexes[1])
    return d


def model_input(case, sexes):
    def sample(f):
        rows = sort_rows(f['rows'])
        wd = f.get('with_depth', True)
        bins = [[r[0], r[1], r[2], r[3], Fr(r[4]), (Fr(r[5]) if wd else None)] for r in rows]
        if wd:
            deps = [Fr(r[5]) for r in rows]
        else:
            import numpy as np
            deps = [Fr(float(np.exp2(float(r[4])))) for r in rows]
        return [f['id'], bins, deps]
    if case['female_samples'] is not None:
        sx = bool(case['female_samples'])
    else:
        sx = [[sexes[0].get(f['id']) for f in case['targets']],
              [sexes[1].get(f['id']) for f in (case.get('antis') or [])]]
    return [bool(case['hap']), case['build'], sx, [sample(f) for f in case['targets']],
            [sample(f) for f in (case.get('antis') or [])]]


# ----------------------------------------------------------------------------
# generators

def grid(rng, lo, hi, q=1024):
    return Fr(rng.randint(int(lo * q), int(hi * q)), q)


def gen_layout(rng, style=None, build=None, nbins=None, sex_share=None, with_y=None, extra=None):
    """bins of one table: list of (chrom, start, end, gene)"""
    pre = rng.choice(['chr', '']) if style is None else style
    nauto = rng.randint(1, 5)
    total = nbins if nbins is not None else rng.randint(8, 40)
    if sex_share is None:
        sex_share = rng.choice([0.1, 0.2, 0.4])
    nx = max(1, int(total * sex_share * 0.7))
    ny = max(0, int(total * sex_share * 0.3)) if (with_y if with_y is not None else rng.random() < 0.8) else 0
    na = max(nauto, total - nx - ny)
    bins = []
    per = [na // nauto + (1 if i < na % nauto else 0) for i in range(nauto)]
    names = rng.sample(range(1, 23), nauto)
    for nm, cnt in zip(names, per):
        pos = rng.randint(0, 500)
        for j in range(cnt):
            ln = rng.randint(20, 400)
            bins.append((pre + str(nm), pos, pos + ln, 'G%d_%d' % (nm, j // 3)))
            pos += ln + rng.choice([0, 0, 10, 150, 900])
    base = 60000 if build else 0
    pos = base + rng.randint(0, 300)
    for j in range(nx):
        ln = rng.randint(20, 400)
        if build and j == nx - 1 and rng.random() < 0.7:
            pos = max(pos, 2699520 + rng.randint(0, 500))      # beyond PAR1X: a genuine X bin
        bins.append((pre + 'X', pos, pos + ln, 'GX%d' % (j // 2)))
        pos += ln + rng.choice([0, 20, 500])
    if build and nx and rng.random() < 0.8:
        # at least one non-PAR X bin, so that chrX exists for the sex filters
        bins.append((pre + 'X', 3000000, 3000000 + rng.randint(50, 300), 'GXnp'))
    pos = (2700000 if build else 0) + rng.randint(0, 300)
    for j in range(ny):
        ln = rng.randint(20, 400)
        bins.append((pre + 'Y', pos, pos + ln, 'GY%d' % j))
        pos += ln + rng.choice([0, 20, 500])
    if extra is None:
        extra = rng.random() < 0.2
    if extra:
        bins.append((pre + 'M', 10, 200, 'MT'))
    return bins


def gen_cohort(rng, nbins=None, noise=None, k=None, build='rand', antis='rand', mixed=True,
               sex_share=None, flat_sex_profile=None, with_low=None, style=None, hap=None, with_y=None,
               flat_profile=False, autosomal_targets=None):
    """a valid cohort case (all files have the same bins)"""
    if build == 'rand':
        build = rng.choice([None, None, None, 'grch37', 'GRCh38'])
    tb = gen_layout(rng, style=style, build=build, nbins=nbins, sex_share=sex_share, with_y=with_y)
    pre = 'chr' if tb[0][0].startswith('chr') else ''
    if antis == 'rand':
        antis = rng.choice(['none', 'none', 'same', 'same', 'empty'])
    ab = []
    if antis == 'same':
        last, cnt = {}, {}
        for (c, s, e, g) in tb:
            last[c] = max(last.get(c, 0), e)
            cnt[c] = cnt.get(c, 0) + 1
        for c in last:
            pos = last[c] + 1000
            for j in range((cnt[c] + 1) // 2):
                ln = rng.randint(300, 900)
                ab.append((c, pos, pos + ln, 'Antitarget'))
                pos += ln + rng.choice([0, 50])
    if autosomal_targets is None:
        autosomal_targets = (antis == 'same') and rng.random() < 0.2
    if autosomal_targets and antis == 'same' and ab:
        # an autosome-only panel: the sex chromosomes are seen by the antitarget files only, so a sample's
        # sex can be inferred from its antitarget file alone
        auto_only = [b for b in tb if is_auto(b[0])]
        if auto_only:
            tb = auto_only
    k = k if k is not None else rng.choice([1, 2, 2, 3, 3, 4, 5, 6, 8])
    if noise is None:
        noise = rng.choice([0, 0, 8, 32, 100])       # in 1/1024 units
    if flat_sex_profile is None:
        flat_sex_profile = rng.random() < 0.5
    # baseline profile on a 1/64 grid (so that non-zero values are >= 1/64 > epsilon)
    def profile(bins):
        out = []
        for (c, s, e, g) in bins:
            sexc = (c.endswith('X') and not (build and in_par(build, 'X', (c, s, e)))) or c.endswith('Y')
            if sexc and flat_sex_profile:
                out.append(None)            # filled with the autosomal centre below
            else:
                out.append(Fr(rng.randint(-48, 48), 64) if (rng.random() < 0.8 and not flat_profile) else Fr(0))
        return out
    ids = rng.sample(['s%02d' % i for i in range(40)] + ['Sample_A', 'b.x', 'Zed'], k)
    sex = [rng.random() < 0.5 for _ in ids] if mixed else [rng.random() < 0.5] * k   # True = female
    depth_shift = [grid(rng, -2, 2, 64) for _ in ids]
    if with_low is None:
        with_low = rng.random() < 0.25
    with_depth = rng.random() < 0.85

    depth_base = {}

    def table(bins, prof, si, is_target):
        for (c, s, e, g) in bins:
            if (c, s, e) not in depth_base:
                depth_base[(c, s, e)] = Fr(rng.randint(32, 512), 64)
        rows = []
        for (c, s, e, g), a in zip(bins, prof):
            v = a + depth_shift[si]
            par = build and ((c.endswith('X') and in_par(build, 'X', (c, s, e))) or
                             (c.endswith('Y') and in_par(build, 'Y', (c, s, e))))
            if c.endswith('X') and not par:
                v -= 0 if sex[si] else 1
            elif c.endswith('Y') and not par:
                v = (Fr(-6) + grid(rng, -2, 2)) if sex[si] else v - 1
            elif c.endswith('Y') and par:
                v = Fr(-6) + grid(rng, -2, 2)
            if noise:
                v += Fr(rng.randint(-noise, noise), 1024)
            dep = depth_base[(c, s, e)] + Fr(rng.randint(-1, 1), 1024)
            if with_low and rng.random() < 0.08:
                if rng.random() < 0.5:
                    v, dep = Fr(-20), Fr(0)
                else:
                    dep = Fr(0)
            rows.append([c, s, e, g, v, dep])
        return rows

    def centre_of(bins, prof):
        rows = [[c, s, e, g, (a if a is not None else Fr(0)), Fr(1)] for (c, s, e, g), a in zip(bins, prof)]
        sh = centre_shift(sort_rows(rows), False, build)
        return -(sh or 0)
    tprof = profile(tb)
    tm = centre_of(tb, tprof)
    tprof = [tm if a is None else a for a in tprof]
    targets = [{'id': ids[i], 'rows': table(tb, tprof, i, True), 'with_depth': with_depth} for i in range(k)]
    case = {'hap': (rng.random() < 0.5) if hap is None else hap, 'build': build,
            'female_samples': None, 'targets': targets, 'antis': None}
    meta = {'sex': dict(zip(ids, sex)), 'tprofile': dict(zip(tb, tprof)), 'noise': noise, 'k': k,
            'flat_sex_profile': flat_sex_profile, 'with_low': with_low, 'tcentre': tm}
    if antis == 'same' and ab:
        aprof = profile(ab)
        am = centre_of(ab, aprof)
        aprof = [am if a is None else a for a in aprof]
        case['antis'] = [{'id': ids[i], 'rows': table(ab, aprof, i, False), 'with_depth': with_depth} for i in range(k)]
        meta['aprofile'] = dict(zip(ab, aprof))
        meta['acentre'] = am
    elif antis == 'empty':
        case['antis'] = [{'id': ids[i], 'rows': [], 'with_depth': with_depth} for i in range(k)]
    # shuffle the file order and, sometimes, the row order inside a file (files are sorted on reading)
    rng.shuffle(case['targets'])
    if case['antis']:
        rng.shuffle(case['antis'])
    for f in case['targets'] + (case['antis'] or []):
        if rng.random() < 0.2:
            rng.shuffle(f['rows'])
    return case, meta


def jcase(case):
    """JSON-able copy (Fractions on a dyadic grid become floats, exactly)"""
    def rows(rs):
        return [[r[0], r[1], r[2], r[3], float(r[4]), float(r[5])] for r in rs]
    out = dict(case)
    out['targets'] = [dict(f, rows=rows(f['rows'])) for f in case['targets']]
    if case.get('antis') is not None:
        out['antis'] = [dict(f, rows=rows(f['rows'])) for f in case['antis']]
    return out


def unj(case):
    def rows(rs):
        return [[r[0], int(r[1]), int(r[2]), r[3], Fr(float(r[4])), Fr(float(r[5]))] for r in rs]
    out = dict(case)
    out['targets'] = [dict(f, rows=rows(f['rows'])) for f in case['targets']]
    if case.get('antis') is not None:
        out['antis'] = [dict(f, rows=rows(f['rows'])) for f in case['antis']]
    out.setdefault('build', None)
    out.setdefault('female_samples', None)
    return out


# ----------------------------------------------------------------------------
# the exact pipeline check

def close_sqrt(code_spread, var):
    """code's spread against an exact variance"""
    if var is None:
        return True
    if code_spread is None or code_spread != code_spread:
        return False
    return abs(code_spread - math.sqrt(float(var))) <= 1e-9 * max(1.0, abs(code_spread))


def check_pool_cases(ck, scratch, cases, cls):
    """cases: list of (case, meta|None). Runs the code, the direct oracles and the model."""
    runs = []
    for idx, (case, meta) in enumerate(cases):
        got, sexes = run_code(case, scratch, '%s%d' % (cls, idx))
        runs.append((case, meta, got, sexes))
    # the columns the consensus is taken over: model (cheap, exact) for every case
    inputs = [model_input(c, s) for c, _, _, s in runs]
    mcols = vlib.model_batch_parallel('c05_columns', inputs)
    # the full model (exact rational biweight per bin) only where that is affordable
    ocols = [oracle_columns(c, sexes_dict(c, s)) for c, _, _, s in runs]
    budget = 4.0 if ck.tier == 'quick' else 20.0
    elig = []
    for i, oc in enumerate(ocols):
        if oc is None or not oc:
            elig.append(i)           # rejected / empty: no arithmetic
        elif sum(model_cost(col) + model_cost(dcol) for _, col, dcol in oc) <= budget:
            elig.append(i)
    res = run_models('c05_pool', [inputs[i] for i in elig], timeout=30 if ck.tier == 'quick' else 120)
    models = [None] * len(runs)
    for i, r in zip(elig, res):
        models[i] = r
    for (case, meta, got, sexes), mod, mc, cols in zip(runs, models, mcols, ocols):
        jc = jcase(case)
        sd = sexes_dict(case, sexes)
        nontrivial = len(case['targets']) >= 2 and not isinstance(got, Err)
        ck.count(['pool', jc], nontrivial=nontrivial, cls='pool:' + cls)
        if cols is not None and not isinstance(mc, Err):
            if [(tuple(m[:4]), [Fr(x) for x in m[4]]) for m in mc] != [(k, col) for k, col, _ in cols]:
                ck.tie_break('model all_logr columns differ from the independent oracle', jc,
                             code=[(k, [float(x) for x in col]) for k, col, _ in cols][:4], model=repr(mc)[:400])
                continue
        # --- clause C05_bins: rejection of differing bins / the keys of the pooled table
        if cols is None:
            if not isinstance(got, Err):
                ck.violation('files whose bins differ were pooled without an error', jc, code='table of %d rows' % len(got),
                             expected='rejected', clause='C05_bins')
            elif got != mod:
                ck.tie_break('model and code reject differently', jc, code=got, model=mod)
            continue
        if isinstance(got, Err):
            if not cols:
                # no bin at all: numpy refuses the empty matrix; nothing the property speaks about
                if mod is not None and got != mod:
                    ck.tie_break('empty cohort: model and code differ', jc, code=got, model=mod)
                continue
            ck.violation('equal bins, but do_reference raised', jc, code=got, expected='a reference table', clause='C05_bins')
            continue
        exp_keys = [k for k, _, _ in sorted(cols, key=lambda kc: (chrom_key(kc[0][0]), kc[0][1], kc[0][2]))]
        got_keys = [tuple(r[:4]) for r in got]
        if got_keys != exp_keys:
            ck.violation('pooled reference does not have exactly the bins of its inputs (sorted)', jc,
                         code=got_keys, expected=exp_keys, clause='C05_bins')
            continue
        # --- clause C05_estimator: per bin biweight location / midvariance of flat :: shifted samples
        bykey = {}
        for k, col, dcol in cols:
            bykey.setdefault(k, []).append((col, dcol))
        ambiguous = False
        bad = None
        expect_rows = []
        for r in got:
            cands = bykey[tuple(r[:4])]
            okrow = False
            for col, dcol in cands:           # duplicate keys: any of the equal-keyed bins may come first
                loc, m1 = bw_location(col)
                var, m2 = bw_midvar_sq(col, loc)
                dloc, m3 = bw_location(dcol)
                if min(m1, m2, m3) < Fr(1, 10 ** 7):
                    ambiguous = True
                    okrow = True
                    break
                if vlib.close(r[4], loc) and close_sqrt(r[6], var) and vlib.close(r[5], dloc):
                    okrow = True
                    expect_rows.append((loc, var, dloc))
                    break
            if not okrow:
                col, dcol = cands[0]
                loc, _ = bw_location(col)
                var, _ = bw_midvar_sq(col, loc)
                bad = (r, [float(x) for x in col], float(loc), None if var is None else math.sqrt(float(var)),
                       float(bw_location(dcol)[0]))
                break
        if ambiguous:
            ck.float_ambiguous += 1
            continue
        if bad is not None:
            ck.violation("a bin's log2 / spread / depth is not the biweight location / midvariance of the flat "
                         "pseudo-sample and the centred, sex-shifted samples", jc,
                         code=bad[0], expected={'column': bad[1], 'log2': bad[2], 'spread': bad[3], 'depth': bad[4]},
                         clause='C05_estimator')
            continue
        # --- consequences, on noise-free generated cohorts
        if meta is not None:
            check_consequences(ck, case, meta, got, sd, jc)
        # --- model
        if mod is None:
            ck.cls('pool:model-skipped-exact-arithmetic-too-costly')
            continue
        ck.cls('pool:model-compared')
        if isinstance(mod, Err) or len(mod) != len(got):
            ck.tie_break('model of do_reference differs from the code', jc, code=got[:3], model=repr(mod)[:300])
            continue
        for r, m in zip(got, mod):
            if tuple(r[:4]) != tuple(m[:4]) or not vlib.close(r[4], m[4]) or not vlib.close(r[5], m[5]) \
                    or not close_sqrt(r[6], m[6]):
                ck.tie_break('model of do_reference differs from the code', jc, code=r,
                             model=[m[0], m[1], m[2], m[3], float(m[4]), float(m[5]), math.sqrt(float(m[6]))])
                break


def check_consequences(ck, case, meta, got, sd, jc):
    """C05_depth_only and C05_sex_levels on noise-free cohorts whose sexes the code got right"""
    if meta['noise'] != 0 or meta['with_low']:
        return
    truth = meta['sex']
    if any(bool(sd.get(i)) != truth[i] for i in truth):
        ck.cls('pool:sex-not-as-generated')
        return
    k = meta['k']
    build, hap = case['build'], case['hap']
    first_t = sort_rows(sorted(case['targets'], key=lambda f: f['id'])[0]['rows'])
    first_a = sort_rows(sorted(case['antis'], key=lambda f: f['id'])[0]['rows']) if case.get('antis') else []
    allf = all(truth.values())
    allm = not any(truth.values())
    for r in got:
        key = tuple(r[:4])
        if key in meta['tprofile']:
            a, m, first = meta['tprofile'][key], meta['tcentre'], first_t
        elif 'aprofile' in meta and key in meta['aprofile']:
            a, m, first = meta['aprofile'][key], meta['acentre'], first_a
        else:
            continue
        if not any(is_auto(x[0]) for x in first):
            continue                 # no autosome: everything is "autosomal", no baseline to speak of
        rel = a - m
        xm, ym = x_mask(first, build, r), y_mask(first, build, r)
        auto = is_auto(r[0]) or (build is not None and r[0] == labels(first)[0] and in_par(build, 'X', r))
        if not (auto or xm or ym):
            continue
        exact_ok = (rel == 0 or abs(rel) >= EPS)
        if auto:
            exp = rel
        elif xm:
            exp = rel - (1 if hap else 0)
        else:
            exp = rel - 1
            if allf:
                exp, exact_ok, rel = Fr(-1), True, Fr(0)     # C05_sex_levels_y_females: -1 whatever the baseline
            elif not (allm or rel == 0):
                continue             # both sexes and a baseline off the centre: a mixed column (C05_sex_levels_y_mixed_refuted)
        if (k >= 2 and exact_ok) or rel == 0:
            if not vlib.close(r[4], exp) or not (abs(r[6]) <= 1e-9):
                what = ('normals differing only in depth do not reproduce their profile with spread 0' if auto else
                        'sex chromosome level of a noise-free cohort is not at the reference sex level')
                ck.violation(what, jc, code=r, expected={'log2': float(exp), 'spread': 0.0, 'bin_is': 'auto' if auto else ('X' if xm else 'Y')},
                             clause='C05_depth_only' if auto else 'C05_sex_levels')
                return
    ck.cls('pool:consequences-checked')


# ----------------------------------------------------------------------------
# malformed stream: differing bins, unequal file counts

def mutate_bins(rng, case):
    """make one non-first file differ; returns a description"""
    which = 'targets' if (not case.get('antis') or rng.random() < 0.6) else 'antis'
    files = case[which]
    if len(files) < 2:
        return None
    if not all(f['rows'] for f in files):
        return None
    order = sorted(range(len(files)), key=lambda i: files[i]['id'])
    victim = files[rng.choice(order)]
    rows = victim['rows']
    how = rng.choice(['end', 'start', 'gene', 'drop', 'dup', 'chrom', 'empty', 'empty'])
    i = rng.randrange(len(rows))
    if how == 'empty':
        # one file of the block without bins (the first by sample id as often as another one)
        if rng.random() < 0.5:
            victim = files[order[0]]
        del victim['rows'][:]
    elif how == 'end':
        rows[i][2] += 1
    elif how == 'start':
        rows[i][1] = max(0, rows[i][1] - 1) if rows[i][1] > 0 else rows[i][1] + 1
    elif how == 'gene':
        rows[i][3] = rows[i][3] + 'x'
    elif how == 'drop':
        if len(rows) < 2:
            return None
        del rows[i]
    elif how == 'dup':
        rows.append(list(rows[i]))
    elif how == 'chrom':
        rows[i][0] = rows[i][0] + '7'
    return how


# ----------------------------------------------------------------------------
# flat reference, gc / rmask

def write_bed(path, rows):
    with open(path, 'w') as fh:
        for c, s, e, g in rows:
            fh.write('%s\t%d\t%d\t%s\n' % (c, s, e, g))


def rand_dna(rng, n, regional=True):
    out = []
    gc = 0.5
    while len(out) < n:
        run = rng.randint(1, 60)
        if regional and rng.random() < 0.3:
            gc = rng.choice([0.2, 0.4, 0.5, 0.6, 0.8])
        mode = rng.choice(['up', 'up', 'lo', 'N', 'n', 'mix'])
        for _ in range(run):
            b = rng.choice('GC') if rng.random() < gc else rng.choice('AT')
            if mode == 'lo':
                b = b.lower()
            elif mode == 'N':
                b = 'N'
            elif mode == 'n':
                b = 'n'
            elif mode == 'mix':
                b = rng.choice([b, b.lower(), 'N', 'R', 'y'])
            out.append(b)
    return ''.join(out[:n])


def write_fasta(path, seqs, width=60):
    with open(path, 'w') as fh:
        for name, s in seqs.items():
            fh.write('>%s\n' % name)
            for i in range(0, len(s), width):
                fh.write(s[i:i + width] + '\n')
    for ext in ('.fai',):
        if os.path.exists(path + ext):
            os.remove(path + ext)


def gc_oracle(sub):
    tot = sum(sub.count(ch) for ch in 'ACGTacgt')
    if tot == 0:
        return Fr(0), Fr(0)
    return Fr(sum(sub.count(ch) for ch in 'GCgc'), tot), Fr(sum(sub.count(ch) for ch in 'acgt'), tot)


def fasta_for(rng, bins, short=False, regional=True):
    """sequences covering the bins (one bin may run past the end of its chromosome)"""
    ends = {}
    for c, s, e, g in bins:
        ends[c] = max(ends.get(c, 0), e)
    seqs = {}
    for c, e in ends.items():
        n = e + rng.randint(0, 50)
        if short and rng.random() < 0.3:
            n = max(1, e - rng.randint(1, 30))
        seqs[c] = rand_dna(rng, n, regional)
    return seqs


def flat_expected(rows, hap, build):
    """the property's flat levels: 0 autosomes, -1 Y, X -1 iff male reference (PAR-X 0 with a PAR build)"""
    xl, yl = labels(rows)
    out = []
    for r in rows:
        if r[0] == yl:
            out.append(Fr(-1))
        elif r[0] == xl:
            out.append(Fr(-1) if (hap and not (build is not None and in_par(build, 'X', r))) else Fr(0))
        else:
            out.append(Fr(0))
    return out


def in_pary_region(rows, hap, build, r):
    return bool(hap) and build is not None and r[0] == labels(rows)[1] and in_par(build, 'Y', r)


def check_flat_case(ck, scratch, tag, fc, canonical=False):
    """fc: {'hap','build','targets':[(c,s,e,g)],'antis':[..]|None,'seqs':{..}|None}"""
    import numpy as np
    from cnvlib import reference
    d = os.path.join(scratch, tag)
    os.makedirs(d, exist_ok=True)
    tb = os.path.join(d, 'targets.bed')
    write_bed(tb, fc['targets'])
    ab = None
    if fc.get('antis') is not None:
        ab = os.path.join(d, 'antitargets.bed')
        write_bed(ab, fc['antis'])
    fa = None
    if fc.get('seqs'):
        fa = os.path.join(d, 'genome.fa')
        write_fasta(fa, fc['seqs'])
    ref = reference.do_reference_flat(tb, ab, fa, fc['hap'], fc['build'])
    got = table_rows(ref, ('log2', 'depth', 'spread', 'gc', 'rmask'))
    jc = {'kind': 'flat', 'hap': fc['hap'], 'build': fc['build'], 'targets': [list(x) for x in fc['targets']],
          'antis': None if fc.get('antis') is None else [list(x) for x in fc['antis']]}
    ck.count(jc, nontrivial=True, cls='flat:' + tag.rstrip('0123456789'))
    allrows = sort_rows([tuple(x) for x in fc['targets']] + [tuple(x) for x in (fc.get('antis') or [])])
    if [tuple(r[:4]) for r in got] != [tuple(r) for r in allrows]:
        ck.violation('flat reference does not have exactly the given bins (sorted)', jc,
                     code=[r[:4] for r in got], expected=allrows, clause='C05_bins')
        return
    exp = flat_expected(allrows, fc['hap'], fc['build'])
    known_hit = False
    for r, e in zip(got, exp):
        if Fr(r[4]) != e:
            if in_pary_region(allrows, fc['hap'], fc['build'], r):
                known_hit = True
                if canonical:
                    ck.violation('flat log2 on a PAR-Y bin with a male reference and a PAR build', jc, sig=SIG_PARY,
                                 code=r[:5], expected=float(e), clause='C05_flat')
                continue
            ck.violation('flat reference level is not 0 / -1 as the property states', jc, code=r[:5], expected=float(e),
                         clause='C05_flat')
            return
        if r[6] != 0.0 or not vlib.close(r[5], Fr(2) ** int(e)):
            ck.violation('flat reference spread/depth is not 0 / 2**log2', jc, code=r, expected=[0.0, float(Fr(2) ** int(e))],
                         clause='C05_flat')
            return
    # gc / rmask against the direct count
    if fa:
        for r in got:
            sub = fc['seqs'].get(r[0], '')[r[1]:r[2]]
            g, m = gc_oracle(sub)
            if not vlib.close(r[7], g) or not vlib.close(r[8], m):
                ck.violation('gc / rmask of a bin is not the G+C / lowercase fraction of its unambiguous bases', jc,
                             code=[r[:3], r[7], r[8]], expected=[float(g), float(m), sub[:80]], clause='C05_gc_rmask')
                return
    # model
    ex = [[Fr(0), Fr(float(np.exp2(0.0)))], [Fr(-1), Fr(float(np.exp2(-1.0)))]]
    mod = vlib.model_call('c05_flat', [bool(fc['hap']), fc['build'], ex, [list(x) for x in fc['targets']],
                                       [list(x) for x in (fc.get('antis') or [])]])
    if isinstance(mod, Err) or len(mod) != len(got) or any(
            tuple(r[:4]) != tuple(m[:4]) or Fr(r[4]) != m[4] or Fr(r[5]) != m[5] or Fr(r[6]) != m[6] for r, m in zip(got, mod)):
        ck.tie_break('model of do_reference_flat differs from the code', jc, code=[r[:7] for r in got][:6], model=repr(mod)[:400])
    if fa:
        gm = vlib.model_batch('c05_gc', [[fc['seqs'].get(r[0], ''), r[1], r[2]] for r in got])
        for r, m in zip(got, gm):
            if isinstance(m, Err) or not vlib.close(r[7], m[0]) or not vlib.close(r[8], m[1]):
                ck.tie_break('model gc_lo differs from the code', {'seq': fc['seqs'].get(r[0], '')[r[1]:r[2]][:200]},
                             code=[r[7], r[8]], model=repr(m))
                break
    return known_hit


def gen_flat(rng, with_fa=True, build='rand'):
    if build == 'rand':
        build = rng.choice([None, None, 'grch37', 'grch38'])
    tb = gen_layout(rng, build=build, nbins=rng.randint(4, 25))
    hap = rng.random() < 0.5
    if hap and build:
        # stay out of the open finding's region: no Y bin inside PAR-Y
        tb = [b for b in tb if not (b[0].endswith('Y') and in_par(build, 'Y', b))]
    ab = None
    if rng.random() < 0.6:
        ab = [(c, e + 10, e + 10 + rng.randint(30, 500), 'Antitarget') for (c, s, e, g) in tb[::3]]
        if hap and build:
            ab = [b for b in ab if not (b[0].endswith('Y') and in_par(build, 'Y', b))]
    elif rng.random() < 0.3:
        ab = []
    rng.shuffle(tb)
    seqs = None
    if with_fa:
        allb = tb + (ab or [])
        if max(e for _, _, e, _ in allb) < 400000:
            seqs = fasta_for(rng, allb, short=True)
    return {'hap': hap, 'build': build, 'targets': tb, 'antis': ab, 'seqs': seqs}


def check_gc_strings(ck, n):
    from cnvlib import reference
    rng = ck.rng
    cases = []
    for i in range(n):
        mode = rng.random()
        if mode < 0.15:
            s = ''.join(rng.choice('ACGTacgtNn') for _ in range(rng.randint(0, 6)))
        elif mode < 0.3:
            s = rng.choice(['', 'N' * 7, 'nnnn', 'acgt', 'ACGT', 'gGcC', 'aAtT', 'RYKM', 'NNacNN', 'g', 'A'])
        else:
            s = rand_dna(rng, rng.randint(1, 300))
        a = rng.randint(0, max(0, len(s)))
        b = rng.choice([len(s), len(s) + 5, rng.randint(a, max(a, len(s)))])
        cases.append((s, a, b))
    mods = vlib.model_batch('c05_gc', [[s, a, b] for s, a, b in cases])
    for (s, a, b), m in zip(cases, mods):
        sub = s[a:b]
        g, lo = reference.calculate_gc_lo(sub)
        eg, el = gc_oracle(sub)
        ck.count(['gc', s, a, b], nontrivial=(eg != 0 or el != 0), cls='gc:string')
        if not vlib.close(float(g), eg) or not vlib.close(float(lo), el):
            ck.violation('calculate_gc_lo is not the G+C / lowercase fraction of the unambiguous bases', {'seq': sub},
                         code=[g, lo], expected=[float(eg), float(el)], clause='C05_gc_rmask')
        elif isinstance(m, Err) or Fr(m[0]) != eg or Fr(m[1]) != el:
            ck.tie_break('model gc_lo differs from calculate_gc_lo', {'seq': s, 'start': a, 'end': b}, code=[g, lo], model=repr(m))


# ----------------------------------------------------------------------------
# gc / rmask columns of the POOLED reference (C05_pooled_gc_rmask, C05_pooled_gc_first_file)

def write_cnn_gc(path, rows, gcs):
    with open(path, 'w') as fh:
        fh.write('chromosome\tstart\tend\tgene\tdepth\tlog2' + ('\tgc' if gcs is not None else '') + '\n')
        for i, r in enumerate(rows):
            fh.write('%s\t%d\t%d\t%s\t%r\t%r' % (r[0], r[1], r[2], r[3], float(r[5]), float(r[4])))
            fh.write(('\t%r\n' % float(gcs[i])) if gcs is not None else '\n')


def check_pool_gc(ck, scratch, n):
    """do_reference with a FASTA (gc / rmask computed per bin) or without one (gc taken from the first file of each
    block): the two columns of the pooled table against the direct count and against Model/Reference.v pool_gc"""
    from cnvlib import reference
    rng = ck.rng
    runs = []
    for i in range(n):
        mode = 'fasta' if i % 3 else 'filegc'
        tb = sort_rows([list(b) for b in gen_layout(rng, build=None, nbins=rng.randint(5, 14), extra=False)])
        how = rng.choice(['same', 'same', 'none', 'empty'])
        ab = []
        if how == 'same':
            ends = {}
            for b in tb:
                ends[b[0]] = max(ends.get(b[0], 0), b[2])
            for c in list(ends)[: rng.randint(1, len(ends))]:
                pos = ends[c] + rng.randint(1, 200)
                for _ in range(rng.randint(1, 3)):
                    ln = rng.randint(30, 300)
                    ab.append([c, pos, pos + ln, 'Antitarget'])
                    pos += ln + rng.choice([0, 40])
            ab = sort_rows(ab)
        k = rng.randint(1, 3)
        ids = sorted(rng.sample(['s%02d' % j for j in range(30)], k))
        do_gc, do_rmask = rng.random() < 0.75, rng.random() < 0.6
        d = os.path.join(scratch, 'poolgc%d' % i)
        os.makedirs(d, exist_ok=True)
        # with a FASTA the coverage files may carry a (different) gc column of their own as well, e.g. imported from
        # Picard: the genome sequence still decides
        file_gc_t = rng.random() < (0.8 if mode == 'filegc' else 0.5)
        file_gc_a = rng.random() < (0.7 if mode == 'filegc' else 0.5)
        tgcs = {sid: [Fr(rng.randint(16, 48), 64) for _ in tb] for sid in ids} if file_gc_t else None
        agcs = {sid: [Fr(rng.randint(16, 48), 64) for _ in ab] for sid in ids} if file_gc_a else None
        tn, an = [], (None if how == 'none' else [])
        for sid in ids:
            rows = [[b[0], b[1], b[2], b[3], grid(rng, -1, 1), Fr(rng.randint(32, 512), 64)] for b in tb]
            pth = os.path.join(d, sid + '.targetcoverage.cnn')
            write_cnn_gc(pth, rows, tgcs[sid] if tgcs else None)
            tn.append(pth)
            if an is not None:
                arows = [[b[0], b[1], b[2], b[3], grid(rng, -1, 1), Fr(rng.randint(32, 512), 64)] for b in (ab if how == 'same' else [])]
                pth = os.path.join(d, sid + '.antitargetcoverage.cnn')
                write_cnn_gc(pth, arows, (agcs[sid] if agcs else None))
                an.append(pth)
        rng.shuffle(tn)
        seqs, fa = None, None
        if mode == 'fasta':
            seqs = fasta_for(rng, [tuple(b) for b in tb + ab], short=True)
            fa = os.path.join(d, 'g.fa')
            write_fasta(fa, seqs)
        case = {'mode': mode, 'targets': tb, 'antis': ab, 'how': how, 'ids': ids, 'do_gc': do_gc, 'do_rmask': do_rmask,
                'seqs': seqs, 'tgc': None if not tgcs else [float(x) for x in tgcs[ids[0]]],
                'agc': None if not (agcs and ab) else [float(x) for x in agcs[ids[0]]]}
        try:
            ref = reference.do_reference(tn, an, fa, False, None, True, do_gc, False, do_rmask)
            got = table_rows(ref, ('gc', 'rmask'))
        except Exception as e:  # noqa
            got = Err(err_kind(e) + ':' + str(e)[:80])
        runs.append((case, got))
    def minput(c):
        fa = None if c['seqs'] is None else [[k, v] for k, v in c['seqs'].items()]
        return [fa, c['do_gc'], c['do_rmask'], [list(b) for b in c['targets']], [list(b) for b in c['antis']],
                None if c['tgc'] is None else [Fr(x) for x in c['tgc']], None if c['agc'] is None else [Fr(x) for x in c['agc']]]
    mods = vlib.model_batch('c05_pool_gc', [minput(c) for c, _ in runs])
    for (case, got), mod in zip(runs, mods):
        jc = {k: v for k, v in case.items() if k != 'seqs'}
        jc['seqs'] = None if case['seqs'] is None else {k: v[:400] for k, v in case['seqs'].items()}
        ck.count(['poolgc', jc], nontrivial=True, cls='poolgc:%s:%s' % (case['mode'], case['how']))
        if isinstance(got, Err):
            ck.violation('do_reference raised on a valid cohort (gc / rmask stream)', jc, code=got, expected='a table', clause='C05_bins')
            continue
        # direct oracle
        anti_keys = {tuple(b[:3]) for b in case['antis']}
        exp = []
        for r in got:
            key = tuple(r[:3])
            if case['mode'] == 'fasta':
                sub = case['seqs'][r[0]][r[1]:r[2]]
                g, m = gc_oracle(sub)
                eg = g if case['do_gc'] else None
                em = (m if key in anti_keys else 'nan') if (case['do_rmask'] and case['antis']) else None
            else:
                col = case['agc'] if key in anti_keys else case['tgc']
                rows = case['antis'] if key in anti_keys else case['targets']
                has_any = case['do_gc'] and (case['tgc'] is not None or case['agc'] is not None)
                if not has_any:
                    eg = None
                elif col is None:
                    eg = 'nan'
                else:
                    eg = Fr(col[[tuple(b[:3]) for b in rows].index(key)])
                em = None
            exp.append((eg, em))
        def same(code, e):
            if e is None:
                return code is None
            if e == 'nan':
                return code is not None and code != code
            return code is not None and code == code and vlib.close(code, e)
        bad = [(r, e) for r, e in zip(got, exp) if not (same(r[4], e[0]) and same(r[5], e[1]))]
        if bad:
            r, e = bad[0]
            ck.violation('gc / rmask column of the pooled reference is not the G+C / lowercase fraction of the bin (FASTA) or the '
                         'first file\'s gc value (no FASTA)', jc, code=r, expected=[None if x is None else (x if x == 'nan' else float(x)) for x in e],
                         clause='C05_pooled_gc_rmask' if case['mode'] == 'fasta' else 'C05_pooled_gc_first_file')
            continue
        # model
        if isinstance(mod, Err) or len(mod) != 3 or len(mod[2]) != len(got):
            ck.tie_break('model pool_gc differs from the code', jc, code=got[:3], model=repr(mod)[:300])
            continue
        hg, hr, mrows = mod
        ok = (hg == any(r[4] is not None for r in got) or not got) and (hr == any(r[5] is not None for r in got) or not got)
        for r, m in zip(got, mrows):
            if tuple(r[:4]) != tuple(m[:4]):
                ok = False
            for cv, mv, has in ((r[4], m[4], hg), (r[5], m[5], hr)):
                if not has:
                    ok = ok and cv is None
                elif mv is None:
                    ok = ok and cv is not None and cv != cv
                else:
                    ok = ok and cv is not None and cv == cv and vlib.close(cv, mv)
        if not ok:
            ck.tie_break('model pool_gc differs from the code', jc, code=got[:4], model=repr(mod)[:400])


# ----------------------------------------------------------------------------
# estimator vectors (the two descriptives functions alone)

def gen_column(rng):
    k = rng.choice([1, 2, 2, 3, 4, 5, 6, 8, 9])
    mode = rng.random()
    base = grid(rng, -2, 2)
    if mode < 0.2:
        vals = [base] * k                                  # depth-only column
    elif mode < 0.4:
        vals = [base + Fr(rng.randint(-3, 3), 1024) for _ in range(k)]
    elif mode < 0.5:
        h = Fr(rng.randint(1, 900), 1024)                  # symmetric about 0 (cancelling deviations)
        vals = [v for j in range(1, k // 2 + 2) for v in (h * j, -h * j)]
    elif mode < 0.6:
        vals = [base + Fr(rng.randint(-1024, 1024), 1048576) for _ in range(k)]    # inside epsilon
    else:
        sd = rng.choice([16, 100, 400])
        vals = [base + Fr(rng.randint(-sd, sd), 1024) for _ in range(k)]
        if rng.random() < 0.4 and vals:
            vals[rng.randrange(len(vals))] += rng.choice([-1, 1]) * Fr(rng.randint(1024, 8192), 1024)
    flat = rng.choice([Fr(0), Fr(0), Fr(-1)])
    return [flat] + vals


def check_columns(ck, cols, cls):
    from cnvlib import descriptives
    import numpy as np
    cheap = [i for i, c in enumerate(cols) if model_cost(c) <= 0.3]
    mods = [None] * len(cols)
    for i, r in zip(cheap, vlib.model_batch_parallel('c05_consensus', [[Fr(x) for x in cols[i]] for i in cheap])):
        mods[i] = r
    mid = [i for i, c in enumerate(cols) if 0.3 < model_cost(c) <= 3][:(4 if ck.tier == 'quick' else 64)]
    for i, r in zip(mid, run_models('c05_consensus', [[Fr(x) for x in cols[i]] for i in mid], timeout=8 if ck.tier == 'quick' else 60)):
        mods[i] = r
    # Spec/Biweight.v is plain (unreduced) rational arithmetic: tiny columns only
    small = [i for i, c in enumerate(cols) if len(c) <= 3 and float_iters(c) <= 1 and
             (len(set(c)) <= 2 or all(Fr(x).denominator <= 8 for x in c))][:24]
    specs = {i: r for i, r in zip(small, run_models('c05_spec_consensus', [[Fr(x) for x in cols[i]] for i in small], timeout=3))
             if r is not None}
    for i, (col, m) in enumerate(zip(cols, mods)):
        a = np.array([float(x) for x in col])
        loc = float(descriptives.biweight_location(a))
        spr = float(descriptives.biweight_midvariance(a, initial=loc))
        eloc, m1 = bw_location(col)
        evar, m2 = bw_midvar_sq(col, eloc)
        ck.count(['column', [float(x) for x in col]], nontrivial=len(set(col)) > 1, cls='column:' + cls)
        if i in specs:
            s = specs[i]
            if isinstance(s, Err) or s[0] != eloc or (evar is not None and s[1] != evar):
                raise RuntimeError('Coq Spec/Biweight.v disagrees with the python oracle on %r: %r vs %r' % (col, s, (eloc, evar)))
        if min(m1, m2) < Fr(1, 10 ** 7):
            ck.float_ambiguous += 1
            continue
        if not vlib.close(loc, eloc) or not close_sqrt(spr, evar):
            ck.violation('biweight location / midvariance differ from the published formulas', {'column': [float(x) for x in col]},
                         code=[loc, spr], expected=[float(eloc), None if evar is None else math.sqrt(float(evar))],
                         clause='C05_estimator')
        elif m is None:
            ck.cls('column:model-skipped-exact-arithmetic-too-costly')
        elif isinstance(m, Err) or not vlib.close(loc, m[0]) or not close_sqrt(spr, m[1]):
            ck.tie_break('model consensus differs from the code', {'column': [float(x) for x in col]}, code=[loc, spr], model=repr(m))


# ----------------------------------------------------------------------------
# depth-only cohorts WITH a bias correction on, and the sample sex given on the command line

def check_depth_only_corrected(ck, scratch, n):
    """Normals that differ only in sequencing depth give spread 0 and the same log2 whatever their number -- also when
    the edge correction is on and many bins share the same covariate (equal-sized, well separated tiles: the tie order
    inside the rolling median then comes from the seeded shuffle, which must be the same for every sample)."""
    from cnvlib import reference
    rng = ck.rng
    for i in range(n):
        bins = []
        for c in ('chr1', 'chr2', 'chr5'):
            pos = 10000
            for j in range(rng.randint(30, 45)):
                bins.append((c, pos, pos + 200, 'G%s_%d' % (c[3:], j // 4)))
                pos += 200 + 5000
        prof = [Fr(rng.randint(-40, 40), 64) for _ in bins]
        shifts = [Fr(rng.randint(-96, 96), 64) for _ in range(4)]
        res = {}
        for k in (2, 4):
            d = os.path.join(scratch, 'depthcorr%d_%d' % (i, k))
            os.makedirs(d, exist_ok=True)
            tn = []
            for si in range(k):
                rows = [[b[0], b[1], b[2], b[3], a + shifts[si], Fr(100)] for b, a in zip(bins, prof)]
                pth = os.path.join(d, 'n%d.targetcoverage.cnn' % si)
                write_cnn(pth, rows)
                tn.append(pth)
            try:
                ref = reference.do_reference(tn, None, None, False, None, True, False, True, False)
                res[k] = table_rows(ref, ('log2', 'spread'))
            except Exception as e:  # noqa
                res[k] = Err(err_kind(e) + ':' + str(e)[:80])
        case = {'stage': 'depth-only cohort, edge correction on', 'bins': '3 chromosomes of equal-sized isolated tiles (%d bins)' % len(bins),
                'depth_shifts': [float(x) for x in shifts]}
        ck.count(['depthcorr', i], nontrivial=True, cls='depth-only:corrected')
        if isinstance(res[2], Err) or isinstance(res[4], Err):
            ck.violation('do_reference raised on a depth-only cohort with the edge correction on', case, code=repr(res), clause='C05_depth_only')
            continue
        worst = max(abs(r[5]) for r in res[2] + res[4])
        delta = max(abs(a[4] - b[4]) for a, b in zip(res[2], res[4]))
        if worst > 1e-9 or delta > 1e-9:
            ck.violation('normals differing only in depth do not give spread 0 / the same log2 when the edge correction is on '
                         '(max spread %.3g, max log2 difference between 2 and 4 copies %.3g)' % (worst, delta), case,
                         code={'max_spread': worst, 'max_log2_delta': delta}, expected='0 (to 1e-9)', clause='C05_depth_only (corrections on)')


def check_cli_sample_sex(ck, scratch, n):
    """`cnvkit.py reference -x <sex>`: every spelling the parser accepts means what the API's female_samples
    means (female: f, female, Female, x; male: y, m, male, Male)."""
    import subprocess
    from cnvlib import reference, commands
    from skgenome import tabio
    rng = ck.rng
    # the choices the argument parser accepts
    spellings = [('f', True), ('female', True), ('Female', True), ('x', True), ('y', False), ('m', False),
                 ('male', False), ('Male', False)]
    for i in range(n):
        case0, meta = gen_cohort(rng, nbins=24, noise=0, k=2, build=None, antis='none', mixed=False, with_low=False)
        tn, an = write_files(case0, scratch, 'clisex%d' % i)
        for sp, female in rng.sample(spellings, 4):
            out = os.path.join(scratch, 'clisex%d_%s.cnn' % (i, sp))
            argv = ['reference'] + tn + ['-o', out, '-x', sp, '--no-gc', '--no-edge', '--no-rmask'] + (['-y'] if case0['hap'] else [])
            try:
                args = commands.parse_args(argv)
                args.func(args)
                got = table_rows(tabio.read(out, 'tab'), ('log2',))
                api = table_rows(reference.do_reference(tn, None, None, case0['hap'], None, female, False, False, False), ('log2',))
            except (Exception, SystemExit) as e:  # noqa
                ck.violation('reference command failed for -x %s: %s' % (sp, type(e).__name__), {'argv': argv[-8:]}, clause='C05_sex_levels')
                continue
            ck.count(['clisex', i, sp], nontrivial=True, cls='cli:sample-sex')
            bad = [(a, b) for a, b in zip(got, api) if a[:3] != b[:3] or abs(a[4] - b[4]) > 1e-5]
            if len(got) != len(api) or bad:
                ck.violation('`reference -x %s` does not build the reference of a %s cohort' % (sp, 'female' if female else 'male'),
                             {'spelling': sp, 'haploid_x_reference': case0['hap'], 'targets': [f['id'] for f in case0['targets']]},
                             code=bad[:3], expected='the table of do_reference(female_samples=%r)' % female, clause='C05_sex_levels (command line)')


# noise clauses (monitored only): corrections on, realistic sex-chromosome share

def check_noisy(ck, scratch, n):
    import numpy as np
    rng = ck.rng
    bad = 0
    for i in range(n):
        case, meta = gen_cohort(rng, nbins=rng.randint(150, 260), noise=rng.choice([20, 50]), k=rng.randint(3, 8),
                                build=None, antis=rng.choice(['none', 'same']), sex_share=0.08, flat_sex_profile=True,
                                with_low=False, with_y=True, flat_profile=True)
        # flat baseline: the corrections respond to bin composition, the clause is about levels
        for f in case['targets'] + (case['antis'] or []):
            f['with_depth'] = True
        corr = rng.random() < 0.6
        fa = None
        if corr:
            allb = [tuple(r[:4]) for r in case['targets'][0]['rows']] + [tuple(r[:4]) for r in ((case['antis'] or [{'rows': []}])[0]['rows'])]
            # composition independent of position: the window corrections respond to bin composition
            seqs = fasta_for(rng, allb, regional=False)
            fa = os.path.join(scratch, 'noisy%d.fa' % i)
            write_fasta(fa, seqs)
        got, sexes = run_code(case, scratch, 'noisy%d' % i, fa=fa, corr=corr)
        jc = jcase(case)
        ck.count(['noisy', i, corr], nontrivial=True, cls='noisy:%s' % ('corr' if corr else 'nocorr'))
        if isinstance(got, Err):
            ck.violation('do_reference raised on a valid noisy cohort', jc, code=got, expected='a table', clause='C05_bins')
            continue
        sd = sexes_dict(case, sexes)
        if any(bool(sd.get(k)) != v for k, v in meta['sex'].items()):
            ck.cls('noisy:sex-not-as-generated')
            continue
        # levels relative to the autosomal baseline of the same block (targets / antitargets)
        for blockname, isanti in (('targets', False), ('antitargets', True)):
            rows = [r for r in got if (r[3] == 'Antitarget') == isanti]
            auto = [r[4] for r in rows if is_auto(r[0])]
            xs = [r[4] for r in rows if r[0].endswith('X')]
            ys = [r[4] for r in rows if r[0].endswith('Y')]
            if not auto:
                continue
            base = float(np.median(auto))
            if xs and len(xs) >= 3:
                dx = float(np.median(xs)) - base
                ex = -1.0 if case['hap'] else 0.0
                if abs(dx - ex) > 0.15:
                    bad += 1
                    ck.violation('chrX level of the pooled reference is not at the reference sex level (tolerance 0.15)', jc,
                                 code={'block': blockname, 'x_minus_auto': dx, 'corrections': corr}, expected=ex, clause='C05_sex_levels~')
            if ys and len(ys) >= 2:
                dy = float(np.median(ys)) - base
                if abs(dy + 1.0) > 0.15:
                    bad += 1
                    ck.violation('chrY level of the pooled reference is not -1 (tolerance 0.15)', jc,
                                 code={'block': blockname, 'y_minus_auto': dy, 'corrections': corr}, expected=-1.0, clause='C05_sex_levels~')
            sp = [r[6] for r in rows if is_auto(r[0])]
            if sp and float(np.median(sp)) > 0.15:
                bad += 1
                ck.violation('spread of a low-noise cohort is not ~ 0 (tolerance 0.15)', jc,
                             code={'block': blockname, 'median_spread': float(np.median(sp))}, expected='<= 0.15', clause='C05_depth_only~')
    return bad


# ----------------------------------------------------------------------------
# bounded noise: the deterministic form of the noise clauses (Props/C05.v, C05_bounded_noise_*), corrections off.
# Every file is profile + its own constant, up to eps (uniform on the 1/1024 grid) in every bin; X / Y at their
# ideal levels up to eps.  Then, with R = max(2 eps, |flat - ideal|) per bin (2 eps when the profile is centred at
# the flat level there):  |reference log2 - ideal| <= R  and  spread^2 <= 62 R^2  (= 248 eps^2 for R = 2 eps).

NOISE_EPS = [Fr(1, 64), Fr(1, 16), Fr(1, 8)]


def bounded_truth(meta):
    """what a generated cohort is noise around: sexes, and per bin the profile relative to its block's centre"""
    rel = [[k[0], k[1], k[2], k[3], float(a - meta['tcentre'])] for k, a in meta['tprofile'].items()]
    if 'aprofile' in meta:
        rel += [[k[0], k[1], k[2], k[3], float(a - meta['acentre'])] for k, a in meta['aprofile'].items()]
    return {'sex': {k: bool(v) for k, v in meta['sex'].items()}, 'rel': rel}


def bounded_blocks(case):
    out = []
    for files, skip_low in ((case['targets'], True), (case.get('antis') or [], False)):
        if files:
            first = sort_rows(sorted(files, key=lambda f: f['id'])[0]['rows'])
            if first:
                out.append((files, first, skip_low))
    return out


def bounded_kind(first, build, r):
    """'auto' (a bin the centre is taken over), 'x', 'y' or None (PAR-Y with a build, other contigs)"""
    if is_auto(r[0]) or (build is not None and r[0] == labels(first)[0] and in_par(build, 'X', r)):
        return 'auto'
    if x_mask(first, build, r):
        return 'x'
    if y_mask(first, build, r):
        return 'y'
    return None


def bounded_precondition(case, eps, truth):
    """the hypotheses of the theorems on the INPUT: per file one constant d with every constrained bin within eps of
    its ideal raw level (autosomes: profile + d; X: profile + d - [male]; Y of males: profile + d - 1)"""
    rel = {(r[0], int(r[1]), int(r[2]), r[3]): Fr(float(r[4])) for r in truth['rel']}
    for files, first, skip_low in bounded_blocks(case):
        if not any(is_auto(r[0]) for r in first):
            continue
        for f in files:
            female = bool(truth['sex'][f['id']])
            lo, hi = None, None
            for r in f['rows']:
                if skip_low and (Fr(r[4]) < -15 or (f.get('with_depth', True) and r[5] == 0)):
                    return 'a null-coverage bin'        # no_low: the centring would drop it
                kind = bounded_kind(first, case['build'], r)
                if kind is None or (kind == 'y' and female):
                    continue
                ideal = rel[tuple(r[:4])] - (1 if (kind == 'y' or (kind == 'x' and not female)) else 0)
                d = Fr(r[4]) - ideal
                lo = d - eps if lo is None else max(lo, d - eps)
                hi = d + eps if hi is None else min(hi, d + eps)
            if lo is not None and lo > hi:
                return 'file %s is not within eps of profile + constant' % f['id']
    return None


def check_bounded_case(ck, scratch, tag, case, eps, truth, cls, strict=True, stats=None):
    eps = Fr(eps)
    why = bounded_precondition(case, eps, truth)
    if why is not None:
        if strict:
            raise RuntimeError('bounded-noise generator left the precondition of the theorems: ' + why)
        ck.cls('bounded:precondition-not-met')
        return
    got, sexes = run_code(case, scratch, tag)
    jc = dict(jcase(case), kind='bounded_noise', eps=float(eps), truth=truth)
    ck.count(['bounded', jc], nontrivial=True, cls=cls)
    if isinstance(got, Err):
        ck.violation('do_reference raised on a valid bounded-noise cohort', jc, code=got, expected='a table', clause='C05_bins')
        return
    sd = sexes_dict(case, sexes)
    if any(bool(sd.get(i)) != v for i, v in truth['sex'].items()):
        ck.cls('bounded:sex-not-as-generated')
        return
    rel = {(r[0], int(r[1]), int(r[2]), r[3]): Fr(float(r[4])) for r in truth['rel']}
    build, hap = case['build'], case['hap']
    allf, allm = all(truth['sex'].values()), not any(truth['sex'].values())
    blocks = bounded_blocks(case)
    ideal = {}            # key -> (kind, ideal value, flat level) or ('yf', -1, -1): exact
    for files, first, skip_low in blocks:
        if not any(is_auto(r[0]) for r in first):
            continue
        for r in first:
            key = tuple(r[:4])
            kind = bounded_kind(first, build, r)
            if kind is None or key not in rel:
                continue
            a = rel[key]
            fl = flat_level(first, hap, build, r)
            if kind == 'auto':
                ideal[key] = ('auto', a + fl, fl)
            elif kind == 'x':
                ideal[key] = ('x', a - (1 if hap else 0), fl)
            elif allf:
                ideal[key] = ('yf', Fr(-1), fl)
            elif allm or a == 0:
                ideal[key] = ('y', a - 1, fl)
            # both sexes and a Y baseline off the centre: C05_sex_levels_y_mixed_refuted, no clause
    # the first conjunct of the theorems, on the exact all_logr columns (independent oracle): every file's centred,
    # shifted value is within 2 eps of the ideal value
    cols = oracle_columns(case, sd)
    for key, col, _ in (cols or []):
        if key in ideal:
            kind, v, fl = ideal[key]
            if col[0] != fl or any(abs(x - v) > (0 if kind == 'yf' else 2 * eps) for x in col[1:]):
                raise RuntimeError('bounded-noise theorem, first conjunct, fails on the exact column of %r: %r vs %r +- %r'
                                   % (key, [float(x) for x in col], float(v), float(2 * eps)))
    rows = [r for r in got if tuple(r[:4]) in ideal]
    if not rows:
        ck.cls('bounded:no-constrained-bin')
        return
    bounds = vlib.model_batch('c05_noise_bounds', [[eps, ideal[tuple(r[:4])][2], ideal[tuple(r[:4])][1]] for r in rows])
    for r, b in zip(rows, bounds):
        kind, v, fl = ideal[tuple(r[:4])]
        if isinstance(b, Err) or b[0] != max(2 * eps, abs(fl - v)) or b[1] * 4 != b[2]:
            raise RuntimeError('Coq Spec/Reference.v noise_radius / constants disagree with the harness: %r' % (b,))
        R, K = b[0], b[1]
        err, var = abs(Fr(r[4]) - v), Fr(r[6]) ** 2
        tol = Fr(1, 10 ** 9)
        if kind == 'yf':
            if err > tol or abs(r[6]) > 1e-9:
                ck.violation('Y bin of an all-female cohort is not exactly -1 with spread 0 under bounded noise', jc, code=r,
                             expected={'log2': -1.0, 'spread': 0.0}, clause='C05_bounded_noise_sex_y_females')
                return
            continue
        if stats is not None:
            stats['bins'] = stats.get('bins', 0) + 1
            stats['max_err_over_radius'] = max(stats.get('max_err_over_radius', 0.0), float(err / R))
            stats['max_var_over_radius_sq'] = max(stats.get('max_var_over_radius_sq', 0.0), float(var / (R * R)))
            if R == 2 * eps:
                stats['bins_at_2eps'] = stats.get('bins_at_2eps', 0) + 1
                stats['max_var_over_eps_sq'] = max(stats.get('max_var_over_eps_sq', 0.0), float(var / (eps * eps)))
        if err > R + tol:
            ck.violation('reference log2 of a bounded-noise cohort is farther from the ideal level than max(2 eps, |flat - ideal|)', jc,
                         code=r, expected={'ideal': float(v), 'radius': float(R), 'eps': float(eps), 'bin_is': kind},
                         clause='C05_bounded_noise_log2' if kind == 'auto' else 'C05_bounded_noise_sex_' + kind)
            return
        if var > K * R * R * (1 + tol):
            ck.violation('spread^2 of a bounded-noise cohort exceeds %s radius^2' % K, jc,
                         code=r, expected={'radius': float(R), 'spread_sq_at_most': float(K * R * R), 'eps': float(eps)},
                         clause='C05_bounded_noise_spread')
            return
        if R == 2 * eps and 2 * eps <= b[3] and err > b[3] + tol:
            raise RuntimeError('2 eps <= tolerance but the error exceeds the tolerance: inconsistent bounds')
    ck.cls('bounded:bounds-checked')


def check_bounded_noise(ck, scratch, n):
    rng = ck.rng
    stats = {}
    for i in range(n):
        eps = NOISE_EPS[i % 3]
        mode = (i // 3) % 4
        kw = dict(nbins=rng.randint(12, 60), noise=int(eps * 1024), with_low=False)
        if mode == 0:          # profile centred at the flat level everywhere: radius 2 eps in every bin
            kw.update(flat_profile=True, flat_sex_profile=True)
        elif mode == 1:        # one declared sex: Y of all-male / all-female cohorts
            kw.update(mixed=False, with_y=True)
        elif mode == 2:
            kw.update(flat_sex_profile=True, with_y=True, sex_share=0.2)
        case, meta = gen_cohort(rng, **kw)
        if mode == 1:
            case['female_samples'] = all(meta['sex'].values())
        check_bounded_case(ck, scratch, 'bounded%d' % i, case, eps, bounded_truth(meta),
                           'bounded:eps=1/%d' % eps.denominator, stats=stats)
    ck.extra['bounded_noise_observed'] = stats


# ----------------------------------------------------------------------------

def load_corpus():
    p = os.path.join(HERE, '..', 'corpus', 'c05.json')
    if not os.path.exists(p):
        return {}
    return json.load(open(p))


def run(ck, scratch):
    logging.disable(logging.CRITICAL)
    quick = ck.tier == 'quick'
    rng = ck.rng
    corpus = load_corpus()
    ck.rule = ('cohorts: 1..8 coverage files written to disk (.targetcoverage.cnn / .antitargetcoverage.cnn, chr/plain naming, '
               'optional PAR build, male/female mix, per-sample depth shift, 0 or 1/1024-grid noise, null-coverage bins, '
               'none/equal/empty antitargets, shuffled file and row order) -> do_reference with corrections off vs the direct '
               'oracle (independent Fraction implementation of bins, centring, sex shift, published biweight formulas) and '
               'vs the Coq model; malformed stream: one file with a changed/dropped/duplicated bin, unequal file counts; '
               'flat references from BED files with/without FASTA; gc/rmask on random strings and FASTA bins; the gc/rmask columns of '
               'pooled references with a FASTA (sequences shorter than a bin included) and without one (gc column of the first file); single columns '
               'for the two estimators; bounded-noise cohorts (uniform noise in [-eps, eps] on the 1/1024 grid, eps in 1/64, 1/16, 1/8, '
               'flat / random profiles, given / inferred sexes) -> the exact bounds of the C05_bounded_noise theorems as direct oracle '
               '(|ref - ideal| <= max(2 eps, |flat - ideal|), spread^2 <= 62 radius^2, constants read from the Coq spec); '
               'non-trivial = >= 2 samples and a table produced / a column with two distinct values')
    ck.unproved_remainder = [
        'noise clauses ("spread ~ 0", X/Y levels "~ -1 / 0 / -1"): PROVED for bounded noise with corrections off '
        '(C05_bounded_noise_*: every file within eps of profile + constant => every centred value within 2 eps, reference '
        'log2 within R = max(2 eps, |flat - ideal|) of the ideal level -- 2 eps where the centred profile sits on the '
        'flat level, in particular X at -1 / 0 and Y at -1 -- and spread^2 <= 62 R^2 = 248 eps^2; tolerance 0.15 = '
        '2 eps at eps = 0.075) and checked on the code by the bounded:* classes; what is still only SAMPLED: unbounded '
        '(Gaussian-like) noise and the corrections-on pipeline (classes noisy:*, tolerance 0.15 at a sex-chromosome '
        'share <= 10%), no theorem',
        'bounded noise: the log2 radius uses only the range property of the biweight location, so in a bin whose '
        'centred profile a is off the flat level the proved radius is max(2 eps, |a|), not 2 eps (that the location of '
        '>= 2 agreeing samples ignores a distant flat value is not proved under noise; exact without noise: C05_depth_only); '
        'the spread constant 62 per squared radius is not sharp (two regimes on the scale s: all u^2 <= 8/25, or the '
        'numerator paired termwise with the denominator, whose lower bound counts the points within one MAD of the centre; '
        'a lower bound 400/361 is proved by example; the largest ratio seen on the code is recorded in '
        'coverage.bounded_noise_observed), so "spread <= 0.15" follows from the theorem only for eps <= 1/105; mixed-sex Y '
        'bins with a baseline off the autosomal centre have no level clause (C05_sex_levels_y_mixed_refuted)',
        'sqrt: spread is compared squared (sqrt is a Section oracle in the proofs)',
        'sample sexes, when inferred, are the code\'s own guess_xx results (oracle; C15)',
        'corrections on (center_by_window): only bins, gc/rmask columns and the level clauses are checked (C04 owns the windows)',
        'C05_depth_only / C05_sex_levels exclude a flat value strictly within epsilon (1e-3) of the common sample value '
        '(it is not masked and pulls the location by < epsilon; spread then tiny, not 0); C05_sex_levels_y is proved for Y '
        'bins whose baseline is the autosomal centre; for another baseline a: all-male blocks give a - 1 (C05_sex_levels_y_males), '
        'all-female blocks -1 (C05_sex_levels_y_females), mixed blocks have a non-constant column (C05_sex_levels_y_mixed_refuted: '
        'sharp witness), the general mixed column is only covered by C05_estimator',
        'C05_pooled_gc_rmask: in a pooled reference rmask exists for antitarget bins only (target bins hold NaN: the target block is '
        'loaded with fix_rmask=False) -- proved of the model and compared with the code; the property text speaks of "each bin"',
        'exact evaluation of the extracted model costs too much once the biweight iteration needs >= 2-3 steps on unreduced '
        'rationals: those cohorts/columns (classes *:model-skipped-*) are compared with the independent oracle only '
        '(published formulas in Fractions, centre carried with 220 fractional bits); the all_logr columns are compared '
        'exactly with the model for every cohort',
    ]
    ck.explanation = ('Model/Reference.v is proved (Props/C05.v, no axioms) to have exactly the input bins, to '
                      'reject differing files, to give per bin the published biweight location / midvariance of flat :: '
                      'centred-and-shifted samples, to reproduce depth-only cohorts with spread 0, to put X/Y at the '
                      'reference-sex levels for noise-free cohorts and within explicit bounds (2 eps / 248 eps^2) for cohorts with '
                      'noise bounded by eps, the flat levels (outside the open PAR-Y finding, whose '
                      'refutation is proved) and gc/rmask as unambiguous-base fractions; the correspondence ties that model '
                      'to do_reference / do_reference_flat / calculate_gc_lo on generated cohorts, every code output is also '
                      'checked against an independent oracle of each clause')
    if os.environ.get('C05_STREAMS') == 'bounded':
        # development aid (mutation sanity of the bounded-noise oracle alone); never set by ./check
        for j, c in enumerate(corpus.get('bounded', [])):
            check_bounded_case(ck, scratch, 'bcorpus%d' % j, unj(c['case']), Fr(c['eps']), c['truth'], 'bounded:corpus')
        check_bounded_noise(ck, scratch, 12 if quick else 180)
        return
    # ---- corpus first
    pool_corpus = [(unj(c['case']), None) for c in corpus.get('pool', [])]
    check_pool_cases(ck, scratch, pool_corpus, 'corpus')
    for c in corpus.get('pool', []):
        if 'expect' in c:
            got, _ = run_code(unj(c['case']), scratch, 'corpusx')
            for e in c['expect']:
                row = [r for r in got if r[0] == e['chrom'] and r[1] == e['start']] if not isinstance(got, Err) else []
                if not row or abs(row[0][4] - e['log2']) > 1e-6 or abs(row[0][6] - e['spread']) > 1e-6:
                    ck.violation('corpus regression: %s' % c.get('what', ''), c['case'], code=row, expected=e, clause='C05_estimator')
    for c in corpus.get('reject', []):
        case = unj(c['case'])
        got, sexes = run_code(case, scratch, 'corpusr')
        ck.count(['reject-corpus', c['case']], nontrivial=True, cls='reject:corpus')
        if got != Err(c['error']):
            ck.violation('corpus regression: %s' % c.get('what', ''), c['case'], code=got, expected=c['error'], clause='C05_bins')
    if corpus.get('columns'):
        check_columns(ck, [[Fr(float(x)) for x in col] for col in corpus['columns']], 'corpus')
    # canonical case of the open finding (flat, male reference, PAR build, bin inside PAR1Y)
    kf = ck.known_match(SIG_PARY)
    canon = {'hap': True, 'build': 'grch37', 'targets': [('chr1', 100, 200, 'A'), ('chrX', 3000000, 3000100, 'B'),
                                                          ('chrY', 20000, 20100, 'C'), ('chrY', 5000000, 5000100, 'D')],
             'antis': None, 'seqs': None}
    hit = check_flat_case(ck, scratch, 'canon', canon, canonical=True)
    ck.extra['open_finding_canonical_case_still_fails'] = bool(hit)
    # ---- estimator columns
    ncol = 400 if quick else 8000
    check_columns(ck, [gen_column(rng) for _ in range(ncol)], 'rand')
    # ---- exact cohorts
    ncoh = 36 if quick else 520
    cases = []
    for i in range(ncoh):
        nb = rng.randint(8, 40) if i % 3 else rng.randint(60, 110 if quick else 200)
        cases.append(gen_cohort(rng, nbins=nb))
    # given sexes (all declared female / male), consistent cohorts
    for i in range(8 if quick else 80):
        case, meta = gen_cohort(rng, mixed=False)
        fs = all(meta['sex'].values())
        case['female_samples'] = fs
        cases.append((case, meta))
    check_pool_cases(ck, scratch, cases, 'valid')
    # ---- malformed stream
    mal = []
    for i in range(14 if quick else 200):
        case, meta = gen_cohort(rng, k=rng.randint(2, 5), nbins=rng.randint(5, 20),
                                antis=rng.choice(['none', 'same']))
        r = rng.random()
        if r < 0.7:
            how = mutate_bins(rng, case)
            if how is None:
                continue
        elif r < 0.85 and case.get('antis'):
            del case['antis'][0]                      # unequal number of files
            case['unequal'] = True
        else:
            continue
        mal.append(case)
    check_malformed(ck, scratch, mal)
    # ---- flat references, gc / rmask
    for i in range(30 if quick else 500):
        check_flat_case(ck, scratch, 'flat%d' % i, gen_flat(rng, with_fa=(i % 2 == 0)))
    check_gc_strings(ck, 300 if quick else 2500)
    check_pool_gc(ck, scratch, 18 if quick else 240)
    # ---- noise clauses
    check_depth_only_corrected(ck, scratch, 2 if quick else 12)
    check_cli_sample_sex(ck, scratch, 2 if quick else 10)
    check_noisy(ck, scratch, 5 if quick else 60)
    # ---- bounded noise: the deterministic theorems, checked on the code
    for j, c in enumerate(corpus.get('bounded', [])):
        check_bounded_case(ck, scratch, 'bcorpus%d' % j, unj(c['case']), Fr(c['eps']), c['truth'], 'bounded:corpus')
    check_bounded_noise(ck, scratch, 12 if quick else 180)


def check_malformed(ck, scratch, cases):
    runs = []
    for idx, case in enumerate(cases):
        got, sexes = run_code(case, scratch, 'mal%d' % idx)
        runs.append((case, got, sexes))
    mods = vlib.model_batch('c05_pool', [model_input(c, s) for c, _, s in runs])
    for (case, got, sexes), mod in zip(runs, mods):
        jc = jcase(case)
        ck.count(['malformed', jc], nontrivial=True, cls='reject:' + ('unequal' if case.get('unequal') else 'bins'))
        if not isinstance(got, Err):
            ck.violation('files whose bins differ (or unequal numbers of target and antitarget files) were accepted', jc,
                         code='table of %d rows' % len(got), expected='rejected', clause='C05_bins')
        elif got != mod:
            ck.tie_break('model and code reject differently', jc, code=got, model=repr(mod)[:200])


def replay(ck, body):
    """re-run one saved case against the current code; exit 1 if it still fails its oracle"""
    import tempfile, shutil
    case = body.get('case') or {}
    d = tempfile.mkdtemp(prefix='c05replay', dir=vlib.BUILD if os.path.isdir(vlib.BUILD) else None)
    try:
        before = len(ck.violations)
        if case.get('kind') == 'flat':
            fc = {'hap': case['hap'], 'build': case['build'], 'targets': [tuple(x) for x in case['targets']],
                  'antis': None if case['antis'] is None else [tuple(x) for x in case['antis']], 'seqs': None}
            hit = check_flat_case(ck, d, 'replay', fc, canonical=False)
            bad = len(ck.violations) > before or bool(hit)
        elif case.get('kind') == 'bounded_noise':
            check_bounded_case(ck, d, 'replay', unj({k: v for k, v in case.items() if k not in ('kind', 'eps', 'truth')}),
                               Fr(case['eps']), case['truth'], 'bounded:replay', strict=False)
            bad = len(ck.violations) > before
        elif 'column' in case:
            check_columns(ck, [[Fr(float(x)) for x in case['column']]], 'replay')
            bad = len(ck.violations) > before
        elif 'seq' in case:
            from cnvlib import reference
            g, lo = reference.calculate_gc_lo(case['seq'])
            eg, el = gc_oracle(case['seq'])
            print('calculate_gc_lo ->', g, lo, 'expected', float(eg), float(el))
            bad = not vlib.close(float(g), eg) or not vlib.close(float(lo), el)
        elif 'targets' in case:
            c = unj(case)
            if case.get('unequal') or oracle_columns(c, {}) is None:
                check_malformed(ck, d, [c])
            else:
                check_pool_cases(ck, d, [(c, None)], 'replay')
            bad = len(ck.violations) > before
        else:
            print('unknown replay case')
            return 2
        print('still failing' if bad else 'passes now')
        return 1 if bad else 0
    finally:
        shutil.rmtree(d, ignore_errors=True)
