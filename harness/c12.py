"""C12 -- target and antitarget bins partition exactly the space they should.

Correspondence: cnvlib.target.do_target / shorten_labels and
cnvlib.antitarget.do_antitarget (plus the CLI helpers commands._cmd_target /
_cmd_antitarget on BED files) against the extracted Coq models
(Model/Target.v, Model/Antitarget.v, composing the C06 interval models).

Direct oracle: independent base-pair bitmaps (one byte per base, plain Python)
built from the INPUT tables and the literal numbers of the property text
(500-base margin, 1.5 x average, default minimum = 2 * floor(avg / 32)),
evaluated on the CODE's output: partition, margin, inside-access, sizes,
completeness, contig rule.  No model code is involved in the oracle."""
import os, re, sys, json, itertools, multiprocessing, subprocess
from fractions import Fraction
import vlib
from vlib import Err

LEVEL = 'proof'

# literal numbers of the property text
MARGIN = 500               # "shrunk by the 500-base margin", "within 500 bases of any target"
SIZE_FACTOR = Fraction(3, 2)   # "at most 1.5x the average size"
NAME = 'Antitarget'        # "bins named Antitarget"
TELOMERE = 150000          # guessed chromosome extents start here (antitarget.get_antitargets)
KNOWN_MIN_SIG = 'c12-anti-bins-below-min-size'
NAME_LENGTH_SIG = 'c12-no-canonical-target-name-length-rule'

# "canonically named": the exclusion list of antitarget.re_noncanonical, restated
RE_NONCANON = re.compile(r'^chrEBV$|^NC|_random$|Un_|^HLA\-|_alt$|hap\d$|chrM|MT')


def canonical(name):
    return RE_NONCANON.search(name) is None


# ----------------------------------------------------------------------------
# running the real code (in worker processes)


def _ga_indexed(rows, mode):
    """the bait table with a non-default row index, as a caller gets it from filtering (gaps: a sentinel row
    before every row, masked away again) or re-labelling (permuted labels, same row order)"""
    if mode == 'gaps':
        padded = []
        for r in rows:
            padded.append(('chrSENTINEL', 0, 1, '__sentinel__'))
            padded.append(tuple(r))
        g = _ga(padded)
        return g[g['gene'] != '__sentinel__']
    g = _ga(rows)
    n = len(g)
    g.data.index = [(7 * i + 3) % n if n % 7 else n - 1 - i for i in range(n)]
    return g


def _ga(rows, with_gene=True):
    from skgenome import GenomicArray as GA
    if with_gene:
        cols = ['chromosome', 'start', 'end', 'gene']
        recs = [(r[0], r[1], r[2], r[3]) for r in rows]
    else:
        cols = ['chromosome', 'start', 'end']
        recs = [(r[0], r[1], r[2]) for r in rows]
    return GA.from_rows(recs, columns=cols)


def canon(garr):
    d = garr.data
    genes = d['gene'] if 'gene' in d.columns else [''] * len(d)
    return [[str(c), int(s), int(e), str(g)] for c, s, e, g in zip(d['chromosome'], d['start'], d['end'], genes)]


def _err(e):
    if isinstance(e, ValueError):
        return Err('ValueError')
    if isinstance(e, AssertionError):
        return Err('Assertion')
    if isinstance(e, ZeroDivisionError):
        return Err('ZeroDivisionError')
    return Err('Other:' + type(e).__name__)


def write_bed(path, rows, with_gene=True):
    with open(path, 'w') as fh:
        for r in rows:
            if with_gene:
                fh.write('%s\t%d\t%d\t%s\n' % (r[0], r[1], r[2], r[3]))
            else:
                fh.write('%s\t%d\t%d\n' % (r[0], r[1], r[2]))


def read_bed4(path):
    out = []
    with open(path) as fh:
        for line in fh:
            if not line.strip():
                continue
            f = line.rstrip('\n').split('\t')
            out.append([f[0], int(f[1]), int(f[2]), f[3] if len(f) > 3 else ''])
    return out


def run_job(job):
    """one call of the real code -> canonical rows (or Err); job['kind'] in
    target / antitarget / labels / cli_target / cli_antitarget / target_annot"""
    kind = job['kind']
    try:
        if kind == 'target':
            from cnvlib import target
            b = _ga_indexed(job['baits'], job['index']) if job.get('index') else _ga(job['baits'])
            kw = {}
            if job.get('avg') is not None:
                kw['avg_size'] = job['avg']
            out = target.do_target(b, do_split=job['split'], do_short_names=job.get('short', False), **kw)
            return canon(out)
        if kind == 'target_annot':
            from cnvlib import target
            b = _ga_indexed(job['baits'], job['index']) if job.get('index') else _ga(job['baits'])
            out = target.do_target(b, annotate=job['annot_path'], do_split=job['split'],
                                   do_short_names=job.get('short', False), avg_size=job['avg'])
            return canon(out)
        if kind == 'annot_read':
            from skgenome import tabio
            return canon(tabio.read_auto(job['annot_path']))
        if kind == 'labels':
            from cnvlib import target
            return [str(x) for x in target.shorten_labels(job['labels'])]
        if kind == 'antitarget':
            from cnvlib import antitarget
            t = _ga(job['targets'])
            acc = None if job['access'] is None else _ga(job['access'], with_gene=False)
            if job.get('avg') is None:
                out = antitarget.do_antitarget(t, acc) if job.get('min') is None else \
                    antitarget.do_antitarget(t, acc, min_bin_size=job['min'])
            else:
                out = antitarget.do_antitarget(t, acc, job['avg'], job.get('min'))
            return canon(out)
        if kind == 'cli_target':
            from cnvlib import commands
            import argparse
            args = argparse.Namespace(interval=job['in_path'], annotate=None, short_names=job.get('short', False),
                                      split=job['split'], avg_size=job['avg'], output=job['out_path'])
            commands._cmd_target(args)
            return read_bed4(job['out_path'])
        if kind == 'cli_antitarget':
            from cnvlib import commands
            import argparse
            args = argparse.Namespace(targets=job['in_path'], access=job.get('access_path'), avg_size=job['avg'],
                                      min_size=job.get('min'), output=job['out_path'])
            commands._cmd_antitarget(args)
            return read_bed4(job['out_path'])
        return Err('unknown kind')
    except Exception as e:   # noqa
        return _err(e)


def _init_worker():
    import warnings, logging
    warnings.filterwarnings('ignore')
    logging.disable(logging.CRITICAL)
    import skgenome, cnvlib  # noqa


class Runner:
    def __init__(self, workers):
        self.pool = None
        self.workers = workers
        if workers > 1:
            ctx = multiprocessing.get_context('fork')
            self.pool = ctx.Pool(workers, initializer=_init_worker)

    def map(self, jobs):
        if self.pool is None or len(jobs) < 16:
            return [run_job(j) for j in jobs]
        cs = max(4, min(128, len(jobs) // (self.workers * 8) + 1))
        return self.pool.map(run_job, jobs, chunksize=cs)

    def close(self):
        if self.pool is not None:
            self.pool.close()
            self.pool.join()
            self.pool = None


def sort_table(rows, with_gene=True):
    """the table as GenomicArray.sort leaves it (the readers of C08 always sort): rows are
    generated per chromosome and handed over sorted; this is the precondition of C06/C12"""
    from skgenome import GenomicArray as GA  # noqa
    g = _ga(rows, with_gene)
    g.sort()
    if with_gene:
        return canon(g)
    return [[r[0], r[1], r[2]] for r in canon(g)]


# ----------------------------------------------------------------------------
# direct oracle: bitmaps


def by_chrom(rows):
    d = {}
    for r in rows:
        d.setdefault(r[0], []).append((r[1], r[2]) + tuple(r[3:]))
    return d


def universe(*tables):
    m = 0
    for t in tables:
        for r in t:
            m = max(m, r[1], r[2])
    return m + 2 * MARGIN + 2


def paint(bm, lo, hi, val=1):
    lo = max(lo, 0)
    hi = min(hi, len(bm))
    if hi > lo:
        bm[lo:hi] = (b'\x01' if val else b'\x00') * (hi - lo)


def bitmap(n, ivs):
    bm = bytearray(n)
    for lo, hi in ivs:
        paint(bm, lo, hi)
    return bm


def runs(bm):
    out = []
    pos = 0
    n = len(bm)
    while True:
        s = bm.find(b'\x01', pos)
        if s < 0:
            break
        e = bm.find(b'\x00', s)
        if e < 0:
            e = n
        out.append((s, e))
        pos = e
    return out


def all_set(bm, lo, hi):
    return bm.find(b'\x00', lo, hi) < 0


def none_set(bm, lo, hi):
    return bm.find(b'\x01', lo, hi) < 0


def round_half_even(fr):
    fl = fr.numerator // fr.denominator
    rem = fr - fl
    if rem < Fraction(1, 2):
        return fl
    if rem > Fraction(1, 2):
        return fl + 1
    return fl if fl % 2 == 0 else fl + 1


def float_quotient(span, avg):
    """the code's quotient span / avg_size (one IEEE division) as an exact rational, after checking
    the contract the theorem C12_nbins_float needs: it is a monotone rounding of the exact quotient
    that never crosses a half-integer"""
    q = Fraction(span) / Fraction(avg)
    qf = Fraction(span / avg)
    fl = q.numerator // q.denominator
    for k in (fl - 1, fl, fl + 1):
        h = Fraction(2 * k + 1, 2)
        if (q <= h and not qf <= h) or (h <= q and not h <= qf):
            raise RuntimeError('float quotient crosses a tie: span=%r avg=%r' % (span, avg))
    return q, qf


def is_tie(fr):
    return (2 * fr).denominator == 1 and (2 * fr).numerator % 2 == 1


def nbins_exact(span, avg):
    """(max(1, round_half_even(span / avg)) for the exact rational quotient, ambiguous?) -- ambiguous
    exactly when the float quotient lands on a tie k + 1/2 that the exact quotient is not on
    (C12_nbins_float: in every other case both round to the same integer)"""
    q, qf = float_quotient(span, avg)
    n = max(1, round_half_even(q))
    amb = is_tie(qf) and qf != q
    return n, amb


def nbins_float(span, avg):
    """what the code computes: int(round(span / avg)) or 1, round = half to even of the float quotient"""
    return round_half_even(Fraction(span / avg)) or 1


def check_tiling(bins, s, e, avg, what):
    """bins (sorted (lo, hi)) must cut [s, e) into max(1, round(len / avg)) abutting bins of equal size +-1"""
    span = e - s
    n, amb = nbins_exact(span, avg)
    if not bins or bins[0][0] != s or bins[-1][1] != e or any(a[1] != b[0] for a, b in zip(bins, bins[1:])):
        return '%s %d-%d is not covered by consecutive abutting bins: %r' % (what, s, e, bins[:6])
    ok_n = [n] if not amb else [nbins_float(span, avg)]
    if len(bins) not in ok_n:
        return '%s %d-%d (length %d) is cut into %d bins, expected max(1, round(length/avg)) = %d' % (
            what, s, e, span, len(bins), n)
    k = len(bins)
    for lo, hi in bins:
        if hi <= lo and span >= k:
            return '%s %d-%d has an empty bin %d-%d' % (what, s, e, lo, hi)
        if not (span - k <= k * (hi - lo) <= span + k):
            return '%s %d-%d: bin %d-%d differs by more than one base from length/%d' % (what, s, e, lo, hi, k)
    return None


def sorter_key(label):
    """skgenome.chromsort.sorter_chrom, restated (the property's "genomic order" across chromosomes)"""
    chrom = label[3:] if label.lower().startswith('chr') else label
    if chrom in ('X', 'Y'):
        return (1000, chrom)
    i = 0
    while i < len(chrom) and chrom[i] in '0123456789':
        i += 1
    nums, chars = chrom[:i], chrom[i:]
    n = int(nums) if nums else 0
    if not chars:
        return (n, '')
    if len(chars) == 1:
        return (2000 + n, chars)
    return (3000 + n, chars)


def order_oracle(out, disjoint=True):
    """None or a message: chromosome keys never decrease along the output; when distinct names have
    distinct keys, rows are in genomic order (key, then start; non-overlapping when `disjoint`)"""
    keys = [sorter_key(r[0]) for r in out]
    for a, b, ra, rb in zip(keys, keys[1:], out, out[1:]):
        if a > b:
            return 'chromosome %s (key %r) comes after %s (key %r)' % (rb[0], b, ra[0], a)
    names = set(r[0] for r in out)
    if len(set(sorter_key(c) for c in names)) == len(names):
        for ra, rb in zip(out, out[1:]):
            if ra[0] == rb[0] and (ra[2] > rb[1] if disjoint else ra[1] > rb[1]):
                return 'rows %s:%d-%d and %s:%d-%d are not in genomic order' % (ra[0], ra[1], ra[2], rb[0], rb[1], rb[2])
    return None


def oracle_target(job, out):
    """None, or (clause, what, expected)"""
    baits = job['baits']
    nonempty = [r for r in baits if r[1] != r[2]]
    if not job['split']:
        exp = [list(r) for r in nonempty]
        got = [r[:3] for r in out] if job.get('short') else out
        expc = [r[:3] for r in exp] if job.get('short') else exp
        if got != expc:
            return ('C12_target_nosplit', 'target without --split does not return the non-empty baits unchanged', exp)
        msg = order_oracle(out, disjoint=False)
        if msg:
            return ('C12_block_order', msg, None)
        return None
    avg = job['avg'] if job.get('avg') is not None else 200 / 0.75
    A = by_chrom(nonempty)
    O = by_chrom(out)
    # genomic order: chromosomes in contiguous blocks, in the order of the (sorted) input
    seen = []
    for r in out:
        if not seen or seen[-1] != r[0]:
            seen.append(r[0])
    if len(seen) != len(set(seen)):
        return ('C12_target_split', 'bins of one chromosome are not contiguous in the output', None)
    in_order = [c for c in A]
    if [c for c in in_order if c in O] != seen:
        return ('C12_target_split', 'chromosomes are not in the genomic order of the input: %r' % seen, in_order)
    msg = order_oracle(out)
    if msg:
        return ('C12_block_order', msg, None)
    n = universe(baits, out)
    for c in set(A) | set(O):
        a = [(r[0], r[1]) for r in A.get(c, [])]
        o = [(r[0], r[1]) for r in O.get(c, [])]
        if any(hi <= lo for lo, hi in o):
            return ('C12_target_split', 'empty or reversed bin on %s' % c, None)
        if any(x[0] > y[0] for x, y in zip(o, o[1:])):
            return ('C12_target_split', 'bins of %s are not in genomic order' % c, None)
        if any(x[1] > y[0] for x, y in zip(o, o[1:])):
            return ('C12_target_split', 'bins of %s overlap' % c, None)
        ba = bitmap(n, a)
        if bitmap(n, o) != ba:
            return ('C12_target_split', 'bins of %s do not cover exactly the union of the non-empty baits' % c, runs(ba))
        for s, e in runs(ba):
            inside = [b for b in o if s <= b[0] < e]
            msg = check_tiling(inside, s, e, avg, 'merged bait %s' % c)
            if msg:
                return ('C12_target_split', msg, None)
    return None


def default_min(avg):
    """the default minimum: 2 * int(avg / 32)  (1/16 of the average, property text / CLI help)"""
    q = Fraction(avg) / 32
    return 2 * (q.numerator // q.denominator)


def effective_min(job):
    mn = job.get('min')
    avg = job['avg'] if job.get('avg') is not None else 150000
    return mn if mn else default_min(avg)


def _names(rows):
    out = []
    for r in rows:
        if r[0] not in out:
            out.append(r[0])
    return out


def some_canonical_target(targets):
    return any(canonical(c) for c in _names(targets))


def kept_contigs(access, targets):
    """the property text: the contigs of `access` that are binned are those that are targeted or
    canonically named"""
    tc = _names(targets)
    return [c for c in _names(access) if c in tc or canonical(c)]


def code_kept_contigs(access, targets):
    """what the code does (used ONLY to supply the float cut points to the model, never by the
    oracle): without a canonically named targeted contig it keeps untargeted contigs whose name is
    not longer than the longest targeted name (open finding c12-no-canonical-target-name-length-rule)"""
    tc = _names(targets)
    if any(canonical(c) for c in tc):
        return kept_contigs(access, targets)
    m = max(len(c) for c in tc)
    return [c for c in _names(access) if c in tc or len(c) <= m]


def expected_access(job, rule='text'):
    """per chromosome the accessible intervals the property speaks about"""
    targets = job['targets']
    if job['access']:
        keep = kept_contigs(job['access'], targets) if rule == 'text' else code_kept_contigs(job['access'], targets)
        d = {}
        for r in job['access']:
            if r[0] in keep:
                d.setdefault(r[0], []).append((r[1], r[2]))
        return d
    d = {}
    for r in targets:       # table order: the last row of a chromosome gives its extent
        d[r[0]] = [(TELOMERE, r[2])]
    return d


def oracle_antitarget(job, out):
    """None, or (clause, what, expected[, sig])"""
    targets = job['targets']
    avg = job['avg'] if job.get('avg') is not None else 150000
    mn = effective_min(job)
    acc = expected_access(job)
    T = by_chrom(targets)
    O = by_chrom(out)
    csig = NAME_LENGTH_SIG if job['access'] and not some_canonical_target(targets) else None
    if any(r[3] != NAME for r in out):
        return ('C12_anti_names', 'an antitarget bin is not named %s' % NAME, None)
    extra = [c for c in O if c not in acc]
    if extra:
        return ('C12_contigs', 'antitargets on contigs that are neither targeted nor canonically named '
                               '(or not accessible): %r' % extra, sorted(acc), csig)
    msg = order_oracle(out)
    if msg:
        return ('C12_block_order', msg, None)
    n = universe(targets, out, [[c, lo, hi] for c in acc for lo, hi in acc[c]])
    for c in acc:
        o = [(r[0], r[1]) for r in O.get(c, [])]
        shrunk = bitmap(n, [(lo + MARGIN, hi - MARGIN) for lo, hi in acc[c]])
        padded = bitmap(n, [(lo - MARGIN, hi + MARGIN) for lo, hi in [(r[0], r[1]) for r in T.get(c, [])]])
        if any(hi <= lo for lo, hi in o):
            return ('C12_anti_disjoint', 'empty or reversed antitarget bin on %s' % c, None)
        for lo, hi in o:
            if not all_set(shrunk, lo, hi):
                return ('C12_anti_inside', 'antitarget %s:%d-%d is not inside the accessible regions shrunk by %d'
                        % (c, lo, hi, MARGIN), runs(shrunk))
            if not none_set(padded, lo, hi):
                return ('C12_anti_margin', 'antitarget %s:%d-%d comes within %d bases of a target' % (c, lo, hi, MARGIN),
                        None)
            # the same clause stated row against row
            for r in T.get(c, []):
                if not (hi <= r[0] - MARGIN or lo >= r[1] + MARGIN):
                    return ('C12_anti_margin', 'antitarget %s:%d-%d comes within %d bases of target %d-%d'
                            % (c, lo, hi, MARGIN, r[0], r[1]), None)
        so = sorted(o)
        if any(x[1] > y[0] for x, y in zip(so, so[1:])):
            return ('C12_anti_disjoint', 'antitarget bins of %s overlap' % c, None)
        if so != o:
            return ('C12_anti_disjoint', 'antitarget bins of %s are not in genomic order' % c, None)
        # completeness: exactly the stretches of off-target accessible sequence of at least the minimum size
        free = bytearray(shrunk)
        for r in T.get(c, []):
            paint(free, r[0] - MARGIN, r[1] + MARGIN, 0)
        want = [(s, e) for s, e in runs(free) if e - s >= mn]
        if bitmap(n, o) != bitmap(n, want):
            return ('C12_anti_complete', 'antitargets of %s do not cover exactly the off-target accessible stretches '
                                         'of at least %d bases' % (c, mn), want, csig)
        for s, e in want:
            inside = [b for b in o if s <= b[0] < e]
            if not inside or inside[0][0] != s or inside[-1][1] != e or any(a[1] != b[0] for a, b in zip(inside, inside[1:])):
                return ('C12_anti_complete', 'stretch %s:%d-%d is not tiled by its bins' % (c, s, e), want)
        # sizes
        for lo, hi in o:
            if Fraction(hi - lo) > SIZE_FACTOR * Fraction(avg):
                return ('C12_anti_sizes', 'antitarget %s:%d-%d is larger than 1.5 x the average size %s' % (c, lo, hi, avg),
                        None)
            if hi - lo < mn:
                sig = KNOWN_MIN_SIG if 4 * Fraction(mn) > 3 * Fraction(avg) - 4 else None
                return ('C12_anti_sizes', 'antitarget %s:%d-%d is smaller than the minimum size %d' % (c, lo, hi, mn),
                        None, sig)
    return None


# ----------------------------------------------------------------------------
# the model side


def float_cuts(spans, avg, mn):
    """the cut oracle, supplied by the same float arithmetic the code uses:
    int(i * (span / nbins)); its contract is checked on every supplied point"""
    out, seen = [], set()
    for span in spans:
        if span < mn or span <= 0:
            continue
        n = int(round(span / avg)) or 1
        if n <= 1 or (span, n) in seen:
            continue
        seen.add((span, n))
        bin_size = span / n
        cuts = [int(i * bin_size) for i in range(1, n)]
        for i, cpt in enumerate(cuts, 1):
            if not (i * span - n <= n * cpt <= i * span):
                raise RuntimeError('cut oracle contract violated: span=%d nbins=%d i=%d cut=%d' % (span, n, i, cpt))
        out.append([span, n, cuts])
    return out


def mrow(r):
    return [r[1], r[2], r[0], r[3] if len(r) > 3 else '']


def from_model(rows):
    return [[r[2], r[0], r[1], r[3]] for r in rows]


def target_spans(job):
    """lengths of the maximal runs of the non-empty baits (independent of the code's output)"""
    A = by_chrom([r for r in job['baits'] if r[1] != r[2]])
    n = universe(job['baits'])
    return [e - s for c in A for s, e in runs(bitmap(n, [(r[0], r[1]) for r in A[c]]))]


def antitarget_spans(job):
    acc = expected_access(job, rule='code')
    T = by_chrom(job['targets'])
    n = universe(job['targets'], [[c, lo, hi] for c in acc for lo, hi in acc[c]])
    out = []
    for c in acc:
        free = bitmap(n, [(lo + MARGIN, hi - MARGIN) for lo, hi in acc[c]])
        for r in T.get(c, []):
            paint(free, r[0] - MARGIN, r[1] + MARGIN, 0)
        out += [e - s for s, e in runs(free)]
    return out


def exact_num(x):
    return x if isinstance(x, int) else Fraction(x)


def model_request(job):
    kind = job['kind']
    if kind in ('target', 'cli_target', 'target_annot'):
        avg = job['avg'] if job.get('avg') is not None else 200 / 0.75
        cuts = float_cuts(target_spans(job), avg, 0) if job['split'] else []
        return ('c12_target', [bool(job['split']), exact_num(avg), [mrow(r) for r in job['baits']], cuts])
    if kind in ('antitarget', 'cli_antitarget'):
        avg = job['avg'] if job.get('avg') is not None else 150000
        try:
            cuts = float_cuts(antitarget_spans(job), avg, effective_min(job))
        except ValueError:
            cuts = []
        acc = None if job['access'] is None else [mrow(r) for r in job['access']]
        return ('c12_antitarget', [[mrow(r) for r in job['targets']], acc, exact_num(avg), job.get('min'), cuts])
    if kind == 'labels':
        return ('c12_shorten', list(job['labels']))
    raise RuntimeError('no model for %r' % kind)


def ambiguous(job):
    """a float near-tie of span / avg decides the number of bins (non-integer avg only)"""
    avg = job['avg'] if job.get('avg') is not None else (200 / 0.75 if job['kind'].endswith('target') and 'baits' in job else 150000)
    if Fraction(avg).denominator == 1:
        return False
    spans = target_spans(job) if 'baits' in job else antitarget_spans(job)
    return any(nbins_exact(s, avg)[1] for s in spans if s > 0)


# ----------------------------------------------------------------------------
# generators

CHR_STYLE = {
    'chr': {'canon': ['chr1', 'chr2', 'chr3', 'chr10', 'chr21', 'chrX', 'chrY'],
            'non': ['chrM', 'chrUn_gl000220', 'chr6_apd_hap1', 'chr1_KI270706v1_random', 'chr5_GL339449_alt',
                    'chrEBV', 'chrUn_KI270302v1']},
    'plain': {'canon': ['1', '2', '3', '10', '21', 'X', 'Y', 'GL000220.1'],
              'non': ['MT', 'NC_007605', 'HLA-A*01:01', 'KI270706v1_random', 'Un_KI270302v1', 'hs37d5_hap2']},
}


def gen_intervals(rng, n, lo, hi, unit):
    """n intervals in [lo, hi] built to overlap, nest, abut, repeat and collapse to zero width"""
    out = []
    grid = [lo + unit * k for k in range(max(1, (hi - lo) // unit) + 1)]
    for _ in range(n):
        mode = rng.random()
        if out and mode < 0.45:
            a, b = rng.choice(out)
            how = rng.choice(['nest', 'abut', 'overlap', 'dup', 'zero', 'same_start', 'same_end', 'near'])
            if how == 'nest' and b - a >= 2:
                x = rng.randint(a, b - 1)
                y = rng.randint(x + 1, b)
                out.append((x, y))
            elif how == 'abut':
                out.append((b, b + rng.choice([1, unit, rng.randint(1, 3 * unit)])))
            elif how == 'overlap' and b > a:
                x = rng.randint(a, b - 1)
                out.append((x, b + rng.randint(1, 2 * unit)))
            elif how == 'dup':
                out.append((a, b))
            elif how == 'zero':
                z = rng.choice([a, b, rng.randint(a, b)])
                out.append((z, z))
            elif how == 'same_start':
                out.append((a, a + rng.randint(1, 3 * unit)))
            elif how == 'same_end' and b - a >= 1:
                out.append((rng.randint(max(0, a - unit), b - 1), b))
            else:
                d = rng.choice([1, 2, MARGIN - 1, MARGIN, MARGIN + 1, 2 * MARGIN - 1, 2 * MARGIN, 2 * MARGIN + 1,
                                rng.randint(1, 4 * MARGIN)])
                out.append((b + d, b + d + rng.randint(1, 2 * unit)))
        else:
            a = rng.choice(grid) + rng.choice([0, 0, 1, -1, rng.randint(0, unit)])
            a = max(0, a)
            w = rng.choice([0, 1, unit, unit // 2 or 1, rng.randint(1, 4 * unit)])
            out.append((a, a + w))
    return out


def pick_chroms(rng):
    style = rng.choice(['chr', 'chr', 'plain'])
    S = CHR_STYLE[style]
    k = rng.choice([1, 1, 2, 2, 3])
    tgt = rng.sample(S['canon'], min(k, len(S['canon'])))
    r = rng.random()
    if r < 0.15:
        tgt[rng.randrange(len(tgt))] = rng.choice(S['non'])        # a targeted non-canonical contig
    elif r < 0.20:
        tgt = rng.sample(S['non'], min(k, len(S['non'])))               # no canonical target at all (length rule)
    return style, tgt


def gen_targets(rng, chroms, scale):
    rows = []
    for c in chroms:
        n = rng.choice([1, 1, 2, 3, 4, 6, rng.randint(1, 10)])
        base = rng.choice([0, 0, scale, TELOMERE + rng.randint(0, scale)])
        ivs = gen_intervals(rng, n, base, base + rng.randint(1, 8) * scale, max(1, scale // 4))
        for i, (a, b) in enumerate(ivs):
            rows.append([c, a, b, rng.choice(['G%d' % rng.randint(1, 4), 'G%d' % i, '-', 'geneA,geneB'])])
    return rows


def gen_access(rng, style, tchroms, targets, scale, avg, mn):
    """accessible regions: targeted contigs (mostly), untargeted canonical and non-canonical
    contigs; region lengths aimed at the decision points of the proofs (stretch = min, min - 1,
    (k + 1/2) * avg and neighbours)"""
    S = CHR_STYLE[style]
    chroms = [c for c in tchroms if rng.random() < 0.9]
    others = [c for c in S['canon'] if c not in tchroms]
    if others and rng.random() < 0.6:
        chroms.append(rng.choice(others))
    if rng.random() < 0.5:
        chroms.append(rng.choice(S['non']))
    if rng.random() < 0.15:
        chroms.append(rng.choice(S['canon'] + S['non']) + rng.choice(['0', 'b', '_x']))
    seen = []
    for c in chroms:
        if c not in seen:
            seen.append(c)
    chroms = seen
    if not chroms:
        chroms = [tchroms[0]]
    rows = []
    hi_by = {}
    for r in targets:
        hi_by[r[0]] = max(hi_by.get(r[0], 0), r[2])
    iavg = int(avg)
    for c in chroms:
        top = hi_by.get(c, rng.randint(1, 6) * scale) + rng.choice([0, MARGIN, 2 * MARGIN, scale, 3 * scale])
        k = rng.choice([1, 1, 1, 2, 3])
        pos = rng.choice([0, 0, 1, MARGIN, rng.randint(0, scale)])
        for _ in range(k):
            span = rng.choice([
                mn, mn - 1, mn + 1, iavg, iavg + iavg // 2, iavg + iavg // 2 + 1, iavg + iavg // 2 - 1,
                2 * iavg + iavg // 2, 2 * iavg + iavg // 2 + 1, iavg // 2, iavg // 2 + 1, max(1, top - pos - 2 * MARGIN),
                rng.randint(1, max(2, 3 * iavg)), rng.randint(1, max(2, top))])
            length = max(1, span + 2 * MARGIN)
            rows.append([c, pos, pos + length])
            how = rng.random()
            if how < 0.6:
                pos = pos + length + rng.choice([1, 2 * MARGIN, rng.randint(1, scale)])   # gap
            elif how < 0.75:
                pos = pos + length                                                          # abutting
            elif how < 0.9:
                pos = pos + rng.randint(0, length)                                          # overlapping
            else:
                pos = pos + rng.randint(0, max(1, length // 2))
    return rows


def gen_avg_min(rng, scale):
    r = rng.random()
    if r < 0.12:
        return None, None                      # all defaults (150000, avg/16)
    if r < 0.2:
        avg = 150000
    elif r < 0.3:
        avg = rng.choice([4, 5, 8, 16, 31, 32, 33, 64, 100])
    else:
        avg = rng.choice([scale, 2 * scale, 5 * scale, rng.randint(scale // 2 + 4, 10 * scale), 1000, 5000])
    guard = (3 * avg - 4) // 4          # largest min with min <= 3/4 avg - 1
    m = rng.random()
    if m < 0.35:
        mn = None
    elif m < 0.42:
        mn = 0
    elif m < 0.6:
        mn = max(1, guard)
    elif m < 0.7:
        mn = max(1, guard - 1)
    else:
        mn = rng.randint(1, max(1, guard))
    if mn is not None and mn > guard:
        mn = None if guard < 1 else guard
    return avg, mn


def gen_antitarget_case(rng):
    scale = rng.choice([1000, 1000, 2000, 5000, 20000])
    avg, mn = gen_avg_min(rng, scale)
    if avg is None or avg == 150000:
        scale = rng.choice([50000, 100000])
    style, tchroms = pick_chroms(rng)
    targets = gen_targets(rng, tchroms, scale)
    eff_avg = avg if avg is not None else 150000
    eff_mn = mn if mn else default_min(eff_avg)
    if rng.random() < 0.22:
        access = None
    else:
        access = gen_access(rng, style, tchroms, targets, scale, eff_avg, eff_mn)
    job = {'kind': 'antitarget', 'targets': sort_table(targets), 'access': None if access is None else sort_table(access, False),
           'avg': avg, 'min': mn}
    if avg is None and mn is not None:
        job['avg'] = 150000
    return job


def gen_target_case(rng):
    scale = rng.choice([100, 250, 1000, 5000])
    style, tchroms = pick_chroms(rng)
    baits = gen_targets(rng, tchroms, scale)
    r = rng.random()
    if r < 0.15:
        avg = None                             # the default 200 / 0.75 (a float)
    elif r < 0.25:
        avg = 200 / 0.75
    elif r < 0.35:
        avg = rng.choice([100.5, 266.5, 33.25, scale * 0.75])
    else:
        avg = rng.choice([scale, scale // 2 or 1, 267, 200, rng.randint(1, 3 * scale), 1, 2, 3])
    split = rng.random() < 0.75
    if (avg is None or avg == 200 / 0.75) and rng.random() < 0.5:
        # an isolated bait whose length is float-ambiguous for the default average (odd multiples of 400: the float
        # quotient is exactly k + 1/2, the exact one is just below) or next to such a length
        span = rng.choice([400, 1200, 2800, 4400, 5200]) + rng.choice([0, 0, 0, 1, -1])
        top = max([r[2] for r in baits if r[0] == baits[0][0]] + [0])
        baits.append([baits[0][0], top + 5000, top + 5000 + span, 'amb'])
    job = {'kind': 'target', 'baits': sort_table(baits), 'split': split, 'avg': avg}
    if avg is None and not split:
        pass
    return job


def gen_antitarget_wide(rng):
    """situations the first stream reaches rarely: targets on contigs absent from the access table,
    access rows shorter than 2 * pad, baits abutting / straddling access edges, many tiny baits inside
    one access row, extreme average / minimum sizes (integer averages 1..3, huge averages, a minimum
    above every stretch, non-integer averages >= 4)"""
    style = rng.choice(['chr', 'chr', 'plain'])
    S = CHR_STYLE[style]
    cls = rng.choice(['absent-contig', 'short-access', 'edge-baits', 'tiny-baits', 'avg-min-extremes'])
    avg, mn = rng.choice([(1000, 100), (5000, None), (2000, 1), (400, 250)])
    c1, c2, c3 = rng.sample(S['canon'], 3)
    targets, access = [], []
    if cls == 'absent-contig':
        # c1 targeted and accessible, c2 targeted but absent from access, c3 accessible only
        for c in (c1, c2):
            for a, b in gen_intervals(rng, rng.randint(1, 4), 2000, 20000, 500):
                targets.append([c, a, b, 'G%d' % rng.randint(1, 3)])
        if rng.random() < 0.4:
            nc = rng.choice(S['non'])
            targets.append([nc, 3000, 3000 + rng.randint(1, 400), 'N'])       # targeted non-canonical, absent too
        access = [[c1, 0, 30000], [c3, rng.choice([0, 1, 500]), rng.choice([1500, 9000, 30000])]]
        if rng.random() < 0.5:
            access.append([rng.choice(S['non']), 0, 30000])
    elif cls == 'short-access':
        pos = rng.choice([0, 1, 700])
        for _ in range(rng.randint(2, 7)):
            length = rng.choice([1, 2, MARGIN, 2 * MARGIN - 1, 2 * MARGIN, 2 * MARGIN + 1, 2 * MARGIN + (mn or 62) - 1,
                                 2 * MARGIN + (mn or 62), rng.randint(1, 2 * MARGIN + 300), 4000])
            access.append([c1, pos, pos + length])
            pos += length + rng.choice([0, 1, 300, 5000])
        targets.append([c1, rng.randint(0, pos), rng.randint(0, pos) + pos, 'G'])
        targets[-1][2] = targets[-1][1] + rng.choice([0, 1, 120, 3000])
        if rng.random() < 0.5:
            targets.append([c1, pos + 20000, pos + 20100, 'far'])
    elif cls == 'edge-baits':
        lo_a = rng.choice([0, 1000, 150000])
        hi_a = lo_a + rng.choice([8000, 20000, 60000])
        access = [[c1, lo_a, hi_a]]
        if rng.random() < 0.5:
            access.append([c1, hi_a + rng.choice([0, 1, 999, 1000, 1001, 5000]), hi_a + 30000])
        for _ in range(rng.randint(1, 5)):
            edge = rng.choice([lo_a, hi_a])
            d = rng.choice([0, 1, -1, MARGIN, -MARGIN, MARGIN + 1, -MARGIN - 1, 2 * MARGIN, -2 * MARGIN, 2 * MARGIN + 1,
                            -2 * MARGIN - 1])
            w = rng.choice([0, 1, 100, 2 * MARGIN, 3000])
            how = rng.random()
            if how < 0.4:
                a, b = edge + d, edge + d + w             # starts at / near the edge
            elif how < 0.8:
                a, b = edge + d - w, edge + d             # ends at / near the edge
            else:
                a, b = edge - w, edge + w                 # straddles the edge
            a = max(0, a)
            b = max(a, b)
            targets.append([c1, a, b, 'E%d' % rng.randint(1, 3)])
    elif cls == 'tiny-baits':
        lo_a = rng.choice([0, 5000])
        n = rng.randint(15, 60)
        pos = lo_a + rng.choice([0, 400, 1200])
        for i in range(n):
            w = rng.choice([1, 1, 5, 50, 120])
            targets.append([c1, pos, pos + w, 'T%d' % (i % 4)])
            pos += w + rng.choice([0, 1, 300, 999, 1000, 1001, 1001 + (mn or 62), 1500, 2400])
        access = [[c1, lo_a, pos + rng.choice([0, 400, 3000])]]
    else:
        # minima stay at or below the guard 3/4 avg - 1 (above it: open finding, canonical corpus case only);
        # (5000, 10^6): a minimum above every stretch -- nothing is binned at all
        avg, mn = rng.choice([(1, None), (1, 0), (2, None), (2, 0), (3, 1), (3, None), (4, None), (4, 2), (5, 2),
                              (4.5, 2), (1000.5, 700), (150000.25, None), (10 ** 6, None), (10 ** 7, 5 * 10 ** 5),
                              (5000, 10 ** 6), (100, 74), (100, 1)])
        small = avg < 50
        lo_a = rng.choice([0, 3000])
        span = rng.choice([1, 2, 3, 5, 7, 10, 25, 40]) if small else rng.choice([3000, 40000, 200000])
        access = [[c1, lo_a, lo_a + 2 * MARGIN + span]]
        if rng.random() < 0.5:
            access.append([c1, lo_a + 2 * MARGIN + span + 2000, lo_a + 4 * MARGIN + 2 * span + 2000 + rng.randint(0, 30)])
        far = lo_a + 6 * MARGIN + 3 * span + 10000
        targets = [[c1, far, far + rng.choice([1, 100]), 'G']]
        if not small and rng.random() < 0.5:
            targets.append([c1, lo_a + MARGIN + span // 2, lo_a + MARGIN + span // 2 + 50, 'mid'])
    if rng.random() < 0.15 and cls != 'avg-min-extremes':
        access = None
    job = {'kind': 'antitarget', 'targets': sort_table(targets), 'access': None if access is None else sort_table(access, False),
           'avg': avg, 'min': mn, 'wide': cls}
    return job


GENE_POOL = ['GENEA', 'GENEB', 'TP53', 'BRCA1', 'A', 'ORF1', 'NOC2L', 'SAMD11', 'mRNA1', '-', 'A.1']


def gen_annotation(rng, baits):
    """a refFlat-like gene table around the baits: genes containing / overlapping / abutting / missing the
    baits, several transcripts of one gene, genes on chromosomes without baits; sometimes no shared
    chromosome name at all (ValueError expected)"""
    chroms = []
    for r in baits:
        if r[0] not in chroms:
            chroms.append(r[0])
    rows = []
    disjoint = rng.random() < 0.06
    for c in chroms:
        mine = [r for r in baits if r[0] == c]
        if rng.random() < 0.15 and len(chroms) > 1:
            continue                                       # a bait chromosome without any gene
        for _ in range(rng.choice([1, 2, 3, 5, 8])):
            b = rng.choice(mine)
            how = rng.choice(['contain', 'overlap-left', 'overlap-right', 'abut-left', 'abut-right', 'inside', 'far', 'same'])
            w = max(1, b[2] - b[1])
            if how == 'contain':
                a, e = b[1] - rng.randint(0, 2 * w), b[2] + rng.randint(0, 2 * w)
            elif how == 'overlap-left':
                a, e = b[1] - rng.randint(1, w + 5), b[1] + rng.randint(1, w)
            elif how == 'overlap-right':
                a, e = b[2] - rng.randint(1, w), b[2] + rng.randint(1, w + 5)
            elif how == 'abut-left':
                a, e = b[1] - rng.randint(1, w + 5), b[1]            # ends where the bait starts: no base shared
            elif how == 'abut-right':
                a, e = b[2], b[2] + rng.randint(1, w + 5)
            elif how == 'inside':
                a = rng.randint(b[1], b[1] + w - 1)
                e = rng.randint(a + 1, b[1] + w)
            elif how == 'far':
                a = b[2] + rng.randint(1, 5 * w + 10)
                e = a + rng.randint(1, w + 5)
            else:
                a, e = b[1], b[2]
            a = max(1, a)
            e = max(a + 1, e)
            rows.append(['zz' + c if disjoint else c, a, e, rng.choice(GENE_POOL)])
    if rng.random() < 0.3:
        rows.append([rng.choice(['chr7', '7', 'chrUn_x']), 100, 900, 'OTHER'])
    if not rows:
        rows.append([chroms[0] if chroms else 'chr1', 1, 2, 'LONE'])
    rng.shuffle(rows)
    return rows


def write_annotation(path, rows, fmt):
    with open(path, 'w') as fh:
        for i, (c, a, e, g) in enumerate(rows):
            if fmt == 'refflat':
                # refFlat: geneName name chrom strand txStart txEnd cdsStart cdsEnd exonCount exonStarts exonEnds
                fh.write('%s\tNM_%06d\t%s\t%s\t%d\t%d\t%d\t%d\t1\t%d,\t%d,\n' % (g, i, c, '+-'[i % 2], a, e, a, e, a, e))
            else:
                fh.write('%s\t%d\t%d\t%s\n' % (c, a, e, g))


def expected_labels(bins, annot):
    """the property's annotation rule, by brute force: "-" without an overlapping annotation row, else
    the distinct names of the rows sharing a base with the bin, in table order, joined by "," """
    out = []
    for r in bins:
        names = []
        for a in annot:
            if a[0] == r[0] and a[1] < r[2] and r[1] < a[2] and a[3] not in names:
                names.append(a[3])
        out.append(','.join(names) if names else '-')
    return out


def run_annotation(ck, runner, scratch, jobs_t, cls='annotate'):
    """do_target(..., annotate=<gene table file>) against the model (annotation through the C07
    into_ranges model) and the brute-force label rule; number and coordinates of bins against the
    code's own un-annotated run.  A job that already carries `annot` rows (corpus) keeps them."""
    jobs, plain, reads = [], [], []
    for i, j in enumerate(jobs_t):
        if j.get('avg') is None:
            continue
        if 'annot' in j:
            rows, fmt = j['annot'], j.get('annot_fmt', 'bed4')
        else:
            fmt = ck.rng.choice(['refflat', 'refflat', 'bed4'])
            rows = gen_annotation(ck.rng, [r for r in j['baits']])
        if not all(re.match(r'^\w+$', r[0]) for r in rows):
            fmt = 'bed4'          # the refFlat sniffer only accepts word characters in the chromosome name
        path = os.path.join(scratch, 'genes_%s%d.%s' % (cls.replace(':', '_'), i, 'txt' if fmt == 'refflat' else 'bed'))
        write_annotation(path, rows, fmt)
        k = dict(j)
        k.update(kind='target_annot', annot_path=path, annot_fmt=fmt, annot=rows)
        if 'index' not in k and cls == 'annotate':
            ix = ck.rng.choice([None, None, 'gaps', 'permuted'])
            if ix:
                k['index'] = ix
        jobs.append(k)
        pj = {x: v for x, v in k.items() if x not in ('annot', 'annot_fmt', 'annot_path')}
        pj['kind'] = 'target'
        plain.append(pj)
        reads.append({'kind': 'annot_read', 'annot_path': path})
    outs = runner.map(jobs)
    plains = runner.map(plain)
    annots = runner.map(reads)
    reqs = []
    for j, an in zip(jobs, annots):
        if isinstance(an, Err):
            raise RuntimeError('the generated annotation file could not be read: %s' % an.msg)
        avg = j['avg']
        cuts = float_cuts(target_spans(j), avg, 0) if j['split'] else []
        reqs.append([bool(j['split']), exact_num(avg), [mrow(r) for r in j['baits']], cuts, [mrow(r) for r in an]])
    models = vlib.model_batch_parallel('c12_target_annot', reqs)
    for j, out, pl, an, mod in zip(jobs, outs, plains, annots, models):
        case = {x: v for x, v in j.items() if not x.endswith('_path')}
        case['annot_read'] = an
        ck.count(case, nontrivial=not isinstance(out, Err) and any(r[3] != '-' for r in out), cls=cls)
        ck.cls('annotate:' + j['annot_fmt'])
        if isinstance(pl, Err):
            ck.violation('do_target raised %s on a valid input' % pl.msg, case, code=pl, clause='C12')
            continue
        shared = set(r[0] for r in pl) & set(a[0] for a in an)
        if isinstance(out, Err):
            if out.msg == 'ValueError' and pl and not shared:
                # no shared chromosome name (compare_chrom_names): compared with the model's error
                ck.cls('annotate:error-no-shared-chromosome')
                if mod != out:
                    ck.tie_break('model and code disagree on the annotation error', case, code=out, model=mod)
                continue
            ck.violation('do_target with annotate raised %s' % out.msg, case, code=out, clause='C12_annotate_coords')
            continue
        if not pl:
            ck.cls('annotate:no-bin-left')
        if [r[:3] for r in out] != [r[:3] for r in pl]:
            ck.violation('annotation changed the number or coordinates of bins', case, code=[r[:3] for r in out],
                         expected=[r[:3] for r in pl], clause='C12_annotate_coords')
            continue
        if not j['split'] and any(r[1] == r[2] for r in j['baits']):
            ck.cls('annotate:after-zero-width-bait-dropped(row labels with gaps)')
        if j.get('index'):
            ck.cls('annotate:caller-row-labels-' + j['index'])
        exp = expected_labels(out, an)
        if [r[3] for r in out] != exp:
            ck.violation('annotated labels are not the joined distinct names of the overlapping annotation rows', case,
                         code=[r[3] for r in out], expected=exp, clause='C12_annotate_labels')
            continue
        if any(',' in e for e in exp):
            ck.cls('annotate:several-genes-joined')
        if any(e == '-' for e in exp):
            ck.cls('annotate:no-overlap-default')
        if ambiguous(j):
            ck.float_ambiguous += 1
            continue
        m = mod if isinstance(mod, Err) else from_model(mod)
        if m != out:
            ck.tie_break('model do_target with annotation differs from the code', case, code=out, model=m)


HASHSEED_SCRIPT = """import sys, json, warnings, logging
warnings.filterwarnings('ignore')
logging.disable(logging.CRITICAL)
from cnvlib import target
cases = json.load(open(sys.argv[1]))
print(json.dumps([list(target.shorten_labels(c)) for c in cases]))
"""


def run_hash_orders(ck, scratch, jobs_l, cands):
    """shorten_labels in fresh interpreters with different string-hash seeds (= different iteration orders
    of the name sets): every emitted name must be a candidate of its position under every order, and
    positions with a single candidate must not move (C12_labels_candidates / _deterministic_when)"""
    cases = [j['labels'] for j in jobs_l]
    cpath = os.path.join(scratch, 'labels.json')
    spath = os.path.join(scratch, 'labels_run.py')
    json.dump(cases, open(cpath, 'w'))
    open(spath, 'w').write(HASHSEED_SCRIPT)
    procs = []
    for seed in ('1', '2', '3'):
        env = dict(os.environ)
        env['PYTHONHASHSEED'] = seed
        env['PYTHONPATH'] = vlib.REPO
        procs.append(subprocess.Popen([sys.executable, spath, cpath], env=env, stdout=subprocess.PIPE,
                                      stderr=subprocess.PIPE))
    results = []
    for pr in procs:
        o, e = pr.communicate(timeout=600)
        if pr.returncode != 0:
            raise RuntimeError('shorten_labels subprocess failed: %s' % e.decode()[-400:])
        results.append(json.loads(o.decode()))
    moved = 0
    for idx, (labels, cs) in enumerate(zip(cases, cands)):
        if isinstance(cs, Err):
            continue
        outs = [r[idx] for r in results]
        case = {'kind': 'labels', 'labels': labels, 'hash_seeds': [1, 2, 3]}
        bad = None
        for o in outs:
            if len(o) != len(labels):
                bad = ('C12_labels', 'shorten_labels changes the number of labels', o)
            elif any(x not in c for x, c in zip(o, cs)):
                bad = ('C12_labels_candidates', 'an emitted name is not a shortest filtered name of its run', o)
        if bad is None and any(len(c) == 1 and len(set(o[i] for o in outs)) != 1 for i, c in enumerate(cs)):
            bad = ('C12_labels_deterministic_when', 'a position with a single candidate changes with the hash seed', outs)
        ck.count(case, nontrivial=len(labels) > 1, cls='labels:hash-orders')
        if bad:
            ck.violation(bad[1], case, code=bad[2], expected=cs, clause=bad[0])
            continue
        if any(len(set(o[i] for o in outs)) > 1 for i in range(len(labels))):
            moved += 1
    ck.extra['labels_output_moved_with_hash_seed'] = moved


def label_candidates(labels):
    """the label rule restated with its literals (names split at ",", runs of labels sharing a name, names
    starting with "mRNA" dropped when something else is left, shortest name, "DB|accession" cut to the
    accession): per position the SET of names the rule allows (several when equally short names tie)"""
    def filt(names):
        if len(names) > 1:
            ok = set(n for n in names if not n.startswith('mRNA'))
            if ok:
                return ok
        return names

    def cands(names):
        f = filt(names)
        m = min(len(n) for n in f)
        return set((n.split('|')[-1] if len(n) > 2 and '|' in n[1:-1] else n) for n in f if len(n) == m)

    result, curr, count = [], set(), 0
    for lab in labels:
        nxt = set(lab.rstrip().split(','))
        ov = curr & nxt
        if ov:
            curr = filt(ov)
            count += 1
        else:
            if count:
                result += [cands(curr)] * count
            count, curr = 1, nxt
    if count:
        result += [cands(curr)] * count
    return result


def run_unsorted(ck, runner, jobs_t):
    """do_target --split on bait tables that are NOT in genomic order (rows shuffled): the whole-table fast
    path of merge keeps the table order, the slow path re-orders the chromosome groups by key whatever
    the input order (C12_block_order_slow_path); model against code on both"""
    jobs = []
    for j in jobs_t:
        if not j['split'] or j.get('avg') is None or len(j['baits']) < 2:
            continue
        k = dict(j)
        b = list(j['baits'])
        ck.rng.shuffle(b)
        k['baits'] = b
        jobs.append(k)
    outs = runner.map(jobs)
    models = vlib.model_batch_parallel('c12_target', [model_request(j)[1] for j in jobs])
    for j, out, mod in zip(jobs, outs, models):
        case = dict(j)
        ck.count(case, nontrivial=True, cls='target:unsorted-input')
        if isinstance(out, Err):
            ck.violation('do_target raised %s on an unsorted bait table' % out.msg, case, code=out, clause='C12')
            continue
        rows = [r for r in j['baits'] if r[1] != r[2]]
        cmax, fast = None, True
        for r in rows:                      # (start[1:] - end.cummax()[:-1] > 0).all() over the whole table
            if cmax is not None and not r[1] - cmax > 0:
                fast = False
            cmax = r[2] if cmax is None else max(cmax, r[2])
        keys = [sorter_key(r[0]) for r in out]
        if not fast:
            ck.cls('target:unsorted-input:slow-path')
            if any(a > b for a, b in zip(keys, keys[1:])):
                ck.violation('slow path of merge: chromosome keys decrease along the output', case, code=out,
                             clause='C12_block_order_slow_path')
                continue
        else:
            ck.cls('target:unsorted-input:fast-path(table order kept)')
        if ambiguous(j):
            ck.float_ambiguous += 1
            continue
        m = mod if isinstance(mod, Err) else from_model(mod)
        if m != out:
            ck.tie_break('model do_target differs from the code on an unsorted bait table', case, code=out, model=m)


def check_keys(names):
    """the restated sorter_chrom must agree with the Coq model's chrom_key (infrastructure consistency)"""
    names = sorted(set(names))
    res = vlib.model_batch('c12_chrom_key', names)
    for c, r in zip(names, res):
        if isinstance(r, Err) or (r[0], r[1]) != sorter_key(c):
            raise RuntimeError('sorter key of %r: harness %r, Coq model %r' % (c, sorter_key(c), r))


LABEL_POOL = ['ref|GENE1', 'ref|GENE2', 'mRNA|AF161376', 'mRNA|JX093079', 'ens|ENST00000342066', 'ccds|CCDS3.1',
              'ref|NOC2L', 'A', 'BB', 'CCC', 'x|y', 'a|b|c', '|x|', 'ab|', 'mRNAx', 'mRNA', '-', 'ref|SAMD11', '']


def gen_labels(rng):
    n = rng.choice([0, 1, 2, 3, 5, 8, 12])
    out = []
    cur = rng.sample(LABEL_POOL, rng.randint(1, 4))
    for _ in range(n):
        r = rng.random()
        if r < 0.5:
            keep = [x for x in cur if rng.random() < 0.7] or [rng.choice(cur)]
            cur = keep + rng.sample(LABEL_POOL, rng.randint(0, 2))
        elif r < 0.8:
            cur = rng.sample(LABEL_POOL, rng.randint(1, 4))
        rng.shuffle(cur)
        lab = ','.join(cur) + rng.choice(['', '', '', ' ', '\t', ' \n'])
        out.append(lab)
    return out


def tiny_scope(max_baits):
    """all multisets of <= max_baits intervals [a, b], 0 <= a <= b <= 8, scaled by 250"""
    ivs = [(a, b) for a in range(9) for b in range(a, 9)]
    for k in range(1, max_baits + 1):
        for combo in itertools.combinations_with_replacement(ivs, k):
            yield [['chr1', 250 * a, 250 * b, 'g%d' % i] for i, (a, b) in enumerate(sorted(combo))]


# ----------------------------------------------------------------------------
# evaluation


def evaluate(ck, jobs, outs, models, cls):
    for job, out, mod in zip(jobs, outs, models):
        kind = job['kind']
        case = {k: v for k, v in job.items() if not k.endswith('_path')}
        if kind == 'labels':
            labels = job['labels']
            ck.count(case, nontrivial=len(labels) > 1, cls=cls)
            if isinstance(out, Err):
                ck.violation('shorten_labels raised %s' % out.msg, case, code=out, clause='C12_labels')
                continue
            if len(out) != len(labels):
                ck.violation('shorten_labels changes the number of labels', case, code=out, expected=len(labels),
                             clause='C12_labels')
                continue
            want = label_candidates(labels)
            if any(o not in w for o, w in zip(out, want)):
                ck.violation('shorten_labels emits a name that is not a shortest filtered name shared by its run of labels',
                             case, code=out, expected=[sorted(w) for w in want], clause='C12_labels_candidates')
                continue
            if isinstance(mod, Err) or len(mod) != len(out) or any(o not in m for o, m in zip(out, mod)):
                ck.tie_break('model shorten_labels candidates do not contain the code\'s names', case, code=out, model=mod)
            elif all(len(m) == 1 for m in mod):
                ck.cls('labels:deterministic(single candidate everywhere)')
                if [m[0] for m in mod] != out:
                    ck.tie_break('model shorten_labels (deterministic case) differs from the code', case, code=out,
                                 model=[m[0] for m in mod])
            else:
                ck.cls('labels:order-dependent(some position has several candidates)')
            continue
        is_target = 'baits' in job
        if is_target:
            nontriv = any(r[1] != r[2] for r in job['baits']) and (job['split'] or any(r[1] == r[2] for r in job['baits']))
        else:
            nontriv = not isinstance(out, Err) and len(out) > 0
        ck.count(case, nontrivial=nontriv, cls=cls)
        if isinstance(out, Err):
            expected_err = False
            if not is_target and out.msg == 'ValueError':
                if job['access']:
                    expected_err = not (set(r[0] for r in job['access']) & set(r[0] for r in job['targets']))
            if not expected_err:
                ck.violation('%s raised %s on a valid input' % (kind, out.msg), case, code=out, clause='C12')
                continue
            if mod != out:
                ck.tie_break('model and code disagree on the error', case, code=out, model=mod)
            ck.cls('error:' + out.msg)
            continue
        if (not is_target and job['access'] and not some_canonical_target(job['targets']) and cls != 'corpus'):
            # region of the open finding c12-no-canonical-target-name-length-rule: model-vs-code only
            ck.cls('contigs:no-canonical-target(model-vs-code only)')
            res = None
        else:
            res = oracle_target(job, out) if is_target else oracle_antitarget(job, out)
        if res is not None:
            clause, what, exp = res[0], res[1], res[2]
            sig = res[3] if len(res) > 3 else None
            ck.violation(what, case, sig=sig, code=out, expected=exp, clause=clause)
            continue
        if not is_target:
            spans = antitarget_spans(job)
            mn_eff = effective_min(job)
            a_eff = job['avg'] if job.get('avg') is not None else 150000
            if out:
                ck.cls('antitarget:non-empty')
            if any(s < mn_eff for s in spans):
                ck.cls('antitarget:stretch-below-min-dropped')
            if any(s == mn_eff for s in spans):
                ck.cls('antitarget:stretch-equal-min')
            if any(s >= mn_eff and nbins_exact(s, a_eff)[0] >= 2 for s in spans):
                ck.cls('antitarget:stretch-cut-into-several-bins')
            if any(t1[0] == t2[0] and t1[1] <= t2[1] and t2[2] <= t1[2] and t1 is not t2
                   for t1 in job['targets'] for t2 in job['targets']):
                ck.cls('antitarget:nested-targets')
        if ambiguous(job):
            ck.float_ambiguous += 1
            continue
        m = mod if isinstance(mod, Err) else from_model(mod)
        got = out
        if is_target and job.get('short'):
            got = [r[:3] for r in out]
            m = m if isinstance(m, Err) else [r[:3] for r in m]
        if m != got:
            ck.tie_break('model %s differs from the code (coordinates / names / order)' % kind, case, code=out, model=m)


def run_batch(ck, runner, jobs, cls):
    outs = runner.map(jobs)
    reqs = [model_request(j) for j in jobs]
    models = [None] * len(jobs)
    for entry in sorted(set(e for e, _ in reqs)):
        idx = [i for i, (e, _) in enumerate(reqs) if e == entry]
        res = vlib.model_batch_parallel(entry, [reqs[i][1] for i in idx])
        for i, r in zip(idx, res):
            models[i] = r
    evaluate(ck, jobs, outs, models, cls)


def extra_checks(ck, runner, scratch, jobs_t, jobs_a):
    """label shortening / annotation leave number and coordinates of bins alone; CLI helpers on BED files"""
    # short names and annotation on do_target
    more = []
    for i, j in enumerate(jobs_t):
        if j.get('avg') is None:
            continue
        k = dict(j)
        k['short'] = True
        more.append((j, k))
    base = runner.map([a for a, _ in more])
    vari = runner.map([b for _, b in more])
    for (j, k), o1, o2 in zip(more, base, vari):
        case = {x: v for x, v in k.items() if not x.endswith('_path')}
        ck.count(case, nontrivial=True, cls='labels:' + ('annotate' if k['kind'] == 'target_annot' else 'short-names'))
        if isinstance(o1, Err) or isinstance(o2, Err):
            if isinstance(o2, Err) and not isinstance(o1, Err):
                ck.violation('do_target with %s raised %s' % (k['kind'], o2.msg), case, code=o2, clause='C12_labels')
            continue
        if [r[:3] for r in o1] != [r[:3] for r in o2]:
            ck.violation('label shortening / annotation changed the number or coordinates of bins', case,
                         code=[r[:3] for r in o2], expected=[r[:3] for r in o1], clause='C12_labels')
    # CLI helpers: BED in, BED out (avg sizes are ints there: argparse type=int)
    cli = []
    for i, j in enumerate(jobs_t):
        if j.get('avg') is None or Fraction(j['avg']).denominator != 1:
            continue
        ip = os.path.join(scratch, 'cli_t%d.bed' % i)
        write_bed(ip, j['baits'])
        k = dict(j)
        k.update(kind='cli_target', in_path=ip, out_path=os.path.join(scratch, 'cli_t%d.out.bed' % i), avg=int(j['avg']))
        cli.append(k)
    for i, j in enumerate(jobs_a):
        if j.get('avg') is None:
            continue
        ip = os.path.join(scratch, 'cli_a%d.bed' % i)
        write_bed(ip, j['targets'])
        k = dict(j)
        k.update(kind='cli_antitarget', in_path=ip, out_path=os.path.join(scratch, 'cli_a%d.out.bed' % i))
        if j['access'] is not None:
            k['access_path'] = os.path.join(scratch, 'cli_a%d.access.bed' % i)
            write_bed(k['access_path'], j['access'], with_gene=False)
        cli.append(k)
    run_batch(ck, runner, cli, 'cli')


def corpus_jobs():
    path = os.path.join(vlib.VERIF, 'corpus', 'c12.json')
    if not os.path.exists(path):
        return []
    out = []
    for c in json.load(open(path)):
        j = {k: v for k, v in c.items() if k != 'note'}
        out.append(j)
    return out


def run(ck, scratch):
    ck.rule = ('bait tables per chromosome built to overlap / nest / abut / repeat / collapse to zero width, distances to the '
               'next bait around 500 and 1000, 1..3 chromosomes in chr- and plain naming incl. non-canonical contigs; access: none '
               '(guessed extents) or tables with targeted, untargeted canonical and untargeted non-canonical contigs whose region '
               'lengths are aimed at stretch = min, min +- 1, (k + 1/2) * avg and neighbours; (avg, min) incl. the defaults, min = 0, '
               'min at the guard floor(3/4 avg - 1); tables are handed over as GenomicArray.sort leaves them; exhaustive tiny scope: '
               'all multisets of <= 2 (quick) / <= 3 (thorough) baits [a, b], 0 <= a <= b <= 8, scaled by 250, through do_target '
               '--split and do_antitarget; non-trivial = some non-empty bait and split or a zero-width row (target), non-empty '
               'result (antitarget), > 1 label (labels); distinct by case hash')
    ck.explanation = ('exhaustive: true refers to the enumerated tiny scope only (coverage.exhaustive_scope); the min > 3/4 avg - 1 '
                      'regime is entered only by the canonical corpus case of the finding ' + KNOWN_MIN_SIG +
                      '; where no targeted contig is canonically named the direct oracle (contigs kept = targeted or '
                      'canonically named) is applied to the canonical corpus case of ' + NAME_LENGTH_SIG + ' only')
    ck.rule += ('; wide antitarget stream: targets on contigs absent from the access table, access rows shorter than 2 * 500, '
                'baits abutting / straddling access edges (offsets 0, +-1, +-500, +-501, +-1000, +-1001), 15..60 tiny baits inside '
                'one access row, averages 1, 2, 3, 4.5, 1000.5, 150000.25, 10^6, 10^7 and minima 0 / at the guard / above every '
                'stretch; annotation stream: refFlat and BED4 gene tables built around the baits (containing, overlapping, '
                'abutting, nested, far, repeated names, bait chromosomes without genes, no shared chromosome name), read back '
                'through tabio.read_auto; label shortening also in fresh interpreters with PYTHONHASHSEED 1, 2, 3')
    ck.unproved_remainder = [
        'float cut points of subdivide: int(i * (span / nbins)) is an oracle; its contract is checked on every supplied point',
        'round(span / avg) in floating point: the model computes round-half-even of the exact rational quotient '
        '(C12_nbins_round); the float quotient changes the count only when it lands exactly on a tie k + 1/2 the exact '
        'quotient is not on (C12_nbins_float, for every monotone rounding that fixes half-integers; that IEEE division is '
        'one is checked on every supplied point, not proved): exactly those cases are counted float_ambiguous, and there the '
        'code is compared with round-half-even of the float quotient instead of with the model',
        'which of several equally short names shorten_labels picks depends on the iteration order of a Python set of str '
        '(string hashing, PYTHONHASHSEED): C12_labels_candidates holds for every choice, C12_labels_deterministic_when '
        'covers the positions with a single candidate, C12_labels_order_dependent shows the dependence is real; the choice '
        'itself is not modelled',
        'annotation: C12_annotate_labels needs the bin table\'s chromosomes contiguous (C07 `grouped`); proved for do_target '
        'on sorted baits whose distinct names have distinct sort keys (C12_annotate_grouped, C12_annotate_do_target); a bait '
        'table mixing names with equal keys (chr1 and 1) is outside; the annotation reader (tabio.read_auto: refFlat '
        'start - 1, sorting) belongs to C08 and its output is taken as given (per chromosome sorted, proper rows)',
        'order of the chromosome blocks: proved (C12_block_order*) for key order on either path of merge and for genomic '
        'order when distinct names have distinct sort keys; a table mixing e.g. chr1 and 1 (equal keys) is outside',
        'size clause (at most 1.5 x average) is claimed for integer averages and averages >= 4: proved for avg >= 4 '
        '(C12_anti_sizes), every integer avg >= 2 (C12_anti_sizes_upper), avg = 1 given exact cuts of evenly dividing '
        'stretches (C12_anti_sizes_avg1), in general max(3/2 avg, 5/4 avg + 1); false for small non-integer averages '
        '(C12_anti_sizes_small_avg_refuted: avg 6/5, bins of 1 and 2 bases) -- generators keep to the claimed domain; the '
        'lower bound under min <= 3/4 avg - 1 or min <= 0 (C12_anti_min_refuted otherwise: open finding ' + KNOWN_MIN_SIG + ')',
        'contig rule when no targeted contig is canonically named: the code keeps untargeted contigs whose name is not longer than '
        'the longest targeted name (C12_contigs_code_rule; C12_contigs_name_length_refuted; open finding ' + NAME_LENGTH_SIG +
        '): there the direct oracle is applied to the canonical corpus case only, random cases are compared model-vs-code',
        'source ties: `min_bin_size` is read as an integer (0 = not given) because the function translator cannot merge an '
        'Optional parameter with an integer re-assignment; `int(round(span / avg_size)) or 1` is tied through its operand '
        '(no value-level `or` in the translator; the `or 1` shape is checked by the spec); loops of _split_targets and '
        'guess_chromosome_regions (no scalar arithmetic beyond the TELOMERE_SIZE constant) stay with the correspondence',
    ]
    if not ck.build_status.get('driver_ok'):
        raise RuntimeError('model driver unavailable')
    quick = ck.tier == 'quick'
    runner = Runner(8)
    try:
        # 1. corpus
        cj = corpus_jobs()
        run_batch(ck, runner, [j for j in cj if j['kind'] != 'target_annot'], 'corpus')
        run_annotation(ck, runner, scratch, [j for j in cj if j['kind'] == 'target_annot'], cls='corpus:annotate')
        # 2. exhaustive tiny scope
        max_b = 2 if quick else 3
        tiny_t, tiny_a = [], []
        acc_tiny = [['chr1', 0, 8 * 250 + 2 * MARGIN + 700]]
        for baits in tiny_scope(max_b):
            tiny_t.append({'kind': 'target', 'baits': baits, 'split': True, 'avg': 300})
            tiny_a.append({'kind': 'antitarget', 'targets': baits, 'access': acc_tiny, 'avg': 400, 'min': 250})
        ck.extra['exhaustive_scope'] = ('all multisets of <= %d baits [a, b], 0 <= a <= b <= 8 (zero-width included), scaled by 250: '
                                        '%d tables x {do_target --split avg 300, do_antitarget access chr1:0-%d avg 400 min 250}'
                                        % (max_b, len(tiny_t), acc_tiny[0][2]))
        ck.exhaustive = True
        # the float-ambiguous (span, avg) pairs of the default target average 200 / 0.75, listed exactly
        davg = 200 / 0.75
        amb_spans = [sp for sp in range(1, 100001) if nbins_exact(sp, davg)[1]]
        ck.extra['float_ambiguous_spans_default_avg'] = {
            'avg': repr(davg), 'spans_up_to': 100000, 'count': len(amb_spans), 'first': amb_spans[:25],
            'rule': 'span / avg rounds (IEEE) exactly onto k + 1/2 while the exact quotient is not a tie; none for an integer avg'}
        bad = [sp for sp in amb_spans if sp % 400 != 0]
        if bad:
            raise RuntimeError('float-ambiguous span of the default average that is not a multiple of 400: %r' % bad[:5])
        run_batch(ck, runner, tiny_t, 'tiny:target')
        run_batch(ck, runner, tiny_a, 'tiny:antitarget')
        # 3. random streams
        n_a = 450 if quick else 14000
        n_t = 250 if quick else 6000
        n_l = 300 if quick else 5000
        jobs_a = [gen_antitarget_case(ck.rng) for _ in range(n_a)]
        jobs_t = [gen_target_case(ck.rng) for _ in range(n_t)]
        jobs_l = [{'kind': 'labels', 'labels': gen_labels(ck.rng)} for _ in range(n_l)]
        for lo in range(0, len(jobs_a), 2000):
            run_batch(ck, runner, jobs_a[lo:lo + 2000], 'antitarget')
        for j in jobs_a:
            ck.cls('access:' + ('none' if j['access'] is None else 'given'))
            if j['access'] and some_canonical_target(j['targets']):
                ck.cls('contigs:targeted-or-canonical-rule')
        run_batch(ck, runner, jobs_t, 'target')
        run_batch(ck, runner, jobs_l, 'labels')
        # 3b. wider antitarget situations
        n_w = 260 if quick else 6000
        jobs_w = [gen_antitarget_wide(ck.rng) for _ in range(n_w)]
        for lo in range(0, len(jobs_w), 2000):
            run_batch(ck, runner, jobs_w[lo:lo + 2000], 'antitarget:wide')
        for j in jobs_w:
            ck.cls('wide:' + j['wide'])
        run_unsorted(ck, runner, jobs_t[:120 if quick else 3000])
        # 3c. annotation from refFlat-like gene tables
        n_an = 150 if quick else 3000
        run_annotation(ck, runner, scratch, [j for j in jobs_t if j.get('avg') is not None][:n_an])
        # 3d. label shortening under different set iteration orders
        n_h = 120 if quick else 1500
        cands = vlib.model_batch('c12_shorten', [j['labels'] for j in jobs_l[:n_h]])
        run_hash_orders(ck, scratch, jobs_l[:n_h], cands)
        dets = vlib.model_batch('c12_shorten_det', [j['labels'] for j in jobs_l[:n_h]])
        for cs, ds in zip(cands, dets):
            if not isinstance(cs, Err) and [c[0] if len(c) == 1 else None for c in cs] != ds:
                raise RuntimeError('c12_shorten_det disagrees with c12_shorten')
        # the restated chromosome sort key against the Coq model
        check_keys([r[0] for j in jobs_a + jobs_w for r in j['targets'] + (j['access'] or [])] +
                   [r[0] for j in jobs_t for r in j['baits']])
        # 4. short names / annotation / CLI helpers on a sample
        k = 40 if quick else 400
        extra_checks(ck, runner, scratch, jobs_t[:k], jobs_a[:k])
    finally:
        runner.close()


def replay(ck, body):
    case = body.get('case') or {}
    if 'kind' not in case:
        print('tie-break / obligation replay (no input case):', body.get('what'))
        print('VIOLATION property=C12 replay=(replayed case still fails)')
        return 1
    out = run_job(case)
    print('%s ->' % case['kind'], out)
    bad = False
    if case['kind'] == 'labels':
        bad = isinstance(out, Err) or len(out) != len(case['labels'])
    elif isinstance(out, Err):
        bad = True
    else:
        res = oracle_target(case, out) if 'baits' in case else oracle_antitarget(case, out)
        if res is not None:
            print('violated clause %s: %s' % (res[0], res[1]))
            bad = True
    if bad:
        print('VIOLATION property=C12 replay=(replayed case still fails)')
        return 1
    print('replayed case passes on the current tree')
    return 0
