#!/venv/bin/python
"""Self-test of the function-body translator (tools/py2v_fn.py): translation validation BY TESTING.

For every spec of tools/fnspecs/*.py whose translated region can be EXECUTED AS PYTHON on scalar stand-ins, the
region is taken from the Python AST of /repo exactly as the translator takes it (whole function / fragment / one loop
iteration, opaque ranges replaced by their declared effect), every sub-expression the spec declares as an opaque
typed input is replaced by a variable, and the resulting Python code is run on random inputs of the declared types.
The same inputs are given to the generated Gallina definition (Gen/Fn*.v, evaluated by coqc with vm_compute) and
the results are compared (integers, booleans, strings exactly; numbers at 1e-9; None / NaN as `None`).  Oracle
functions (np.log2 / np.exp2 / np.sqrt / 2 ** x) are tabulated from the Python run and handed to the Gallina
definition as lookup tables.

This validates the translator's reading of Python statements and expressions (truthiness, chained comparisons,
rounding, int(), floor division, option / NaN propagation, if-merging, continue / break / yield in a loop
iteration, ...) against Python's own semantics, on every run of setup.sh.  It is a test, not a proof: the translator
stays in the trusted base.  A mismatch is a defect of the translator (or of this self-test), never of /repo: it is
reported in coq/theories/Gen/.fn_selftest.json and by a non-zero exit code, not as a property violation.

Regions that use numpy array semantics (mask subscripts, masked stores, Series methods) or objects are executed on
scalars only when that is meaningful; when the region cannot be executed on scalars the spec is listed as
`not_executable` with the reason."""
import ast, os, sys, glob, json, math, random, subprocess, importlib.util, tempfile, copy
from fractions import Fraction

HERE = os.path.dirname(os.path.abspath(__file__))
sys.path.insert(0, HERE)
import py2v_fn as T   # noqa: E402

REPO = T.REPO
COQ = os.path.normpath(os.path.join(HERE, '..', 'coq'))
NCASES = int(os.environ.get('FN_SELFTEST_CASES', '60'))
STR_POOL = ['chrX', 'chrY', 'X', 'Y', 'x', 'y', 'chr1', '1', '', 'CHRX', 'chry', 'Antitarget', '-', 'DUP', 'a,b']


class NotExecutable(Exception):
    pass


def _un(x):
    return x.v if isinstance(x, (E, EB)) else x


class EB:
    """one element of a boolean numpy array / pandas Series"""
    def __init__(self, v):
        self.v = bool(_un(v))
    def __bool__(self):
        return self.v
    def __and__(self, o):
        return EB(self.v and bool(_un(o)))
    __rand__ = __and__
    def __or__(self, o):
        return EB(self.v or bool(_un(o)))
    __ror__ = __or__
    def __invert__(self):
        return EB(not self.v)
    def __eq__(self, o):
        return EB(self.v == bool(_un(o)))
    def __ne__(self, o):
        return EB(self.v != bool(_un(o)))
    __hash__ = None
    def all(self):
        return self.v
    def any(self):
        return self.v
    def sum(self):
        return int(self.v)
    @property
    def values(self):
        return self
    def astype(self, kind):
        return E(int(self.v)) if kind in ('int', int, 'float', float) else self
    def __index__(self):
        return int(self.v)


class E:
    """one element of a numeric numpy array / pandas Series: NaN-propagating arithmetic, NaN compares false"""
    def __init__(self, v):
        v = _un(v)
        self.v = float('nan') if v is None else v
    def _nan(self):
        return isinstance(self.v, float) and math.isnan(self.v)
    def _bin(self, o, f):
        o = _un(o)
        if o is None:
            o = float('nan')
        try:
            return E(f(self.v, o))
        except ZeroDivisionError:
            raise
    def __add__(self, o): return self._bin(o, lambda a, b: a + b)
    def __radd__(self, o): return self._bin(o, lambda a, b: b + a)
    def __sub__(self, o): return self._bin(o, lambda a, b: a - b)
    def __rsub__(self, o): return self._bin(o, lambda a, b: b - a)
    def __mul__(self, o): return self._bin(o, lambda a, b: a * b)
    def __rmul__(self, o): return self._bin(o, lambda a, b: b * a)
    def __truediv__(self, o): return self._bin(o, lambda a, b: a / b)
    def __rtruediv__(self, o): return self._bin(o, lambda a, b: b / a)
    def __floordiv__(self, o): return self._bin(o, lambda a, b: a // b)
    def __mod__(self, o): return self._bin(o, lambda a, b: a % b)
    def __pow__(self, o): return self._bin(o, lambda a, b: a ** b)
    def __rpow__(self, o): return self._bin(o, lambda a, b: b ** a)
    def __neg__(self): return E(-self.v)
    def __abs__(self): return E(abs(self.v))
    def __lt__(self, o): return EB(self.v < _un(o))
    def __le__(self, o): return EB(self.v <= _un(o))
    def __gt__(self, o): return EB(self.v > _un(o))
    def __ge__(self, o): return EB(self.v >= _un(o))
    def __eq__(self, o): return EB(self.v == _un(o))
    def __ne__(self, o): return EB(self.v != _un(o))
    __hash__ = None
    def __bool__(self):
        return bool(self.v)
    def __float__(self):
        return float(self.v)
    def __int__(self):
        return int(self.v)
    def __index__(self):
        if isinstance(self.v, int):
            return self.v
        raise TypeError('not an integer element')
    def __getitem__(self, m):
        if isinstance(m, (EB, bool)):
            return self            # v[mask]: the element itself, read under the guard
        raise NotExecutable('subscript of an element by %r' % (m,))
    def __str__(self):
        return str(self.v)
    def __format__(self, spec):
        return format(self.v, spec)
    def round(self, nd=0):
        import numpy as np
        return E(self.v if self._nan() else float(np.round(self.v, nd)))
    def abs(self):
        return E(abs(self.v))
    def clip(self, lo=None, hi=None, lower=None, upper=None):
        lo = _un(lo if lo is not None else lower)
        hi = _un(hi if hi is not None else upper)
        v = self.v
        if self._nan():
            return E(v)
        if lo is not None and not (isinstance(lo, float) and math.isnan(lo)):
            v = max(v, lo)
        if hi is not None and not (isinstance(hi, float) and math.isnan(hi)):
            v = min(v, hi)
        return E(v)
    def fillna(self, val):
        return E(_un(val)) if self._nan() else self
    def isnull(self):
        return EB(self._nan())
    isna = isnull
    def notnull(self):
        return EB(not self._nan())
    notna = notnull
    def replace(self, a, b):
        return E(_un(b)) if self.v == _un(a) else self
    def astype(self, kind):
        if kind in ('int', int, 'int64'):
            if self._nan():
                raise ValueError('cannot convert NaN to integer')
            return E(int(self.v))
        return E(float(self.v))
    @property
    def values(self):
        return self


def _wrap_np(np, mk):
    class NPW:
        def __getattr__(self, a):
            f = getattr(np, a)
            if a == 'nan':
                return f
            if a in ('log2', 'sqrt', 'exp2'):
                g = mk(a, f)
            else:
                g = f
            if not callable(f):
                return f
            def h(*args, **kw):
                wrapped = any(isinstance(x, (E, EB)) for x in args)
                r = g(*[_un(x) for x in args], **{k: _un(v) for k, v in kw.items()})
                if wrapped:
                    import numpy as _np
                    if isinstance(r, (_np.bool_, bool)):
                        return EB(bool(r))
                    if isinstance(r, _np.generic):
                        r = r.item()
                    return E(r)
                return r
            return h
    return NPW()


def mangle(key):
    return 'v_' + ''.join(c if c.isalnum() else '_' for c in key).strip('_')


class Subst(ast.NodeTransformer):
    """replace every sub-expression whose source text is a declared key by a variable; stores likewise"""
    def __init__(self, keys):
        self.keys = keys

    def generic_visit(self, node):
        if isinstance(node, ast.expr) and not isinstance(node, (ast.Name, ast.Constant)):
            try:
                k = ast.unparse(node)
            except Exception:
                k = None
            if k in self.keys:
                ctx = getattr(node, 'ctx', ast.Load())
                return ast.copy_location(ast.Name(id=self.keys[k], ctx=type(ctx)()), node)
        return super().generic_visit(node)

    def visit_Name(self, node):
        if node.id in self.keys:
            return ast.copy_location(ast.Name(id=self.keys[node.id], ctx=type(node.ctx)()), node)
        return node


class Pow2(ast.NodeTransformer):
    def visit_BinOp(self, node):
        self.generic_visit(node)
        if isinstance(node.op, ast.Pow) and isinstance(node.left, ast.Constant) and node.left.value in (2, 2.0):
            return ast.copy_location(ast.Call(func=ast.Name(id='_exp2', ctx=ast.Load()), args=[node.right], keywords=[]), node)
        return node


def region_of(tr, fnode, sp):
    """the statements the translator translates, before desugaring, + mode"""
    stmts = list(fnode.body)
    if stmts and isinstance(stmts[0], ast.Expr) and isinstance(stmts[0].value, ast.Constant):
        stmts = stmts[1:]
    frag = sp.get('fragment')
    if frag:
        # the translator looks the fragment up AFTER desugaring; desugared statements are executable Python as well,
        # except masked stores, which become conditional expressions on scalars -- exactly the per-element reading
        tr.guards = []
        tr.yield_types = None
        st = tr.find_fragment(tr.desugar(fnode.body), frag['first'], frag['last'])
        if st is None:
            raise NotExecutable('fragment not found')
        return st, 'fragment'
    loop = sp.get('loop')
    if loop:
        tr.guards = []
        tr.yield_types = None
        node = tr.find_loop(tr.desugar(fnode.body), loop['first'])
        if node is None:
            raise NotExecutable('loop not found')
        body = list(node.body)
        tr.loop_carried = [(c, t) for c, t in sp['carried']]
        for oq in sp.get('opaque', []):
            body = tr.replace_opaque(body, oq, ast.unparse(ast.Module(body=list(node.body), type_ignores=[])))
        return body, 'loop'
    tr.guards = []
    tr.yield_types = None
    return tr.desugar(stmts), 'function'


def gen_value(ty, rng):
    if ty == 'Z':
        return rng.choice([0, 1, 2, 3, -1, 5, 7, 10, 40, rng.randint(-6, 60)])
    if ty == 'Q':
        return rng.choice([0.0, 1.0, 0.5, -0.5, 2.0, 0.25, -1.0, 0.75, 1.5, rng.randint(-64, 64) / 16.0])
    if ty == 'B':
        return rng.random() < 0.5
    if ty == 'S':
        return rng.choice(STR_POOL)
    if ty == 'OQ':
        return None if rng.random() < 0.3 else gen_value('Q', rng)
    if ty == 'OZ':
        return None if rng.random() < 0.3 else gen_value('Z', rng)
    if ty == 'OB':
        return rng.choice([None, True, False])
    if ty == 'LS':
        return [rng.choice(STR_POOL) for _ in range(rng.choice([0, 0, 1, 2, 3]))]
    if ty == 'LZ':
        import numpy as _np
        return _np.array(sorted(rng.randint(0, 40) for _ in range(rng.choice([0, 1, 2, 3, 4]))), dtype=int)
    raise NotExecutable('no generator for type %s' % ty)


def coq_lit(v, ty):
    if ty == 'Z':
        return '(%d)%%Z' % int(v)
    if ty == 'Q':
        f = Fraction(v)
        return '((%d) # %d)%%Q' % (f.numerator, f.denominator)
    if ty == 'B':
        return 'true' if v else 'false'
    if ty == 'S':
        return T.slit(v)
    if ty in ('OQ', 'OZ', 'OB'):
        return 'None' if v is None else '(Some %s)' % coq_lit(v, ty[1])
    if ty == 'LS':
        return '[%s]' % '; '.join(T.slit(x) for x in v) if v else '(@nil string)'
    if ty == 'LZ':
        return '[%s]' % '; '.join('(%d)%%Z' % int(x) for x in v) if len(v) else '(@nil Z)'
    raise NotExecutable('no literal for type %s' % ty)


def canon(v, ty):
    """python result -> canonical value of the declared type (or raises ValueError when it does not fit)"""
    import numpy as np
    if isinstance(v, np.generic):
        v = v.item()
    if ty == 'B':
        if isinstance(v, bool):
            return v
        raise ValueError('not a bool: %r' % (v,))
    if ty == 'Z':
        if isinstance(v, bool):
            return int(v)
        if isinstance(v, int):
            return v
        if isinstance(v, float) and v == int(v):
            return int(v)
        raise ValueError('not an int: %r' % (v,))
    if ty == 'Q':
        if isinstance(v, bool):
            v = int(v)
        if isinstance(v, (int, float)) and math.isfinite(v):
            return Fraction(v)
        raise ValueError('not a finite number: %r' % (v,))
    if ty == 'S':
        if isinstance(v, str):
            return v
        raise ValueError('not a str')
    if ty in ('OQ', 'OZ', 'OB'):
        if v is None or (isinstance(v, float) and math.isnan(v)):
            return None
        return canon(v, ty[1])
    if ty == 'LS':
        return [canon(x, 'S') for x in v]
    if ty == 'LZ':
        return [canon(x, 'Z') for x in list(v)]
    raise ValueError('type %s' % ty)


def eq_term(term, exp, ty):
    """Coq boolean: term (of Coq type ty) equals the expected canonical python value"""
    if ty == 'Z':
        return '(Z.eqb %s %s)' % (term, coq_lit(exp, 'Z'))
    if ty == 'B':
        return '(Bool.eqb %s %s)' % (term, coq_lit(exp, 'B'))
    if ty == 'S':
        return '(String.eqb %s %s)' % (term, coq_lit(exp, 'S'))
    if ty == 'Q':
        tol = '(1 # 1000000000)'
        e = coq_lit(exp, 'Q')
        scale = max(Fraction(1), abs(Fraction(exp)))
        return '(Qle_bool (Qabs (%s - %s)) (%s * %s))' % (term, e, tol, coq_lit(scale, 'Q'))
    if ty in ('OQ', 'OZ', 'OB'):
        if exp is None:
            return '(match %s with None => true | Some _ => false end)' % term
        return '(match %s with Some x_ => %s | None => false end)' % (term, eq_term('x_', exp, ty[1]))
    if ty == 'LS':
        return '(list_beq string String.eqb %s %s)' % (term, coq_lit(exp, 'LS'))
    if ty == 'LZ':
        return '(list_beq Z Z.eqb %s %s)' % (term, coq_lit(exp, 'LZ'))
    raise NotExecutable('no comparison for type %s' % ty)


def run_spec(modname, rel, sp, tree, tr, rng, oracle_names):
    if sp.get('tries') or sp.get('row_filter') or sp.get('columns'):
        raise NotExecutable('guarded call / row filter / column reading (tries, row_filter, columns)')
    if sp.get('element') or sp.get('attr_stores') or sp.get('slice_views'):
        # single-element readings of slice stores / attribute stores / table slices: the raw Python works on whole
        # arrays and objects, which have no scalar stand-in here
        raise NotExecutable('element / attribute / slice-view reading (element, attr_stores, slice_views)')
    fnode = T.find_func(tree, sp['name'])
    stmts, mode = region_of(tr, fnode, sp)
    plist = []
    for p in sp['params']:
        key, ty = p[0], p[1]
        try:
            nk = ast.unparse(ast.parse(key, mode='eval').body)
        except SyntaxError:
            nk = key
        plist.append((nk, ty))
    if any(ty == 'Y' for _, ty in plist) and not sp.get('yields'):
        raise NotExecutable('Y parameter without yields')
    keys = {}
    for k, _ in plist:
        m = mangle(k)
        while m in keys.values():
            m += '_'
        keys[k] = m
    carried = [(ast.unparse(ast.parse(c, mode='eval').body), t) for c, t in sp.get('carried', [])]
    returns = [ast.unparse(ast.parse(r, mode='eval').body) for r in sp.get('returns', [])]
    for c, _ in carried:
        keys.setdefault(c, mangle(c))
    # a desugared `arr[i] = e` carries both readings (masked store / element store); the translator takes the element
    # store when i is an integer: do the same here (i is an integer when it is a Z-typed key)
    zkeys = {k for k, t in plist if t == 'Z'}
    def unmark(sts):
        out = []
        for st in sts:
            if isinstance(st, ast.If):
                st = ast.If(test=st.test, body=unmark(st.body), orelse=unmark(st.orelse))
            elif isinstance(st, ast.Assign) and getattr(st.value, '_store', None) is not None:
                tgt, elem_val = st.value._store
                if ast.unparse(tgt.slice) in zkeys:
                    st = ast.Assign(targets=[ast.parse(ast.unparse(tgt)).body[0].value], value=elem_val)
                    keys.setdefault(ast.unparse(tgt), mangle(ast.unparse(tgt)))
            out.append(st)
        return out
    stmts = unmark(stmts)
    # every string-keyed store target of the region is a variable named by its source text
    for x in ast.walk(ast.Module(body=stmts, type_ignores=[])):
        if isinstance(x, ast.Subscript) and isinstance(x.slice, ast.Constant) and isinstance(x.slice.value, str):
            par = ast.unparse(x)
            if any(isinstance(t, ast.Subscript) and ast.unparse(t) == par
                   for a in ast.walk(ast.Module(body=stmts, type_ignores=[])) if isinstance(a, ast.Assign) for t in a.targets):
                keys.setdefault(par, mangle(par))
    if sp.get('yield_record'):
        rec = sp['yield_record']
        stmts = copy.deepcopy(stmts)
        for x in ast.walk(ast.Module(body=stmts, type_ignores=[])):
            if isinstance(x, ast.Yield) and x.value is not None:
                try:
                    x.value = ast.Tuple(elts=tr.record_fields(x.value, rec), ctx=ast.Load())
                except T.Refuse as e:
                    raise NotExecutable('yield_record: %s' % e)
            elif isinstance(x, ast.Call) and isinstance(x.func, ast.Name) and x.func.id == 'yield_append__':
                try:
                    x.args = [ast.Tuple(elts=tr.record_fields(x.args[0], rec), ctx=ast.Load())]
                except T.Refuse as e:
                    raise NotExecutable('yield_record: %s' % e)
    body = [Pow2().visit(Subst(keys).visit(copy.deepcopy(s))) for s in stmts]
    # round trip through source text: unshares nodes the desugaring reuses and restores Load / Store contexts
    body = [x for st in body for x in ast.parse(ast.unparse(ast.fix_missing_locations(st))).body]
    ytypes = sp.get('yields')
    class YieldFix(ast.NodeTransformer):
        def visit_Assign(self, node):
            if len(node.targets) == 1 and isinstance(node.targets[0], ast.Name) and node.targets[0].id == 'yield__':
                return ast.copy_location(ast.Expr(value=ast.YieldFrom(value=node.value.args[0])), node)
            return node
    body = [ast.fix_missing_locations(YieldFix().visit(b)) for b in body]
    # wrapper
    src = ['def _region(_env):', '    globals().update(_env)'] if False else []
    fn = ast.parse('def _region():\n    pass\n').body[0]
    params = [keys[k] for k, _ in plist]
    fn.args.args = [ast.arg(arg=a) for a in params]
    pre = []
    for k, t, term in sp.get('init', []):
        nk = ast.unparse(ast.parse(k, mode='eval').body)
        val = {'""%string': "''", '(inject_Z 0)': '0.0', '0': '0', 'None': 'None', 'false': 'False', 'true': 'True'}.get(term)
        if val is None:
            raise NotExecutable('init term %s' % term)
        pre.append(ast.parse('%s = %s' % (keys.get(nk, nk if nk.isidentifier() else mangle(nk)), val)).body[0])
        keys.setdefault(nk, nk if nk.isidentifier() else mangle(nk))
    ay = sp.get('append_yields')
    if ay:
        pre.append(ast.parse('%s = []' % ay).body[0])
    if mode == 'loop':
        loop = ast.parse('for _once in (0,):\n    pass\nelse:\n    _st["brk"] = False\n').body[0]
        loop.body = body or [ast.Pass()]
        tail = ast.parse('_st["locals"] = dict(locals())').body[0]
        fn.body = pre + [ast.parse('_st["brk"] = True').body[0], loop, tail]
        if not ytypes or ay:
            fn.body.append(ast.parse('return None').body[0])
    elif mode == 'fragment':
        tail = ast.parse('_st["locals"] = dict(locals())').body[0]
        fn.body = pre + body + [tail]
    else:
        fn.body = pre + body
    m = ast.Module(body=[fn], type_ignores=[])
    ast.fix_missing_locations(m)
    code = compile(m, '<selftest %s>' % sp['coq'], 'exec')
    import numpy as np
    import pandas as pd
    oracle_log = {o: {} for o in ('log2', 'exp2', 'sqrt')}

    def mk(name, f):
        def g(x):
            r = f(x)
            try:
                oracle_log[name][Fraction(float(x))] = Fraction(float(r))
            except (ValueError, OverflowError):
                pass
            return r
        return g

    _st = {}
    npw = _wrap_np(np, mk)
    def _exp2(x):
        r = mk('exp2', lambda y: 2.0 ** y)(_un(x))
        return E(r) if isinstance(x, E) else r
    def _yield_extend(x):
        return x
    class MathW:
        def __getattr__(self, a):
            f = getattr(math, a)
            if a in ('sqrt', 'log2'):
                g = mk(a, f)
                return lambda x: (E(g(_un(x))) if isinstance(x, E) else g(x))
            if callable(f):
                return lambda *xs: f(*[_un(x) for x in xs])
            return f
    ns = {'np': npw, 'numpy': npw, 'math': MathW(), 'pd': pd, '_st': _st, '_exp2': _exp2, 'logging': __import__('logging'),
          'abs': lambda x: x.abs() if isinstance(x, E) else abs(x),
          'max': lambda *a: (E(max(*[_un(x) for x in a])) if any(isinstance(x, E) for x in a) else max(*a)),
          'min': lambda *a: (E(min(*[_un(x) for x in a])) if any(isinstance(x, E) for x in a) else min(*a))}
    # other functions of the same module that the translator can call
    try:
        modpy = importlib.import_module(rel[:-3].replace('/', '.'))
        for other in tr.specs:
            if '.' not in other and hasattr(modpy, other):
                ns[other] = getattr(modpy, other)
        for nm in dir(modpy):
            if nm.isupper():
                ns.setdefault(nm, getattr(modpy, nm))
    except Exception:
        pass
    # functions of the module the region may call: the real source, with `2 ** x` and the numpy oracles routed through
    # the recording wrappers of this namespace
    for other in tr.specs:
        if '.' in other:
            continue
        try:
            f2 = copy.deepcopy(T.find_func(tree, other))
            f2.decorator_list = []
            f2 = Pow2().visit(f2)
            m2 = ast.Module(body=[f2], type_ignores=[])
            ast.fix_missing_locations(m2)
            exec(compile(m2, '<selftest callee %s>' % other, 'exec'), ns)
        except Exception:
            pass
    exec(code, ns)
    region = ns['_region']
    rty = sp['ret'] if isinstance(sp['ret'], list) else [sp['ret']]
    if mode == 'loop':
        rty = [t for _, t in carried]
    def unwrap(x):
        if isinstance(x, (E, EB)):
            return x.v
        if isinstance(x, tuple):
            return tuple(unwrap(y) for y in x)
        return x
    ns['yield_extend__'] = lambda x: x
    return_exprs = {}
    for r in returns:
        if r not in keys and not r.isidentifier():
            return_exprs[r] = compile(ast.Expression(body=ast.fix_missing_locations(
                ast.parse(ast.unparse(Pow2().visit(Subst(keys).visit(ast.parse(r, mode='eval').body))), mode='eval').body)), '<ret>', 'eval')
    cases, skipped = [], {}
    # `~`, `&`, `|` are numpy mask operators (on Python bools they are integer operators): such regions are vector code
    probe = list(ast.walk(ast.Module(body=body, type_ignores=[]))) + [x for r in returns for x in ast.walk(ast.parse(r, mode='eval'))]
    elementwise = any(isinstance(x, (ast.Invert, ast.BitAnd, ast.BitOr)) for x in probe)
    for _ in range(NCASES * 4):
        if len(cases) >= NCASES:
            break
        vals = []
        for k, ty in plist:
            if ty == 'Y':
                n = rng.choice([0, 0, 1, 2])
                vals.append([tuple(gen_value(t, rng) for t in ytypes) for _ in range(n)])
            else:
                vals.append(gen_value(ty, rng))
        for o in oracle_log.values():
            o.clear()
        _st.clear()
        got = None
        for attempt in (0, 1):
            args = []
            for (k, ty), v in zip(plist, vals):
                if elementwise and ty in ('Q', 'Z', 'OQ', 'OZ'):
                    args.append(E(v))
                elif elementwise and ty == 'B':
                    args.append(EB(v))
                elif v is None and attempt == 1:
                    args.append(float('nan'))
                else:
                    args.append(v)
            try:
                import logging as _lg
                _lg.disable(_lg.CRITICAL)
                out = region(*args)
                if ytypes and mode == 'loop':
                    out = list(out) if out is not None else []
                    if ay:
                        out = list(_st['locals'][ay])
                got = ('ok', out)
                break
            except (ZeroDivisionError, AssertionError, ValueError, OverflowError) as e:
                got = ('raise', type(e).__name__)
                break
            except (TypeError, AttributeError) as e:
                got = ('typeerror', '%s: %s' % (type(e).__name__, e))
                if elementwise or not any(v is None for v in vals):
                    break
            except NotExecutable:
                raise
            except Exception as e:
                raise NotExecutable('%s: %s' % (type(e).__name__, str(e)[:120]))
        if got[0] != 'ok':
            if got[0] == 'typeerror' and not elementwise:
                # numpy / pandas vector code: start over, the numbers and masks being ONE ELEMENT of the arrays
                elementwise = True
                skipped = {}
                cases = []
                continue
            skipped[got[0]] = skipped.get(got[0], 0) + 1
            if got[0] == 'typeerror' and skipped['typeerror'] > NCASES:
                raise NotExecutable(got[1][:160])
            continue
        try:
            if mode == 'function' or (mode == 'fragment' and 'locals' not in _st):
                res = unwrap(got[1])
                res = list(res) if isinstance(sp['ret'], list) else [res]
                exp = [canon(unwrap(r), t) for r, t in zip(res, rty)]
                extra = []
            else:
                loc = _st['locals']
                names = [c for c, _ in carried] if mode == 'loop' else returns
                tys = rty if mode == 'loop' else (sp['ret'] if isinstance(sp['ret'], list) else [sp['ret']])
                exp = []
                for nme, t in zip(names, tys):
                    if nme in return_exprs:
                        try:
                            rv = eval(return_exprs[nme], ns, loc)
                        except AttributeError:
                            # a Series method on a value the region left as a plain number: read it as one element
                            wl = {k2: (E(v2) if isinstance(v2, (int, float)) and not isinstance(v2, bool) else v2) for k2, v2 in loc.items()}
                            rv = eval(return_exprs[nme], ns, wl)
                        exp.append(canon(unwrap(rv), t))
                        continue
                    var = keys.get(nme, nme)
                    if var not in loc:
                        raise NotExecutable('variable %s unbound after the region' % nme)
                    exp.append(canon(unwrap(loc[var]), t))
                rty = list(tys)
                extra = []
                if mode == 'loop' and ytypes:
                    ys = [tuple(canon(unwrap(c), t) for c, t in zip((y if isinstance(y, tuple) else (y,)), ytypes)) for y in got[1]]
                    extra.append(('Y', ys))
                if mode == 'loop' and tr_has_break(sp, tr, tree):
                    extra.append(('B', bool(_st['brk'])))
        except (ValueError, ZeroDivisionError, OverflowError) as e:
            skipped['untyped result'] = skipped.get('untyped result', 0) + 1
            continue
        except (TypeError, AttributeError, NameError) as e:
            raise NotExecutable('reading the results: %s: %s' % (type(e).__name__, str(e)[:120]))
        cases.append((vals, exp, extra, {k: dict(v) for k, v in oracle_log.items()}))
    return plist, rty, cases, skipped, ytypes


_break_cache = {}


def tr_has_break(sp, tr, tree):
    key = (sp['name'], sp['coq'])
    if key not in _break_cache:
        t2 = T.FnTranslator(tr.rel, list(tr.specs.values()))
        text = t2.function(T.find_func(tree, sp['name']), dict(sp))
        _break_cache[key] = bool(t2.loop_has_break)
    return _break_cache[key]


def main():
    rng = random.Random(int(os.environ.get('VERIF_SEED') or 20260926))
    sys.path.insert(0, REPO)
    report = {'specs': 0, 'executed': 0, 'cases': 0, 'mismatches': [], 'not_executable': {}, 'skipped_inputs': {}}
    vfile = ['From Coq Require Import ZArith QArith Qabs String List Bool.',
             'From CNV Require Import Base.Str Base.QNum.', 'Import ListNotations.', 'Open Scope Z_scope.',
             'Definition lookupQ (tbl : list (Q * Q)) (x : Q) : Q := match find (fun p => Qle_bool (Qabs (fst p - x)) ((1 # 1000000000000) * (1 + Qabs x))) tbl with Some p => snd p | None => 0%Q end.   (* the argument Python passed is a float: an inexact quotient differs from the exact one in the last bits *)',
             'Fixpoint list_beq (A : Type) (eq : A -> A -> bool) (a b : list A) : bool := match a, b with [] , [] => true | x :: a\', y :: b\' => eq x y && list_beq A eq a\' b\' | _, _ => false end.']
    index = []   # (spec id, n cases)
    imported = set()
    for f in sorted(glob.glob(os.path.join(HERE, 'fnspecs', '*.py'))):
        spec = importlib.util.spec_from_file_location('fnspec_' + os.path.basename(f)[:-3], f)
        m = importlib.util.module_from_spec(spec)
        spec.loader.exec_module(m)
        for mod, (rel, fns) in m.MODULES.items():
            path = os.path.join(REPO, rel)
            if not os.path.exists(os.path.join(COQ, 'theories', 'Gen', mod + '.v')):
                continue
            tree = ast.parse(open(path).read(), rel)
            gen_text = open(os.path.join(COQ, 'theories', 'Gen', mod + '.v')).read()
            all_oracles = [l.split()[1] for l in gen_text.splitlines() if l.startswith('Variable ')]
            # a Section variable is abstracted only in the definitions that use it (directly or through a call)
            import re as _re
            bodies = {}
            for mt in _re.finditer(r'Definition (\w+) [^\n]*:=\n(.*?)\.\n\n', gen_text, _re.S):
                bodies[mt.group(1)] = mt.group(2)
            uses = {d: {o for o in all_oracles if _re.search(r'\(%s ' % o, b)} for d, b in bodies.items()}
            changed = True
            while changed:
                changed = False
                for d, b in bodies.items():
                    for d2 in bodies:
                        if d2 != d and _re.search(r'\(%s[ )]' % d2, b) and not uses[d2] <= uses[d]:
                            uses[d] |= uses[d2]; changed = True
            for sp in fns:
                report['specs'] += 1
                sid = '%s.%s' % (mod, sp['coq'])
                tr = T.FnTranslator(rel, fns)
                try:
                    # defaults of called functions are filled in by translating the module's earlier functions
                    for sp2 in fns:
                        if sp2 is sp:
                            break
                        try:
                            tr.function(T.find_func(tree, sp2['name']), sp2)
                        except T.Refuse:
                            pass
                    oracles = [o for o in all_oracles if o in uses.get(sp['coq'], set(all_oracles))]
                    plist, rty, cases, skipped, ytypes = run_spec(mod, rel, dict(sp), tree, tr, rng, oracles)
                    if not cases:
                        raise NotExecutable('no input executed (%s)' % skipped)
                    ycoq = None
                    if ytypes:
                        ycoq = '(%s)' % ' * '.join(T.COQTY[t] for t in ytypes)
                    terms = []
                    for vals, exp, extra, olog in cases:
                        args = []
                        for (k, ty), v in zip(plist, vals):
                            if ty == 'Y':
                                items = ['(%s)' % ', '.join(coq_lit(c, t) for c, t in zip(y, ytypes)) for y in v]
                                args.append('[%s]' % '; '.join(items) if items else '(@nil %s)' % ycoq)
                            else:
                                args.append(coq_lit(v, ty))
                        otabs = []
                        for o in oracles:
                            tbl = '; '.join('(%s, %s)' % (coq_lit(a, 'Q'), coq_lit(b, 'Q')) for a, b in olog.get(o, {}).items())
                            otabs.append('(lookupQ [%s])' % tbl)
                        call = '(%s.%s %s)' % (mod, sp['coq'], ' '.join(otabs + args))
                        comps = list(zip(rty, exp)) + [(t, e) for t, e in extra]
                        n = len(comps)
                        if n == 1:
                            names = ['r0_']
                            pat = 'r0_'
                        else:
                            names = ['r%d_' % i for i in range(n)]
                            pat = "'(" + ', '.join(names) + ')'
                        conds = []
                        for nm, (t, e) in zip(names, comps):
                            if t == 'Y':
                                items = ['(%s)' % ', '.join(coq_lit(c, tt) for c, tt in zip(y, ytypes)) for y in e]
                                lit = '[%s]' % '; '.join(items) if items else '(@nil %s)' % ycoq
                                # compare tuples componentwise through their printed literals: lengths + each component
                                conds.append('(Nat.eqb (length %s) %d)' % (nm, len(e)))
                                for j, y in enumerate(e):
                                    comp = ['x%d_' % i for i in range(len(ytypes))]
                                    cpat = comp[0] if len(comp) == 1 else "'(" + ', '.join(comp) + ')'
                                    inner = ' && '.join(eq_term(c, yv, tt) for c, yv, tt in zip(comp, y, ytypes))
                                    dflt = '(' + ', '.join(coq_lit(gen_value(tt, random.Random(0)) if tt not in ('OQ', 'OZ') else None, tt) for tt in ytypes) + ')' \
                                        if len(ytypes) > 1 else coq_lit(gen_value(ytypes[0], random.Random(0)), ytypes[0])
                                    conds.append('(let %s := nth %d %s %s in %s)' % (cpat, j, nm, dflt, inner))
                            else:
                                conds.append(eq_term(nm, e, t))
                        terms.append('(let %s := %s in %s)' % (pat, call, ' && '.join(conds)))
                    if mod not in imported:
                        vfile.append('From CNV Require Gen.%s.' % mod)
                        vfile.append('Module %s := Gen.%s.' % (mod, mod))
                        imported.add(mod)
                    vfile.append('Eval vm_compute in ("@@%s"%%string, [%s]).' % (sid, '; '.join(terms)))
                    index.append((sid, cases))
                    report['executed'] += 1
                    report['cases'] += len(cases)
                    if skipped:
                        report['skipped_inputs'][sid] = skipped
                except NotExecutable as e:
                    report['not_executable'][sid] = str(e)
                except T.Refuse as e:
                    report['not_executable'][sid] = 'translator refuses: %s' % e
    out = os.path.join(COQ, 'theories', 'Gen', 'fn_selftest_cases.v')
    open(out, 'w').write('\n'.join(vfile) + '\n')
    p = subprocess.run(['coqc', '-Q', 'theories', 'CNV', out], cwd=COQ, capture_output=True, text=True, timeout=1200)
    text = p.stdout
    if p.returncode != 0:
        report['coq_error'] = (p.stderr or p.stdout)[-1500:]
    else:
        chunks = text.split('"@@')[1:]
        for (sid, cases), ch in zip(index, chunks):
            toks = [t for t in ch.replace('[', ' ').replace(']', ' ').replace(';', ' ').replace(')', ' ').split() if t in ('true', 'false')]
            if len(toks) != len(cases):
                report['mismatches'].append({'spec': sid, 'error': 'could not parse %d results for %d cases' % (len(toks), len(cases))})
                continue
            for tok, (vals, exp, extra, olog) in zip(toks, cases):
                if tok == 'false':
                    report['mismatches'].append({'spec': sid, 'inputs': repr(vals), 'python': repr(exp) + repr(extra)})
    for ext in ('.v', '.vo', '.glob', '.vok', '.vos'):
        try:
            os.remove(out[:-2] + ext)
        except OSError:
            pass
    try:
        os.remove(os.path.join(COQ, 'theories', 'Gen', '.fn_selftest_cases.aux'))
    except OSError:
        pass
    report['mismatches'] = report['mismatches'][:40]
    json.dump(report, open(os.path.join(COQ, 'theories', 'Gen', '.fn_selftest.json'), 'w'), indent=1, default=str)
    print('translator self-test: %d of %d specs executed as Python on %d inputs; %d mismatch(es); %d not executable on scalars%s'
          % (report['executed'], report['specs'], report['cases'], len(report['mismatches']), len(report['not_executable']),
             '; COQ ERROR' if 'coq_error' in report else ''))
    return 1 if (report['mismatches'] or 'coq_error' in report) else 0


if __name__ == '__main__':
    sys.exit(main())
