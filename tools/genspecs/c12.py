"""cnvlib/target.py + cnvlib/antitarget.py (+ the constants of cnvlib/params.py they use and the
CLI defaults of cnvlib/commands.py) -> Gen/BinsDefaults.v (property C12)."""
import ast


def _num(T, node, what):
    if isinstance(node, ast.Constant) and isinstance(node.value, (int, float)) and not isinstance(node.value, bool):
        return node.value
    raise T.Refuse('%s: not a numeric literal: %s' % (what, ast.unparse(node)))


def _number_expr(T, node, what):
    """a numeric literal, or a quotient of two numeric literals evaluated as Python
    evaluates it (float division), e.g. the `200 / 0.75` default of do_target."""
    if isinstance(node, ast.BinOp) and isinstance(node.op, ast.Div):
        a, b = _num(T, node.left, what), _num(T, node.right, what)
        if b == 0:
            raise T.Refuse('%s: division by zero' % what)
        return a / b
    return _num(T, node, what)


def _assign_in(T, rel, qual, var):
    f = T.find_func(rel, qual)
    hits = [n for n in ast.walk(f) if isinstance(n, ast.Assign)
            and any(isinstance(t, ast.Name) and t.id == var for t in n.targets)]
    if len(hits) != 1:
        raise T.Refuse('%s:%s: expected exactly one assignment to %s, found %d' % (rel, qual, var, len(hits)))
    return hits[0].value


def _cli_option(T, parser, option, key):
    """value node of keyword `key` in  <parser>.add_argument(..., '<option>', ..., key=...)  of
    cnvlib/commands.py; None when the keyword is absent."""
    rel = 'cnvlib/commands.py'
    hits = []
    for n in ast.walk(T.tree(rel)):
        if (isinstance(n, ast.Call) and isinstance(n.func, ast.Attribute) and n.func.attr == 'add_argument'
                and isinstance(n.func.value, ast.Name) and n.func.value.id == parser
                and any(isinstance(a, ast.Constant) and a.value == option for a in n.args)):
            hits.append(n)
    if len(hits) != 1:
        raise T.Refuse('%s: expected one %s.add_argument(%r), found %d' % (rel, parser, option, len(hits)))
    for k in hits[0].keywords:
        if k.arg == key:
            return k.value
    return None


def specs(T):
    P = 'cnvlib/params.py'
    TG = 'cnvlib/target.py'
    AT = 'cnvlib/antitarget.py'

    # ---- antitarget.py
    # pad_size = 2 * INSERT_SIZE
    pad = _assign_in(T, AT, 'get_antitargets', 'pad_size')
    if not (isinstance(pad, ast.BinOp) and isinstance(pad.op, ast.Mult)
            and isinstance(pad.right, ast.Name) and pad.right.id == 'INSERT_SIZE'):
        raise T.Refuse('%s: pad_size is no longer <n> * INSERT_SIZE: %s' % (AT, ast.unparse(pad)))
    pad_factor = _num(T, pad.left, 'pad_size factor')
    # min_bin_size = 2 * int(avg_bin_size * (2**MIN_REF_COVERAGE))
    mn = _assign_in(T, AT, 'do_antitarget', 'min_bin_size')
    ok = (isinstance(mn, ast.BinOp) and isinstance(mn.op, ast.Mult) and isinstance(mn.right, ast.Call)
          and ast.unparse(mn.right.func) == 'int' and len(mn.right.args) == 1)
    if ok:
        inner = mn.right.args[0]
        ok = (isinstance(inner, ast.BinOp) and isinstance(inner.op, ast.Mult)
              and ast.unparse(inner.left) == 'avg_bin_size'
              and isinstance(inner.right, ast.BinOp) and isinstance(inner.right.op, ast.Pow)
              and ast.unparse(inner.right.right) == 'MIN_REF_COVERAGE')
    if not ok:
        raise T.Refuse('%s: default min_bin_size is no longer <n> * int(avg_bin_size * <b> ** MIN_REF_COVERAGE): %s'
                       % (AT, ast.unparse(mn)))
    min_factor = _num(T, mn.left, 'min_bin_size factor')
    min_base = _num(T, mn.right.args[0].right.left, 'min_bin_size base')
    T.body_contains(AT, 'do_antitarget', 'if not min_bin_size:')
    if T.default(AT, 'do_antitarget', 'min_bin_size') is not None or T.default(AT, 'do_antitarget', 'access') is not None:
        raise T.Refuse('%s: do_antitarget defaults access=None, min_bin_size=None changed' % AT)
    T.body_contains(AT, 'get_antitargets', 'if accessible:')
    T.body_contains(AT, 'get_antitargets', 'accessible = drop_noncanonical_contigs(accessible, targets)')
    T.body_contains(AT, 'get_antitargets', 'accessible = guess_chromosome_regions(targets, TELOMERE_SIZE)')
    T.body_contains(AT, 'get_antitargets',
                    'accessible.resize_ranges(-pad_size).subtract(targets.resize_ranges(pad_size))'
                    '.subdivide(avg_bin_size, min_bin_size)')
    T.body_contains(AT, 'get_antitargets', "bg_arr['gene'] = ANTITARGET_NAME")
    T.body_contains(AT, 'guess_chromosome_regions', 'subarr.end.iat[-1]')
    T.body_contains(AT, 'guess_chromosome_regions', "'start': telomere_size")
    T.body_contains(AT, 'drop_noncanonical_contigs', 'untgt_chroms = access_chroms - target_chroms')
    T.body_contains(AT, 'drop_noncanonical_contigs', 'if any((is_canonical_contig_name(c) for c in target_chroms)):')
    T.body_contains(AT, 'drop_noncanonical_contigs',
                    'chroms_to_skip = [c for c in untgt_chroms if not is_canonical_contig_name(c)]')
    T.body_contains(AT, 'drop_noncanonical_contigs',
                    'chroms_to_skip = [c for c in untgt_chroms if len(c) > max_tgt_chr_name_len]')
    T.body_contains(AT, 'compare_chrom_names', 'if a_chroms and a_chroms.isdisjoint(b_chroms):')
    T.body_contains(AT, 'is_canonical_contig_name', 'return not re_noncanonical.search(name)')

    # ---- target.py
    T.body_contains(TG, 'do_target', 'tgt_arr = tgt_arr[tgt_arr.start != tgt_arr.end]')
    T.body_contains(TG, 'shorten_labels', "next_names = set(label.rstrip().split(','))")
    T.body_contains(TG, 'shortest_name', "if len(name) > 2 and '|' in name[1:-1]:")
    T.body_contains(TG, 'shortest_name', "name = name.split('|')[-1]")
    T.body_contains(TG, 'shortest_name', 'name = min(filter_names(names), key=len)')
    T.body_contains(TG, 'filter_names', 'if len(names) > 1:')
    T.body_contains(TG, 'filter_names', 'ok_names = set((n for n in names if not any((n.startswith(ex) for ex in exclude))))')
    T.body_contains(TG, 'shorten_labels', 'overlap = curr_names.intersection(next_names)')
    T.body_contains(TG, 'shorten_labels', 'curr_names = filter_names(overlap)')
    # annotation: compare_chrom_names(tgt_arr, annotation); if len(tgt_arr): tgt_arr["gene"] = list(annotation.into_ranges(tgt_arr, "gene", "-"))
    T.body_contains(TG, 'do_target', 'annotation = tabio.read_auto(annotate)')
    T.body_contains(TG, 'do_target', 'antitarget.compare_chrom_names(tgt_arr, annotation)')
    T.body_contains(TG, 'do_target', 'if len(tgt_arr):')
    T.body_contains(TG, 'do_target', "tgt_arr['gene'] = list(annotation.into_ranges(tgt_arr, ")
    target_avg = _number_expr(T, T.default_node(TG, 'do_target', 'avg_size'), 'do_target avg_size')

    # ---- CLI defaults (cnvkit.py target / antitarget)
    cli_target_avg = _number_expr(T, _cli_option(T, 'P_target', '--avg-size', 'default'), 'target --avg-size')
    cli_anti_avg = _number_expr(T, _cli_option(T, 'P_anti', '--avg-size', 'default'), 'antitarget --avg-size')
    if _cli_option(T, 'P_anti', '--min-size', 'default') is not None:
        raise T.Refuse('cnvlib/commands.py: antitarget --min-size now has a default')

    return {'BinsDefaults': [
        ('INSERT_SIZE', 'Z', T.const(P, 'INSERT_SIZE')),
        ('MIN_REF_COVERAGE', 'Q', T.const(P, 'MIN_REF_COVERAGE')),
        ('ANTITARGET_NAME', 'string', T.const(P, 'ANTITARGET_NAME')),
        ('TELOMERE_SIZE', 'Z', T.local(AT, 'get_antitargets', 'TELOMERE_SIZE')),
        ('pad_factor', 'Z', pad_factor),
        ('min_size_factor', 'Z', min_factor),
        ('min_size_base', 'Z', min_base),
        ('antitarget_avg_default', 'Q', T.default(AT, 'do_antitarget', 'avg_bin_size')),
        ('cli_antitarget_avg_default', 'Q', cli_anti_avg),
        ('target_avg_default', 'Q', target_avg),
        ('cli_target_avg_default', 'Q', cli_target_avg),
        # tgt_arr.subdivide(avg_size, 0)
        ('target_min_size', 'Z', T.call_arg(TG, 'do_target', 'subdivide', 1)),
        ('do_split_default', 'bool', T.default(TG, 'do_target', 'do_split')),
        ('do_short_names_default', 'bool', T.default(TG, 'do_target', 'do_short_names')),
        # shorten_labels: labels are split at ",", accessions at "|"; filter_names(names, exclude=("mRNA",))
        ('label_sep', 'string', ','),
        ('accession_sep', 'string', '|'),
        ('name_exclude', 'list string', T.default(TG, 'filter_names', 'exclude')),
        # annotation.into_ranges(tgt_arr, "gene", "-")
        ('annotate_column', 'string', T.call_arg(TG, 'do_target', 'into_ranges', 1)),
        ('annotate_default', 'string', T.call_arg(TG, 'do_target', 'into_ranges', 2)),
    ]}
