"""cnvlib/fix.py (+ the helpers it calls) -> Gen/FixDefaults.v

Constants, default arguments and in-body literals the C04 model depends on.  Function bodies are
not translated; a few source fragments whose shape the model mirrors are fingerprinted with
body_contains so that a rewrite of the anchored code is refused (tie reported as broken)."""


def specs(T):
    F = 'cnvlib/fix.py'
    C = 'cnvlib/cnary.py'
    S = 'cnvlib/smoothing.py'
    G = 'skgenome/gary.py'

    # ---- apply_weights ------------------------------------------------------------------
    eps = T.default(F, 'apply_weights', 'epsilon')
    x = T.local(F, 'apply_weights', 'x')
    T.body_contains(F, 'apply_weights', 'weights = x * fancy_wt + (1 - x) * simple_wt')
    T.body_contains(F, 'apply_weights', 'fancy_wt = 1.0 - ref_matched[spread_key] ** 2')
    T.body_contains(F, 'apply_weights', 'weights.clip(epsilon, 1.0)')
    T.body_contains(F, 'apply_weights', 'tgt_simple_wts = 1 - tgt_var / (bin_sz / bin_sz.mean())')
    T.body_contains(F, 'apply_weights', 'anti_simple_wts = 1 - anti_var / (anti_bin_sz / anti_bin_sz.mean())')
    T.body_contains(F, 'apply_weights',
                    'if (ref_matched[spread_key] > epsilon).any() and (np.abs(np.mod(ref_matched[log2_key], 1)) > epsilon).any():')
    T.body_contains(F, 'apply_weights', "is_anti = cnarr['gene'].isin(params.ANTITARGET_ALIASES)")

    # ---- mask_bad_bins: the shape of the filter (operators) ---------------------------------
    T.body_contains(F, 'mask_bad_bins',
                    "mask = (cnarr['log2'] < params.MIN_REF_COVERAGE) | (cnarr['log2'] > -params.MIN_REF_COVERAGE) | "
                    "(cnarr['spread'] > params.MAX_REF_SPREAD)")
    T.body_contains(F, 'mask_bad_bins', "mask |= cnarr['depth'] == 0")
    T.body_contains(F, 'mask_bad_bins', "mask |= (cnarr['gc'] > upper_gc_bound) | (cnarr['gc'] < lower_gc_bound)")

    # ---- load_adjust_coverages -----------------------------------------------------------------
    T.body_contains(F, 'load_adjust_coverages',
                    "(cnarr['log2'] > params.NULL_LOG2_COVERAGE - params.MIN_REF_COVERAGE).sum() <= len(cnarr) // 2")
    T.body_contains(F, 'load_adjust_coverages', 'edge_bias = get_edge_bias(cnarr, params.INSERT_SIZE)')
    # does the code bring the sample into genomic order before matching?  (it does since /repo 9f02d63,
    # the repair of the positional pairing of unsorted samples; the model follows this flag and
    # Proofs/FixBins.presort_eq stops compiling if the sort disappears)
    presorts = '.sort()' in T.func_source(F, 'load_adjust_coverages')

    # ---- center_by_window: the seed of the shuffle ------------------------------------------------
    seed = T.call_arg(F, 'center_by_window', 'np.random.seed', 0)
    T.body_contains(F, 'center_by_window', "order = np.argsort(sort_key, kind='mergesort')")
    T.body_contains(F, 'center_by_window', 'shuffle_order = np.random.permutation(df.index)')

    # ---- edge formula -------------------------------------------------------------------------------
    T.body_contains(F, 'edge_losses', 'losses = insert_size / (2 * target_sizes)')
    T.body_contains(F, 'edge_losses', 'losses[small_mask] -= (insert_size - t_small) ** 2 / (2 * insert_size * t_small)')
    T.body_contains(F, 'edge_gains', 'gains = (insert_size - gap_sizes) ** 2 / (4 * insert_size * target_sizes)')
    T.body_contains(F, 'edge_gains',
                    'gains[past_other_side_mask] -= (insert_size - t_past - g_past) ** 2 / (4 * insert_size * t_past)')
    T.body_contains(F, 'get_edge_bias', 'ok_gaps_mask = gap_sizes < margin')

    # ---- drop_low_coverage / center_all / autosomes ----------------------------------------------------
    T.body_contains(C, 'CopyNumArray.drop_low_coverage', 'min_cvg = params.NULL_LOG2_COVERAGE - params.MIN_REF_COVERAGE')
    T.body_contains(C, 'CopyNumArray.drop_low_coverage', "drop_idx = self.data['log2'] < min_cvg")
    T.body_contains(C, 'CopyNumArray.drop_low_coverage', "drop_idx |= self.data['depth'] == 0")
    auto_pat = T.call_arg(G, 'GenomicArray.autosomes', 'self.chromosome.str.match', 0)

    # ---- rolling median -----------------------------------------------------------------------------------
    min_wing = T.default(S, '_width2wing', 'min_wing')
    T.body_contains(S, 'rolling_median', 'rolled = signal.rolling(2 * wing + 1, 1, center=True).median()')
    T.body_contains(S, '_pad_array', 'return np.concatenate((x[wing - 1::-1], x, x[:-wing - 1:-1]))')

    # ---- do_fix: the clustered-reference path (do_cluster=True) is OUTSIDE the model; with the default the log2 /
    # spread columns subtracted and weighted are the plain ones
    do_cluster = T.default(F, 'do_fix', 'do_cluster')
    log2_key = T.local(F, 'do_fix', 'log2_key')
    spread_key = T.local(F, 'do_fix', 'spread_key')
    T.body_contains(F, 'do_fix', "cnarr.data['log2'] -= ref_matched[log2_key]")
    T.body_contains(F, 'do_fix', 'cnarr = apply_weights(cnarr, ref_matched, log2_key, spread_key)')
    T.body_contains(F, 'do_fix', 'cnarr.center_all(skip_low=True, diploid_parx_genome=diploid_parx_genome)')

    return {'FixDefaults': [
        ('weight_epsilon', 'Q', eps),
        ('weight_blend_x', 'Q', x),
        ('shuffle_seed', 'Z', seed),
        ('autosome_pattern', 'string', auto_pat),
        ('min_wing', 'Z', min_wing),
        ('fix_presorts', 'bool', presorts),
        ('fix_do_cluster_default', 'bool', do_cluster),
        ('fix_log2_key', 'string', log2_key),
        ('fix_spread_key', 'string', spread_key),
    ]}
