"""cnvlib/call.py + cnvlib/cnary.py -> Gen/CallDefaults.v (C01 clonal calls, C02 threshold calls).

Everything the models Model/Call.v, Model/Threshold.v and Model/Baf.v take from the
Python source as *data*: default arguments, in-body literals, the label strings of
the two chromosome classifiers.  Literals that sit inside expressions (not reachable
by a literal locator) are guarded by `body_contains` on the normalised source of the
statement they occur in: if the statement changes, the translator refuses."""


def specs(T):
    C = 'cnvlib/call.py'
    A = 'cnvlib/cnary.py'

    # --- do_call ------------------------------------------------------------------
    thresholds = T.default(C, 'do_call', 'thresholds')
    ploidy_default = T.default(C, 'do_call', 'ploidy')
    purity_limit = T.compare_with(C, 'do_call', 'purity', 'Lt')          # purity < 1.0
    clip_lower = T.call_kw(C, 'do_call', 'clip', 'lower')                # .clip(lower=0)
    T.body_contains(C, 'do_call', "if purity and purity < 1.0:")
    T.body_contains(C, 'do_call', "outarr['cn'] = absolutes.round().astype('int')")
    T.body_contains(C, 'do_call',
                    "upper_baf = ((outarr['baf'] - 0.5).abs() + 0.5).fillna(1.0).values")
    baf_mid, baf_fill = 0.5, 1.0
    T.body_contains(C, 'do_call',
                    "outarr['cn1'] = (absolutes * upper_baf).round().clip(0, outarr['cn']).astype('int')")
    cn1_clip_low = 0
    T.body_contains(C, 'do_call', "outarr['cn2'] = outarr['cn'] - outarr['cn1']")
    T.body_contains(C, 'do_call', "is_null = outarr['baf'].isnull() & (outarr['cn'] > 0)")
    null_cn_above = T.compare_with(C, 'do_call', "outarr['cn']", 'Gt')   # cn > 0

    # --- log2_ratios --------------------------------------------------------------
    min_abs_val = T.default(C, 'log2_ratios', 'min_abs_val')
    nums = T.numbers_in(C, 'log2_ratios')
    if nums != [min_abs_val, 1.0, 1.0]:
        raise T.Refuse('%s:log2_ratios: numeric literals are %r, expected [min_abs_val, 1.0, 1.0]' % (C, nums))
    T.body_contains(C, 'log2_ratios', "ratios = np.log2(np.maximum(absolutes / ploidy, min_abs_val))")
    T.body_contains(C, 'log2_ratios', "ratios[cnarr.chr_x_filter(diploid_parx_genome).values] += 1.0")
    T.body_contains(C, 'log2_ratios', "ratios[cnarr.chr_y_filter(diploid_parx_genome).values] += 1.0")
    sex_shift = 1.0

    # --- reference / expected copies (dataframe path) -------------------------------
    G = 'get_as_dframe_and_set_reference_and_expect_copies'
    for frag in ("= ploidy // 2 if is_haploid_x_reference else ploidy",
                 "= ploidy if is_sample_female else ploidy // 2",
                 "df.loc[cnarr.chr_y_filter(diploid_parx_genome), 'reference'] = ploidy // 2",
                 "df.loc[cnarr.chr_y_filter(diploid_parx_genome), 'expect'] = 0 if is_sample_female else ploidy // 2",
                 "df.loc[cnarr.pary_filter(diploid_parx_genome), 'reference'] = 0",
                 "df.loc[cnarr.pary_filter(diploid_parx_genome), 'expect'] = 0"):
        T.body_contains(C, G, frag)
    gnums = T.numbers_in(C, G)
    if gnums != [2, 2, 2, 0, 2, 0, 0]:
        raise T.Refuse('%s:%s: numeric literals are %r, expected [2, 2, 2, 0, 2, 0, 0]' % (C, G, gnums))
    half_div, y_female_expect, pary_copies = 2, 0, 0

    # --- pure path classifier -------------------------------------------------------
    R = '_reference_copies_pure'
    ins = [(l, v) for (l, o, v) in T.compares(C, R) if o == 'In']
    if [l for l, _ in ins] != ['chrom', 'chrom']:
        raise T.Refuse('%s:%s: expected two membership tests on chrom, found %r' % (C, R, ins))
    pure_y, pure_x = ins[0][1], ins[1][1]
    T.body_contains(C, R, "chrom = chrom.lower()")
    T.body_contains(C, R, "if chrom in ['chry', 'y'] or (is_haploid_x_reference and chrom in ['chrx', 'x']):")
    T.body_contains(C, R, "ref_copies = ploidy // 2")
    if T.numbers_in(C, R) != [2]:
        raise T.Refuse('%s:%s: unexpected numeric literals' % (C, R))

    # --- conversions ----------------------------------------------------------------
    T.body_contains(C, '_log2_ratio_to_absolute',
                    "ncopies = (ref_copies * 2 ** log2_ratio - expect_copies * (1 - purity)) / purity")
    T.body_contains(C, '_log2_ratio_to_absolute', "if purity and purity < 1.0:")
    T.body_contains(C, '_log2_ratio_to_absolute_pure', "ncopies = ref_copies * 2 ** log2_ratio")

    # --- threshold scan -------------------------------------------------------------
    T.body_contains(C, 'absolute_threshold', "if row.log2 <= thresh:")
    T.body_contains(C, 'absolute_threshold', "cnum = int(cnum * ref_copies / ploidy)")
    T.body_contains(C, 'absolute_threshold',
                    "cnum = int(np.ceil(_log2_ratio_to_absolute_pure(row.log2, ref_copies)))")
    # the whole per-row body, statement for statement: Model/Threshold.v `scan_row` / `scan_loop` is its literal
    # transcription (Proofs/CallScan.v: C02_scan_equiv ties that walk to first_le / scale_cn / thr_cn)
    T.body_contains(C, 'absolute_threshold', "\n".join([
        "    absolutes = np.zeros(len(cnarr), dtype=np.float64)",
        "    for idx, row in enumerate(cnarr):",
        "        ref_copies = _reference_copies_pure(row.chromosome, ploidy, is_haploid_x_reference)",
        "        if np.isnan(row.log2):",
        "            logging.warning('log2=nan found; replacing with neutral copy number %s', ref_copies)",
        "            absolutes[idx] = ref_copies",
        "            continue",
        "        cnum = 0",
        "        for cnum, thresh in enumerate(thresholds):",
        "            if row.log2 <= thresh:",
        "                if ref_copies != ploidy:",
        "                    cnum = int(cnum * ref_copies / ploidy)",
        "                break",
        "        else:",
        "            cnum = int(np.ceil(_log2_ratio_to_absolute_pure(row.log2, ref_copies)))",
        "        absolutes[idx] = cnum",
        "    return absolutes"]))
    # the order in which do_call composes the pieces (Model/Baf.v `do_call_row`): purity rewrite first, then the
    # method on the rewritten table, then cn and the allelic split
    T.body_contains(C, 'do_call', "\n".join([
        "    if variants:",
        "        outarr['baf'] = variants.baf_by_ranges(outarr).values",
        "    if purity and purity < 1.0:",
        "        logging.info('Rescaling sample with purity %g, ploidy %d', purity, ploidy)",
        "        absolutes = absolute_clonal(outarr, ploidy, purity, is_haploid_x_reference, diploid_parx_genome, is_sample_female).clip(lower=0)",
        "        outarr['log2'] = log2_ratios(outarr, absolutes, ploidy, is_haploid_x_reference, diploid_parx_genome)",
        "        if variants:",
        "            outarr['baf'] = rescale_baf(purity, outarr['baf'])",
        "    elif method == 'clonal':",
        "        logging.info('Calling copy number with clonal ploidy %d', ploidy)",
        "        absolutes = absolute_pure(outarr, ploidy, is_haploid_x_reference)",
        "    if method == 'threshold':"]))
    T.body_contains(C, 'do_call', "absolutes = absolute_threshold(outarr, ploidy, thresholds, is_haploid_x_reference)")
    T.body_contains(C, 'do_call', "\n".join([
        "    if method != 'none':",
        "        outarr['cn'] = absolutes.round().astype('int')",
        "        if 'baf' in outarr:"]))
    T.body_contains(C, 'do_call', "\n".join([
        "            outarr[is_null, 'cn1'] = np.nan",
        "            outarr[is_null, 'cn2'] = np.nan"]))

    # --- BAF rescale ----------------------------------------------------------------
    normal_baf = T.default(C, 'rescale_baf', 'normal_baf')
    T.body_contains(C, 'rescale_baf', "tumor_baf = (observed_baf - normal_baf * (1 - purity)) / purity")

    # --- chromosome labels (cnary) ----------------------------------------------------
    T.body_contains(A, 'CopyNumArray.chr_x_label',
                    "chr_x_label = 'chrX' if self.chromosome.iat[0].startswith('chr') else 'X'")
    T.body_contains(A, 'CopyNumArray.chr_y_label',
                    "chr_y = 'chrY' if self.chr_x_label.startswith('chr') else 'Y'")
    chr_prefix, x_chr, x_plain, y_chr, y_plain = 'chr', 'chrX', 'X', 'chrY', 'Y'
    for f, a, b in (('parx_filter', 'PAR1X', 'PAR2X'), ('pary_filter', 'PAR1Y', 'PAR2Y')):
        T.body_contains(A, 'CopyNumArray.' + f, "genome_build = genome_build.lower()")
        T.body_contains(A, 'CopyNumArray.' + f, "par1_start, par1_end = params.PSEUDO_AUTSOMAL_REGIONS[genome_build]['%s']" % a)
        T.body_contains(A, 'CopyNumArray.' + f, "par2_start, par2_end = params.PSEUDO_AUTSOMAL_REGIONS[genome_build]['%s']" % b)
        T.body_contains(A, 'CopyNumArray.' + f,
                        "f &= (self.start >= par1_start) & (self.end <= par1_end) | (self.start >= par2_start) & (self.end <= par2_end)")

    return {'CallDefaults': [
        ('call_thresholds', 'list Q', list(thresholds)),
        ('call_ploidy_default', 'Z', ploidy_default),
        ('purity_limit', 'Q', purity_limit),
        ('clip_lower', 'Q', clip_lower),
        ('baf_mid', 'Q', baf_mid),
        ('baf_fill', 'Q', baf_fill),
        ('cn1_clip_low', 'Z', cn1_clip_low),
        ('null_cn_above', 'Z', null_cn_above),
        ('min_abs_val', 'Q', min_abs_val),
        ('sex_shift_log2', 'Z', sex_shift),
        ('half_div', 'Z', half_div),
        ('y_female_expect', 'Z', y_female_expect),
        ('pary_copies', 'Z', pary_copies),
        ('pure_y_names', 'list string', list(pure_y)),
        ('pure_x_names', 'list string', list(pure_x)),
        ('normal_baf', 'Q', normal_baf),
        ('chr_prefix', 'string', chr_prefix),
        ('x_label_chr', 'string', x_chr),
        ('x_label_plain', 'string', x_plain),
        ('y_label_chr', 'string', y_chr),
        ('y_label_plain', 'string', y_plain),
        ('par_keys_x', 'list string', ['PAR1X', 'PAR2X']),
        ('par_keys_y', 'list string', ['PAR1Y', 'PAR2Y']),
    ]}
