"""C08: coordinate offsets of every tabio reader/writer, default field values and
the regex sources of format_patterns / re_label  ->  Gen/Formats.v

Offsets are located in the AST: every `X += k` / `X -= k` / `X + k` / `X - k`
inside the named function where the source of X mentions `start` and k is an
integer literal.  A function may hold at most one such node (more refuses, fail-closed);
the signed sum is the generated offset (0 for the 0-based formats)."""
import ast


def _start_offset(T, rel, qual, expect):
    f = T.find_func(rel, qual)
    hits = []
    for n in ast.walk(f):
        if isinstance(n, ast.AugAssign) and isinstance(n.op, (ast.Add, ast.Sub)) \
                and 'start' in ast.unparse(n.target):
            try:
                k = ast.literal_eval(n.value)
            except Exception:
                raise T.Refuse('%s:%s: non-literal update of start: %s' % (rel, qual, ast.unparse(n)))
            hits.append(k if isinstance(n.op, ast.Add) else -k)
        elif isinstance(n, ast.BinOp) and isinstance(n.op, (ast.Add, ast.Sub)) \
                and 'start' in ast.unparse(n.left) and isinstance(n.right, ast.Constant) \
                and isinstance(n.right.value, int) and not isinstance(n.right.value, bool):
            k = n.right.value
            hits.append(k if isinstance(n.op, ast.Add) else -k)
        elif isinstance(n, ast.BinOp) and isinstance(n.op, ast.Add) \
                and 'start' in ast.unparse(n.right) and isinstance(n.left, ast.Constant) \
                and isinstance(n.left.value, int) and not isinstance(n.left.value, bool):
            hits.append(n.left.value)
    # `expect` documents the count on the tree the models were written for; 0 or 1 are
    # both translated (the model follows the code, the Props table decides), more refuses
    if len(hits) > 1:
        raise T.Refuse('%s:%s: expected at most one integer offset applied to start (normally %d), found %r'
                       % (rel, qual, expect, hits))
    return sum(hits)


def _format_patterns(T, rel):
    """format_patterns = collections.OrderedDict([(name, re.compile(<str> | '\\t'.join((<str>, ...)))), ...])
    -> ordered list of (name, [column sub-patterns])."""
    e = T.const_expr(rel, 'format_patterns')
    if not (isinstance(e, ast.Call) and ast.unparse(e.func).endswith('OrderedDict') and len(e.args) == 1
            and isinstance(e.args[0], ast.List)):
        raise T.Refuse('%s: format_patterns is not OrderedDict([...])' % rel)
    out = []
    for item in e.args[0].elts:
        if not (isinstance(item, ast.Tuple) and len(item.elts) == 2):
            raise T.Refuse('%s: format_patterns entry is not a pair' % rel)
        name = T.lit(item.elts[0], 'pattern name')
        call = item.elts[1]
        if not (isinstance(call, ast.Call) and ast.unparse(call.func) == 're.compile' and len(call.args) == 1
                and not call.keywords):
            raise T.Refuse('%s: format_patterns[%s] is not re.compile(<one argument>)' % (rel, name))
        a = call.args[0]
        if isinstance(a, ast.Constant) and isinstance(a.value, str):
            pat = a.value
        elif isinstance(a, ast.Call) and isinstance(a.func, ast.Attribute) and a.func.attr == 'join' \
                and isinstance(a.func.value, ast.Constant) and a.func.value.value == '\t' and len(a.args) == 1:
            pat = '\t'.join(T.lit(a.args[0], name))
        else:
            raise T.Refuse('%s: format_patterns[%s]: unsupported pattern expression %s' % (rel, name, ast.unparse(a)))
        out.append((name, pat.split('\t')))
    return out


def specs(T):
    TI = 'skgenome/tabio/__init__.py'
    BED = 'skgenome/tabio/bedio.py'
    PIC = 'skgenome/tabio/picard.py'
    TXT = 'skgenome/tabio/textcoord.py'
    GFF = 'skgenome/tabio/gff.py'
    SEG = 'skgenome/tabio/seg.py'
    TAB = 'skgenome/tabio/tab.py'
    VS = 'skgenome/tabio/vcfsimple.py'
    VIO = 'skgenome/tabio/vcfio.py'
    RL = 'skgenome/rangelabel.py'

    pats = _format_patterns(T, TI)
    names = [n for n, _ in pats]
    pd = dict(pats)
    for need in ('text', 'tab', 'interval', 'refflat', 'gff', 'bed'):
        if need not in pd:
            raise T.Refuse('%s: format_patterns has no entry %s' % (TI, need))
    label_pat, label_flags = T.regex_source(RL, 're_label')
    if label_flags:
        raise T.Refuse('%s: re_label compiled with flags %s' % (RL, label_flags))

    # fingerprints of the places where default field values are filled in
    T.body_contains(BED, 'read_bed', "gene = fields[3].rstrip() if len(fields) >= 4 else '-'")
    T.body_contains(BED, 'read_bed', "strand = fields[5].rstrip() if len(fields) >= 6 else '.'")
    T.body_contains(BED, 'read_bed', "return (chrom, int(start), int(end), gene, strand)")
    T.body_contains(BED, 'write_bed4', "dframe['gene'] = '-'")
    T.body_contains(PIC, 'read_interval', "dframe.fillna({'gene': '-'}, inplace=True)")
    T.body_contains(PIC, 'read_interval', "names=['chromosome', 'start', 'end', 'strand', 'gene']")
    T.body_contains(PIC, 'write_interval', "dframe['gene'] = '-'")
    T.body_contains(PIC, 'write_interval', "dframe['strand'] = '+'")
    T.body_contains(PIC, 'write_interval', "['chromosome', 'start', 'end', 'strand', 'gene']")
    T.body_contains(TXT, 'read_text', "table['gene'] = table['gene'].replace('', '-')")
    T.body_contains(TXT, 'write_text', "return dframe.apply(to_label, axis=1)")
    T.body_contains(RL, 'to_label', "f'{row.chromosome}:{row.start + 1}-{row.end}'")
    T.body_contains(RL, 'from_label', "gene = gene or ''")
    T.body_contains(SEG, 'parse_seg', "dframe['gene'] = '-'")
    T.body_contains(SEG, 'parse_seg', "groupby(by='sample_id', sort=False)")
    T.body_contains(SEG, 'format_seg', "reindex_cols = ['ID', 'chrom', 'loc.start', 'loc.end', 'seg.mean']")
    T.body_contains(SEG, 'write_seg', "if chrom_ids in (None, True):")
    T.body_contains(VIO, '_parse_records', "start = record.start")
    T.body_contains('skgenome/gary.py', 'GenomicArray.sort',
                    "sort_values(by=['_sort_key_', 'start', 'end'], kind='mergesort')")
    T.body_contains(TI, 'read', "result.sort()")

    # ---- extension: BED column rule, GFF gene extraction, SEG name maps, Picard, VCF ends,
    #      sorter_chrom (every statement of the function bodies the models mirror)
    T.body_contains(BED, 'read_bed', "fields = line.split('\\t', 6)")
    T.body_contains(BED, 'read_bed', "chrom, start, end = fields[:3]")
    T.body_contains(BED, 'read_bed', "if firstline.startswith('browser '):")
    T.body_contains(BED, 'read_bed', "if not firstline.startswith('track'):")
    T.body_contains(BED, 'read_bed', "if line.startswith('track'):\n                    break")
    T.body_contains(BED, 'write_bed', "if len(dframe.columns) == 3:\n        return write_bed3(dframe)")
    T.body_contains(BED, 'write_bed', "return dframe")
    T.body_contains(BED, 'read_bed3', "table.loc[:, ['chromosome', 'start', 'end']]")
    T.body_contains(BED, 'read_bed4', "table.loc[:, ['chromosome', 'start', 'end', 'gene']]")

    T.body_contains(GFF, 'read_gff', "colnames = ['chromosome', 'source', 'type', 'start', 'end', 'score', 'strand', 'phase', 'attribute']")
    T.body_contains(GFF, 'read_gff', "comment='#'")
    T.body_contains(GFF, 'read_gff', "na_filter=False")
    T.body_contains(GFF, 'read_gff', ".sort_values(['chromosome', 'start', 'end']).reset_index(drop=True)")
    T.body_contains(GFF, 'read_gff', "if keep_type:\n        ok_type = dframe['type'] == keep_type")
    T.body_contains(GFF, 'read_gff', "dframe = dframe[ok_type]")
    T.body_contains(GFF, 'read_gff', "matches = dframe['attribute'].str.extract(rx, expand=True)['gene']")
    T.body_contains(GFF, 'read_gff', "dframe['gene'] = dframe['gene'].fillna('-').astype('str')")
    T.body_contains(GFF, 'read_gff', "dframe['gene'] = ['-'] * len(dframe)")
    gff_rx = None
    for n in ast.walk(T.find_func(GFF, 'read_gff')):
        if isinstance(n, ast.Call) and ast.unparse(n.func) == 're.compile' and len(n.args) == 1 \
                and isinstance(n.args[0], ast.BinOp) and isinstance(n.args[0].op, ast.Add) \
                and isinstance(n.args[0].left, ast.Name) and n.args[0].left.id == 'tag' \
                and isinstance(n.args[0].right, ast.Constant) and isinstance(n.args[0].right.value, str):
            if gff_rx is not None:
                raise T.Refuse('%s: read_gff compiles more than one tag pattern' % GFF)
            gff_rx = n.args[0].right.value
    if gff_rx is None:
        raise T.Refuse('%s: read_gff: re.compile(tag + <literal>) not found' % GFF)
    gff_tag = T.default(GFF, 'read_gff', 'tag')
    import re as _re
    if not _re.fullmatch(r'\(\w+(\|\w+)*\)', gff_tag or ''):
        raise T.Refuse('%s: read_gff default tag %r is not a group of literal alternatives' % (GFF, gff_tag))
    gff_tags = gff_tag[1:-1].split('|')
    if T.default(GFF, 'read_gff', 'keep_type') is not None:
        raise T.Refuse('%s: read_gff keep_type default is not None' % GFF)

    T.body_contains(SEG, 'parse_seg', "if chrom_names:\n        dframe['chromosome'] = dframe['chromosome'].replace(chrom_names)")
    T.body_contains(SEG, 'parse_seg', "if chrom_prefix:\n        dframe['chromosome'] = dframe['chromosome'].apply(lambda c: chrom_prefix + c)")
    T.body_contains(SEG, 'create_chrom_ids', "((chrom, i + 1) for i, chrom in enumerate(segments.chromosome.drop_duplicates()) if str(i + 1) != chrom)")
    T.body_contains(SEG, 'format_seg', "chroms = dframe.chromosome.replace(chrom_ids) if chrom_ids else dframe.chromosome")
    T.body_contains('cnvlib/commands.py', '_cmd_import_seg', "chrom_names = dict((kv.split(':') for kv in args.chromosomes.split(',')))")
    T.body_contains('cnvlib/commands.py', '_cmd_import_seg',
                    "tabio.seg.parse_seg(args.segfile, chrom_names, args.prefix, args.from_log10)")

    T.body_contains(PIC, 'read_picard_hs', "dframe.columns = ['chromosome', 'start', 'end', 'length', 'gene', 'gc', 'depth', 'ratio']")
    T.body_contains(PIC, 'read_picard_hs', "del dframe['length']")
    T.body_contains(PIC, 'write_picard_hs', "('length', dframe['end'] - dframe['start'])")
    T.body_contains(PIC, 'write_picard_hs', "('name', dframe['gene'])")

    T.body_contains(VS, 'parse_end_from_info', "if idx == -1:\n        return -1")
    T.body_contains(VS, 'parse_end_from_info', "idx = info.find(';')\n    if idx != -1:\n        info = info[:idx]\n    return int(info)")
    vcf_end_key = T.call_arg(VS, 'parse_end_from_info', 'info.find', 0, nth=0)
    skips = [v for v in T.numbers_in(VS, 'parse_end_from_info') if v not in (1,)]
    if skips != [len(vcf_end_key)]:
        raise T.Refuse('%s: parse_end_from_info: the slice after %r skips %r characters, not %d'
                       % (VS, vcf_end_key, skips, len(vcf_end_key)))
    T.body_contains(VS, 'parse_end_from_info', "info = info[idx + %d:]" % len(vcf_end_key))
    T.body_contains(VS, 'set_ends', "ref_sz = table.loc[need_end_idx, 'ref'].str.len()")
    T.body_contains(VS, 'set_ends', "alt_sz = table.loc[need_end_idx, 'alt'].str.len()")
    T.body_contains(VS, 'set_ends', "var_sz = alt_sz - ref_sz")
    T.body_contains(VS, 'set_ends', "table.loc[need_end_idx, 'end'] = table.loc[need_end_idx, 'start'] + var_sz")
    T.body_contains(VS, 'read_vcf_simple', "table['end'] = table['info'].apply(parse_end_from_info)")
    T.body_contains(VS, 'read_vcf_sites', "converters={'end': parse_end_from_info, 'qual': parse_qual}")
    T.body_contains(VS, 'read_vcf_sites', "colnames = ['chromosome', 'start', 'id', 'ref', 'alt', 'qual', 'filter', 'end']")
    T.body_contains(VIO, '_get_end', "if 'END' in info:\n        return info['END']\n    return posn + len(alt)")
    T.body_contains(VIO, '_parse_records', "for alt in record.alts:")
    T.body_contains(VIO, '_parse_records', "end = _get_end(start, alt, record.info)")

    CS = 'skgenome/chromsort.py'
    for frag in ("chrom = label[3:] if label.lower().startswith('chr') else label",
                 "nums = ''.join(takewhile(str.isdigit, chrom))",
                 "chars = chrom[len(nums):]",
                 "nums = int(nums) if nums else 0",
                 "if not chars:\n            key = (nums, '')",
                 "elif len(chars) == 1:",
                 "return key"):
        T.body_contains(CS, 'sorter_chrom', frag)
    xy = [v for (l, o, v) in T.compares(CS, 'sorter_chrom') if l == 'chrom' and o == 'In']
    if len(xy) != 1:
        raise T.Refuse('%s: sorter_chrom: expected one `chrom in (...)` test, found %r' % (CS, xy))
    ranks = [v for v in T.numbers_in(CS, 'sorter_chrom') if v >= 100]
    if len(ranks) != 3:
        raise T.Refuse('%s: sorter_chrom: expected three rank offsets, found %r' % (CS, ranks))
    T.body_contains(CS, 'sorter_chrom', "key = (%d, chrom)" % ranks[0])
    T.body_contains(CS, 'sorter_chrom', "key = (%d + nums, chars)" % ranks[1])
    T.body_contains(CS, 'sorter_chrom', "key = (%d + nums, chars)" % ranks[2])

    return {'Formats': [
        # signed offset applied to the textual start coordinate by each reader
        ('off_read_bed', 'Z', _start_offset(T, BED, 'read_bed', 0)),
        ('off_read_tab', 'Z', _start_offset(T, TAB, 'read_tab', 0)),
        ('off_read_interval', 'Z', _start_offset(T, PIC, 'read_interval', 1)),
        ('off_read_picardhs', 'Z', _start_offset(T, PIC, 'read_picard_hs', 1)),
        ('off_read_text', 'Z', _start_offset(T, TXT, 'read_text', 0)),
        ('off_from_label', 'Z', _start_offset(T, RL, 'from_label', 1)),
        ('off_read_gff', 'Z', _start_offset(T, GFF, 'read_gff', 1)),
        ('off_read_seg', 'Z', _start_offset(T, SEG, 'parse_seg', 1)),
        ('off_read_vcf_simple', 'Z', _start_offset(T, VS, 'read_vcf_simple', 1)),
        ('off_read_vcf_sites', 'Z', _start_offset(T, VS, 'read_vcf_sites', 1)),
        # vcfio takes pysam's record.start (= POS - 1, 0-based by pysam's contract) unchanged
        ('off_read_vcfio_after_pysam', 'Z', _start_offset(T, VIO, '_parse_records', 0)),
        # ... and by each writer (0-based start -> text)
        ('off_write_bed3', 'Z', _start_offset(T, BED, 'write_bed3', 0)),
        ('off_write_bed4', 'Z', _start_offset(T, BED, 'write_bed4', 0)),
        ('off_write_bed', 'Z', _start_offset(T, BED, 'write_bed', 0)),
        ('off_write_tab', 'Z', _start_offset(T, TAB, 'write_tab', 0)),
        ('off_write_interval', 'Z', _start_offset(T, PIC, 'write_interval', 1)),
        ('off_write_picardhs', 'Z', _start_offset(T, PIC, 'write_picard_hs', 1)),
        ('off_write_text', 'Z', _start_offset(T, TXT, 'write_text', 0)),
        ('off_to_label', 'Z', _start_offset(T, RL, 'to_label', 1)),
        ('off_write_seg', 'Z', _start_offset(T, SEG, 'format_seg', 1)),
        ('off_write_seg_outer', 'Z', _start_offset(T, SEG, 'write_seg', 0)),
        # default field values (their locations are fingerprinted above)
        ('bed_default_gene', 'string', '-'),
        ('bed_default_strand', 'string', '.'),
        ('interval_default_gene', 'string', '-'),
        ('interval_default_strand', 'string', '+'),
        ('text_default_gene', 'string', '-'),
        ('seg_gene', 'string', '-'),
        # regex sources: format_patterns in dictionary order, each split at the tab joints
        ('pattern_order', 'list string', names),
        ('pat_text', 'list string', pd['text']),
        ('pat_tab', 'list string', pd['tab']),
        ('pat_interval', 'list string', pd['interval']),
        ('pat_refflat', 'list string', pd['refflat']),
        ('pat_gff', 'list string', pd['gff']),
        ('pat_bed', 'list string', pd['bed']),
        ('pat_label', 'string', label_pat),
        # extension: GFF gene extraction, VCF ends, sorter_chrom ranks
        ('gff_default_tags', 'list string', gff_tags),
        ('pat_gff_gene', 'string', gff_rx),
        ('gff_default_gene', 'string', '-'),
        ('vcf_end_key', 'string', vcf_end_key),
        ('vcf_end_missing', 'Z', T.compare_with(VS, 'set_ends', 'table.end', 'Eq')),
        ('vcf_end_clip', 'Z', T.call_kw(VS, 'set_ends', 'clip', 'lower')),
        ('vcf_nonref', 'string', T.compare_with(VIO, '_parse_records', 'alt', 'Eq')),
        ('sorter_xy_names', 'list string', list(xy[0])),
        ('sorter_rank_xy', 'Z', ranks[0]),
        ('sorter_rank_single', 'Z', ranks[1]),
        ('sorter_rank_long', 'Z', ranks[2]),
    ]}
