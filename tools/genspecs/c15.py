"""cnvlib/cnary.py (center_all, drop_low_coverage, autosomes, compare_sex_chromosomes, shift_xx,
expect_flat_log2), cnvlib/descriptives.py (biweight_location), skgenome/gary.py (autosomes),
cnvlib/params.py, cnvlib/commands.py (do_sex)  ->  Gen/CenterDefaults.v"""
import ast


def specs(T):
    C = 'cnvlib/cnary.py'
    D = 'cnvlib/descriptives.py'
    G = 'skgenome/gary.py'
    P = 'cnvlib/params.py'
    K = 'cnvlib/commands.py'
    CNA = 'CopyNumArray.'

    # ---- biweight location: defaults and the shape of one iteration
    T.body_contains(D, 'biweight_location', 'mask = np.abs(w) < 1')
    T.body_contains(D, 'biweight_location', 'w = d / max(c * mad, epsilon)')
    T.body_contains(D, 'biweight_location', 'w = (1 - w ** 2) ** 2')
    T.body_contains(D, 'biweight_location', 'if weightsum == 0:')
    T.body_contains(D, 'biweight_location', 'return initial + (d[mask] * w[mask]).sum() / weightsum')
    T.body_contains(D, 'biweight_location', 'if abs(result - initial) <= epsilon:')
    T.body_contains(D, 'biweight_location', 'initial = np.median(a)')
    T.body_contains(D, 'modal_location', 'if sarr[0] == sarr[-1]:')
    T.body_contains(D, 'modal_location', 'peak = sarr[y.argmax()]')
    T.body_contains(D, 'weighted_median', 'midpoint = 0.5 * weights.sum()')
    T.body_contains(D, 'weighted_median', 'if (weights > midpoint).any():')
    T.body_contains(D, 'weighted_median', 'return a[midpoint_idx:midpoint_idx + 2].mean()')

    # ---- drop_low_coverage: the cut-off is NULL_LOG2_COVERAGE - MIN_REF_COVERAGE, strict '<', depth == 0
    T.body_contains(C, CNA + 'drop_low_coverage', 'min_cvg = params.NULL_LOG2_COVERAGE - params.MIN_REF_COVERAGE')
    T.body_contains(C, CNA + 'drop_low_coverage', "drop_idx = self.data['log2'] < min_cvg")
    T.body_contains(C, CNA + 'drop_low_coverage', "drop_idx |= self.data['depth'] == 0")
    T.body_contains(C, CNA + 'drop_low_coverage', 'return self[~drop_idx]')

    # ---- center_all: estimator table, two-level estimate, shift
    T.body_contains(C, CNA + 'center_all',
                    "est_funcs = {'mean': pd.Series.mean, 'median': pd.Series.median, "
                    "'mode': descriptives.modal_location, 'biweight': descriptives.biweight_location}")
    T.body_contains(C, CNA + 'center_all',
                    'cnarr = (self.drop_low_coverage(verbose=verbose) if skip_low else self)'
                    '.autosomes(diploid_parx_genome=diploid_parx_genome)')
    T.body_contains(C, CNA + 'center_all', 'shift = -estimator(values)')
    T.body_contains(C, CNA + 'center_all', "self.data['log2'] += shift")
    by_chrom_default = T.default(C, CNA + 'center_all', 'by_chrom')
    skip_low_default = T.default(C, CNA + 'center_all', 'skip_low')

    # ---- autosomes
    auto_re = T.call_arg(G, 'GenomicArray.autosomes', 'str.match', 0)
    T.body_contains(G, 'GenomicArray.autosomes', 'if not is_auto.any():\n        return self')
    T.body_contains(C, CNA + 'autosomes', 'also = self.parx_filter(diploid_parx_genome)')
    T.body_contains(C, CNA + 'parx_filter',
                    'f &= (self.start >= par1_start) & (self.end <= par1_end) | (self.start >= par2_start) & (self.end <= par2_end)')
    T.body_contains(C, CNA + 'pary_filter',
                    'f &= (self.start >= par1_start) & (self.end <= par1_end) | (self.start >= par2_start) & (self.end <= par2_end)')
    T.body_contains(C, CNA + 'chr_x_label', "chr_x_label = 'chrX' if self.chromosome.iat[0].startswith('chr') else 'X'")
    T.body_contains(C, CNA + 'chr_y_label', "chr_y = 'chrY' if self.chr_x_label.startswith('chr') else 'Y'")
    par = T.const(P, 'PSEUDO_AUTSOMAL_REGIONS')
    par_rows = []
    for build in sorted(par):
        for key in sorted(par[build]):
            lo, hi = par[build][key]
            par_rows.append((build, key, lo, hi))

    # ---- compare_sex_chromosomes: shifts, floor of the denominator, decision threshold
    f = T.find_func(C, CNA + 'compare_sex_chromosomes')
    xs = [n for n in ast.walk(f) if isinstance(n, ast.Assign) and len(n.targets) == 1
          and ast.unparse(n.targets[0]) in ('(female_x_shift, male_x_shift)', 'female_x_shift, male_x_shift')]
    if len(xs) != 1 or not isinstance(xs[0].value, ast.IfExp) or ast.unparse(xs[0].value.test) != 'is_haploid_x_reference':
        raise T.Refuse('compare_sex_chromosomes: X shifts are not "(a, b) if is_haploid_x_reference else (c, d)"')
    x_hap = T.lit(xs[0].value.body, 'x shifts, haploid reference')
    x_dip = T.lit(xs[0].value.orelse, 'x shifts, diploid reference')
    ycalls = [n for n in ast.walk(f) if isinstance(n, ast.Call) and ast.unparse(n.func) == 'compare_chrom'
              and len(n.args) == 4 and "chry['log2']" in ast.unparse(n.args[0])]
    if len(ycalls) != 1:
        raise T.Refuse('compare_sex_chromosomes: expected one compare_chrom(chry...) call')
    y_f, y_m = T.lit(ycalls[0].args[2], 'y female shift'), T.lit(ycalls[0].args[3], 'y male shift')
    T.body_contains(C, CNA + 'compare_sex_chromosomes', 'return female_stat / max(male_stat, 0.01)')
    T.body_contains(C, CNA + 'compare_sex_chromosomes', 'return f_diff / max(m_diff, 0.01)')
    T.body_contains(C, CNA + 'compare_sex_chromosomes', 'if stat == 0 and 0 in cont:')
    T.body_contains(C, CNA + 'compare_sex_chromosomes',
                    "median_test(auto_l, vals, ties='ignore', lambda_='log-likelihood')")
    floors = [v for v in T.numbers_in(C, CNA + 'compare_sex_chromosomes') if isinstance(v, float) and 0 < v < 1]
    if len(floors) != 2 or floors[0] != floors[1]:
        raise T.Refuse('compare_sex_chromosomes: expected the same denominator floor twice, found %r' % (floors,))
    score_cut = T.compare_with(C, CNA + 'compare_sex_chromosomes', 'combined_score', 'Gt')
    T.body_contains(C, CNA + 'guess_xx', 'return ~is_xy')

    # ---- shift_xx / expect_flat_log2
    T.body_contains(C, CNA + 'shift_xx', "outprobes[self.chr_x_filter(diploid_parx_genome), 'log2'] -= 1.0")
    T.body_contains(C, CNA + 'shift_xx', "outprobes[self.chr_x_filter(diploid_parx_genome), 'log2'] += 1.0")
    T.body_contains(C, CNA + 'shift_xx', 'if is_xx and is_haploid_x_reference:')
    T.body_contains(C, CNA + 'shift_xx', 'elif not is_xx and (not is_haploid_x_reference):')
    sx = T.numbers_in(C, CNA + 'shift_xx')
    if len(sx) != 2:
        raise T.Refuse('shift_xx: expected two numeric literals, found %r' % (sx,))
    T.body_contains(C, CNA + 'expect_flat_log2', 'cvg[idx] = -1.0')
    T.body_contains(C, CNA + 'expect_flat_log2',
                    'idx = self.chr_x_filter(diploid_parx_genome).values | self.chr_y_filter(diploid_parx_genome).values')
    T.body_contains(C, CNA + 'expect_flat_log2', 'idx = self.chr_y_filter().values')
    fl = T.numbers_in(C, CNA + 'expect_flat_log2')
    if len(fl) != 1:
        raise T.Refuse('expect_flat_log2: expected one numeric literal, found %r' % (fl,))

    # ---- do_sex
    T.body_contains(K, 'do_sex', "'Male' if is_xy else 'Female'")
    T.body_contains(K, 'do_sex', "strsign(stats['chrx_ratio']) if stats else 'NA'")
    T.body_contains(K, 'do_sex', "strsign(stats['chry_ratio']) if stats else 'NA'")
    T.body_contains(K, 'do_sex', "cna.meta['filename'] or cna.sample_id")
    T.body_contains(K, 'do_sex', 'rows = (guess_and_format(cna) for cna in cnarrs)')
    T.body_contains(K, 'do_sex', 'return pd.DataFrame.from_records(rows, columns=columns)')
    T.body_contains(K, 'do_sex', "if num > 0:\n            return '+%.3g' % num\n        return '%.3g' % num")
    T.body_contains(K, 'do_sex', 'is_xy, stats = cna.compare_sex_chromosomes(is_haploid_x_reference, diploid_parx_genome)')
    sex_columns = T.local(K, 'do_sex', 'columns')

    # ---- segment_mean
    T.body_contains('cnvlib/segmetrics.py', 'segment_mean', "if 'weight' in cnarr and cnarr['weight'].any():")
    T.body_contains('cnvlib/segmetrics.py', 'segment_mean', "return np.average(cnarr['log2'], weights=cnarr['weight'])")

    return {'CenterDefaults': [
        ('biweight_c', 'Q', T.default(D, 'biweight_location', 'c')),
        ('biweight_epsilon', 'Q', T.default(D, 'biweight_location', 'epsilon')),
        ('biweight_max_iter', 'Z', T.default(D, 'biweight_location', 'max_iter')),
        ('null_log2_coverage', 'Q', T.const(P, 'NULL_LOG2_COVERAGE')),
        ('min_ref_coverage', 'Q', T.const(P, 'MIN_REF_COVERAGE')),
        ('center_by_chrom_default', 'bool', by_chrom_default),
        ('center_skip_low_default', 'bool', skip_low_default),
        ('autosome_regex', 'string', auto_re),
        ('par_table', 'list (string * string * Z * Z)', par_rows),
        ('x_shift_female_hapref', 'Q', x_hap[0]),
        ('x_shift_male_hapref', 'Q', x_hap[1]),
        ('x_shift_female_dipref', 'Q', x_dip[0]),
        ('x_shift_male_dipref', 'Q', x_dip[1]),
        ('y_shift_female', 'Q', y_f),
        ('y_shift_male', 'Q', y_m),
        ('lr_denominator_floor', 'Q', floors[0]),
        ('score_cut', 'Q', score_cut),
        ('shift_xx_down', 'Q', sx[0]),
        ('shift_xx_up', 'Q', sx[1]),
        ('flat_sex_level', 'Q', -fl[0]),
        ('sex_label_male', 'string', 'Male'),
        ('sex_label_female', 'string', 'Female'),
        ('do_sex_columns', 'list string', list(sex_columns)),
    ]}
