"""cnvlib/access.py + the contig-name rule of cnvlib/antitarget.py -> Gen/AccessDefaults.v"""
import ast


def specs(T):
    A = 'cnvlib/access.py'
    e = T.const_expr('cnvlib/antitarget.py', 're_noncanonical')
    ok = (isinstance(e, ast.Call) and ast.unparse(e.func) == 're.compile' and len(e.args) == 1 and not e.keywords
          and isinstance(e.args[0], ast.Call) and ast.unparse(e.args[0].func) == "'|'.join"
          and len(e.args[0].args) == 1 and isinstance(e.args[0].args[0], ast.Tuple))
    if not ok:
        raise T.Refuse('antitarget.re_noncanonical is not re.compile("|".join((...)))')
    alts = [T.lit(x, 're_noncanonical alternative') for x in e.args[0].args[0].elts]
    T.body_contains('cnvlib/antitarget.py', 'is_canonical_contig_name', 'return not re_noncanonical.search(name)')
    # the scanner compares against the single character "N" (three places)
    T.body_contains(A, 'get_regions', "if 'N' in line:")
    T.body_contains(A, 'get_regions', "all((c == 'N' for c in line))")
    T.body_contains(A, 'get_regions', "np.where(line_chars == b'N')[0]")
    T.body_contains(A, 'join_regions', 'assert gap > 0')
    T.body_contains(A, 'join_regions', 'if gap < min_gap_size:')
    return {'AccessDefaults': [
        ('re_noncanonical_alts', 'list string', alts),
        ('min_gap_size_default', 'Z', T.default(A, 'do_access', 'min_gap_size')),
        ('skip_noncanonical_default', 'bool', T.default(A, 'do_access', 'skip_noncanonical')),
    ]}
