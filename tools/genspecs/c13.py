"""cnvlib/access.py + the contig-name rule of cnvlib/antitarget.py -> Gen/AccessDefaults.v"""
import ast
import copy


def skeleton(T, rel, qual):
    """The normalised source (ast.unparse) of function `qual`, one string per line, with what the
    model does not speak about removed: the docstring, logging calls, assertion messages.  The
    branch structure, every condition, every yield and every assignment stay; Props/C13.v states
    the lines the model was written for, so that a changed branch breaks a proof obligation."""
    f = copy.deepcopy(T.find_func(rel, qual))

    class Strip(ast.NodeTransformer):
        def visit_Expr(self, node):
            v = node.value
            if isinstance(v, ast.Constant) and isinstance(v.value, str):
                return None
            if isinstance(v, ast.Call) and ast.unparse(v.func).startswith('logging.'):
                return None
            return self.generic_visit(node)

        def visit_Assert(self, node):
            node.msg = None
            return node

        def visit_ImportFrom(self, node):
            return None

    f = Strip().visit(f)
    for n in ast.walk(f):
        for field in ('body', 'orelse'):
            b = getattr(n, field, None)
            if field == 'body' and isinstance(b, list) and not b:
                setattr(n, field, [ast.Pass()])
    ast.fix_missing_locations(f)
    lines = ast.unparse(f).split('\n')
    for l in lines:
        if len(l) > 200:
            raise T.Refuse('%s:%s: a source line longer than 200 characters' % (rel, qual))
    return lines


def specs(T):
    A = 'cnvlib/access.py'
    e = T.const_expr('cnvlib/antitarget.py', 're_noncanonical')
    ok = (isinstance(e, ast.Call) and ast.unparse(e.func) == 're.compile' and len(e.args) == 1 and not e.keywords
          and isinstance(e.args[0], ast.Call) and ast.unparse(e.args[0].func) == "'|'.join"
          and len(e.args[0].args) == 1 and isinstance(e.args[0].args[0], ast.Tuple))
    if not ok:
        raise T.Refuse('antitarget.re_noncanonical is not re.compile("|".join((...)))')
    alts = [T.lit(x, 're_noncanonical alternative') for x in e.args[0].args[0].elts]
    T.body_contains('cnvlib/antitarget.py', 'is_canonical_contig_name', 'return not re_noncanonical.search(name)')
    # the scanner compares against the single character "N" (three places)
    T.body_contains(A, 'get_regions', "if 'N' in line:")
    T.body_contains(A, 'get_regions', "all((c == 'N' for c in line))")
    T.body_contains(A, 'get_regions', "np.where(line_chars == b'N')[0]")
    T.body_contains(A, 'join_regions', 'assert gap > 0')
    T.body_contains(A, 'join_regions', 'if gap < min_gap_size:')
    return {'AccessDefaults': [
        ('re_noncanonical_alts', 'list string', alts),
        ('min_gap_size_default', 'Z', T.default(A, 'do_access', 'min_gap_size')),
        ('skip_noncanonical_default', 'bool', T.default(A, 'do_access', 'skip_noncanonical')),
        # branch structure of the three functions the models mirror (Model/Access.v scan_line /
        # join_from, Model/AccessText.v gr_step, Model/AccessPipe.v do_access)
        ('get_regions_src', 'list string', skeleton(T, A, 'get_regions')),
        ('log_this_src', 'list string', skeleton(T, A, 'log_this')),
        ('join_regions_src', 'list string', skeleton(T, A, 'join_regions')),
        ('do_access_src', 'list string', skeleton(T, A, 'do_access')),
        ('drop_noncanonical_src', 'list string', skeleton(T, A, 'drop_noncanonical_contigs')),
    ]}
