"""cnvlib/coverage.py + cnvlib/parallel.py -> Gen/CoverageDefaults.v (property C09).

Only data is taken: default arguments, the literals compared against (span > 0,
depth > 0, min_mapq > 0), the base of the logarithm, the placeholder gene name and
the `else 0` of the count algorithm's depth.  NULL_LOG2_COVERAGE comes from
Gen/Params.v.  For the text layer of the pileup path: the column-name lists, the tab
thresholds and the filler-name rule of detect_bedcov_columns, the characters it searches
for, and the keywords of bedcov()'s pd.read_csv call (separator, string dtypes,
keep_default_na, quoting -- absent = pandas' default 0, csv.QUOTE_NONE = 3); the column
names interval_coverages_pileup reads; the comment character of parallel.to_chunks."""
import ast


def _one(T, hits, what):
    if len(hits) != 1:
        raise T.Refuse('c09: expected exactly one %s, found %d' % (what, len(hits)))
    return hits[0]


def _gene_placeholder(T, rel, qual):
    """the string literal assigned to table['gene'] / passed to fillna inside `qual`."""
    f = T.find_func(rel, qual)
    assigned, filled = [], []
    for n in ast.walk(f):
        if isinstance(n, ast.Assign) and len(n.targets) == 1 and isinstance(n.targets[0], ast.Subscript) \
                and ast.unparse(n.targets[0]) == "table['gene']" and isinstance(n.value, ast.Constant):
            assigned.append(n.value.value)
        if isinstance(n, ast.Call) and isinstance(n.func, ast.Attribute) and n.func.attr == 'fillna' \
                and "table['gene']" in ast.unparse(n.func) and len(n.args) == 1:
            filled.append(T.lit(n.args[0], 'fillna'))
    a = _one(T, assigned, "table['gene'] = <literal> in %s" % qual)
    b = _one(T, filled, "table['gene'].fillna(<literal>) in %s" % qual)
    if a != b:
        raise T.Refuse('c09: placeholder gene names differ: %r vs %r' % (a, b))
    return a


def _bed_placeholder(T):
    """gene = fields[3].rstrip() if len(fields) >= 4 else "-"  in skgenome/tabio/bedio.py"""
    f = T.find_func('skgenome/tabio/bedio.py', 'read_bed._parse_line')
    hits = []
    for n in ast.walk(f):
        if isinstance(n, ast.Assign) and len(n.targets) == 1 and isinstance(n.targets[0], ast.Name) \
                and n.targets[0].id == 'gene' and isinstance(n.value, ast.IfExp):
            hits.append(T.lit(n.value.orelse, 'bed gene placeholder'))
    return _one(T, hits, 'gene = ... if ... else <literal> in read_bed')


def _count_zero_depth(T):
    """depth = bases / (end - start) if end > start else 0"""
    f = T.find_func('cnvlib/coverage.py', 'region_depth_count')
    hits = []
    for n in ast.walk(f):
        if isinstance(n, ast.Assign) and len(n.targets) == 1 and isinstance(n.targets[0], ast.Name) \
                and n.targets[0].id == 'depth' and isinstance(n.value, ast.IfExp):
            if ast.unparse(n.value.test) != 'end > start':
                raise T.Refuse('c09: depth guard is %s, expected end > start' % ast.unparse(n.value.test))
            if ast.unparse(n.value.body) != 'bases / (end - start)':
                raise T.Refuse('c09: depth expression is %s' % ast.unparse(n.value.body))
            hits.append(T.lit(n.value.orelse, 'zero-width depth'))
    return _one(T, hits, 'depth = ... if end > start else <literal>')


def _detect_columns(T):
    """detect_bedcov_columns: the guard `tabcount < N`, the `if tabcount == N: return [names]` cases and the general
    return `[head names] + fillers + [tail names]` with fillers = [f"_{i}" for i in range(A, tabcount - B)];
    the characters whose occurrences are searched / counted in the first line."""
    f = T.find_func('cnvlib/coverage.py', 'detect_bedcov_columns')
    cases, general, fillers = [], [], []
    for n in f.body:
        if isinstance(n, ast.If) and isinstance(n.test, ast.Compare) and len(n.test.ops) == 1 \
                and isinstance(n.test.ops[0], ast.Eq) and ast.unparse(n.test.left) == 'tabcount' \
                and len(n.body) == 1 and isinstance(n.body[0], ast.Return) and not n.orelse:
            cases.append([T.lit(n.test.comparators[0], 'tabcount =='), T.lit(n.body[0].value, 'column names')])
        if isinstance(n, ast.Return):
            v = n.value
            if not (isinstance(v, ast.BinOp) and isinstance(v.op, ast.Add) and isinstance(v.left, ast.BinOp)
                    and isinstance(v.left.op, ast.Add) and ast.unparse(v.left.right) == 'fillers'):
                raise T.Refuse('c09: general return of detect_bedcov_columns is %s' % ast.unparse(v))
            general.append((T.lit(v.left.left, 'head columns'), T.lit(v.right, 'tail columns')))
        if isinstance(n, ast.Assign) and ast.unparse(n.targets[0]) == 'fillers':
            c = n.value
            ok = (isinstance(c, ast.ListComp) and len(c.generators) == 1 and not c.generators[0].ifs
                  and isinstance(c.elt, ast.JoinedStr) and len(c.elt.values) == 2
                  and isinstance(c.elt.values[0], ast.Constant) and isinstance(c.elt.values[1], ast.FormattedValue)
                  and ast.unparse(c.elt.values[1].value) == ast.unparse(c.generators[0].target)
                  and c.elt.values[1].conversion == -1 and c.elt.values[1].format_spec is None)
            it = c.generators[0].iter if ok else None
            ok = ok and isinstance(it, ast.Call) and ast.unparse(it.func) == 'range' and len(it.args) == 2 \
                and isinstance(it.args[1], ast.BinOp) and isinstance(it.args[1].op, ast.Sub) \
                and ast.unparse(it.args[1].left) == 'tabcount'
            if not ok:
                raise T.Refuse('c09: fillers of detect_bedcov_columns are %s' % ast.unparse(c))
            fillers.append((c.elt.values[0].value, T.lit(it.args[0], 'range start'), T.lit(it.args[1].right, 'range stop offset')))
    head, tail = _one(T, general, 'general return in detect_bedcov_columns')
    prefix, frm, off = _one(T, fillers, 'fillers assignment in detect_bedcov_columns')
    if not cases:
        raise T.Refuse('c09: no `if tabcount == N: return [...]` in detect_bedcov_columns')
    nl = [n for n in ast.walk(f) if isinstance(n, ast.Call) and ast.unparse(n.func) == 'text.index']
    ct = [n for n in ast.walk(f) if isinstance(n, ast.Call) and ast.unparse(n.func) == 'firstline.count']
    nlc = T.lit(_one(T, nl, 'text.index(...)').args[0], 'line end')
    tbc = T.lit(_one(T, ct, 'firstline.count(...)').args[0], 'tab')
    # firstline = text[:text.index("\n")] ; tabcount = firstline.count("\t")
    T.body_contains('cnvlib/coverage.py', 'detect_bedcov_columns', 'firstline = text[:text.index(')
    T.body_contains('cnvlib/coverage.py', 'detect_bedcov_columns', 'tabcount = firstline.count(')
    if len(nlc) != 1 or len(tbc) != 1:
        raise T.Refuse('c09: separators of detect_bedcov_columns are not single characters')
    return cases, head, tail, prefix, frm, off, ord(nlc), ord(tbc)


_QUOTING = {'QUOTE_MINIMAL': 0, 'QUOTE_ALL': 1, 'QUOTE_NONNUMERIC': 2, 'QUOTE_NONE': 3}


def _read_csv(T):
    """the pd.read_csv call of bedcov(): separator, names/usecols = columns, string dtypes, NA handling, quoting"""
    f = T.find_func('cnvlib/coverage.py', 'bedcov')
    calls = [n for n in ast.walk(f) if isinstance(n, ast.Call) and ast.unparse(n.func) == 'pd.read_csv']
    c = _one(T, calls, 'pd.read_csv call in bedcov')
    kw = {k.arg: k.value for k in c.keywords}
    allowed = {'sep', 'names', 'usecols', 'dtype', 'keep_default_na', 'quoting'}
    if set(kw) - allowed or not {'sep', 'names', 'usecols', 'dtype', 'keep_default_na'} <= set(kw):
        raise T.Refuse('c09: read_csv keywords in bedcov are %s' % sorted(kw))
    if ast.unparse(kw['names']) != 'columns' or ast.unparse(kw['usecols']) != 'columns':
        raise T.Refuse('c09: read_csv names/usecols are not the detected columns')
    if len(c.args) != 1 or ast.unparse(c.args[0]) != 'StringIO(raw)':
        raise T.Refuse('c09: read_csv does not read StringIO(raw)')
    sep = T.lit(kw['sep'], 'sep')
    if not isinstance(sep, str) or len(sep) != 1:
        raise T.Refuse('c09: read_csv separator %r' % (sep,))
    dt = T.lit(kw['dtype'], 'dtype')
    strcols = sorted(k for k, v in dt.items() if v == 'str')
    if sorted(dt) != strcols:
        raise T.Refuse('c09: read_csv dtype %r' % (dt,))
    q = kw.get('quoting')
    if q is None:
        quoting = 0
    elif isinstance(q, ast.Attribute) and q.attr in _QUOTING:
        quoting = _QUOTING[q.attr]
    else:
        quoting = T.lit(q, 'quoting')
    return ord(sep), strcols, T.lit(kw['keep_default_na'], 'keep_default_na'), quoting


def _pileup_table_columns(T):
    """interval_coverages_pileup reads table.start / table.end / table['basecount'] / 'gene'"""
    for t in ('spans = table.end - table.start', "table.loc[ok_idx, 'basecount'] / spans[ok_idx]", "if 'gene' in table"):
        T.body_contains('cnvlib/coverage.py', 'interval_coverages_pileup', t)
    return ['chromosome', 'start', 'end', 'gene', 'basecount']


def specs(T):
    C = 'cnvlib/coverage.py'
    P = 'cnvlib/parallel.py'
    g1 = _gene_placeholder(T, C, 'interval_coverages_pileup')
    g2 = _bed_placeholder(T)
    if g1 != g2:
        raise T.Refuse('c09: the two algorithms use different placeholder gene names: %r vs %r' % (g1, g2))
    cases, head, tail, prefix, frm, off, nlc, tbc = _detect_columns(T)
    sepc, strcols, keep_na, quoting = _read_csv(T)
    cn = _pileup_table_columns(T)
    T.body_contains(P, 'to_chunks', 'if k % chunk_size == 0')
    T.body_contains(P, 'to_chunks', 'if k % chunk_size:')
    return {'CoverageDefaults': [
        ('CHUNK_SIZE', 'Z', T.default(P, 'to_chunks', 'chunk_size')),
        ('COV_MIN_MAPQ_DEFAULT', 'Z', T.default(C, 'do_coverage', 'min_mapq')),
        ('COV_PROCESSES_DEFAULT', 'Z', T.default(C, 'do_coverage', 'processes')),
        ('COV_BY_COUNT_DEFAULT', 'bool', T.default(C, 'do_coverage', 'by_count')),
        ('PILEUP_SPAN_CUT', 'Z', T.compare_with(C, 'interval_coverages_pileup', 'spans', 'Gt')),
        ('PILEUP_DEPTH_CUT', 'Z', T.compare_with(C, 'interval_coverages_pileup', "table['depth']", 'Gt')),
        ('PILEUP_ZERO_DEPTH', 'Q', T.call_kw(C, 'interval_coverages_pileup', 'table.assign', 'depth')),
        ('COUNT_ZERO_DEPTH', 'Q', _count_zero_depth(T)),
        ('BEDCOV_MAPQ_OPTION_CUT', 'Z', T.compare_with(C, 'bedcov', 'min_mapq', 'Gt')),
        ('COUNT_LOG_BASE', 'Z', T.call_arg(C, 'region_depth_count', 'math.log', 1)),
        ('MISSING_GENE_NAME', 'string', g1),
        # text layer of the pileup path
        ('BEDCOV_MIN_TABS', 'Z', T.compare_with(C, 'detect_bedcov_columns', 'tabcount', 'Lt')),
        ('BEDCOV_COLS_BY_TABS', 'list (Z * list string)', cases),
        ('BEDCOV_COLS_HEAD', 'list string', head),
        ('BEDCOV_COLS_TAIL', 'list string', tail),
        ('BEDCOV_FILLER_PREFIX', 'string', prefix),
        ('BEDCOV_FILLER_FROM', 'Z', frm),
        ('BEDCOV_FILLER_STOP_MINUS', 'Z', off),
        ('BEDCOV_LINE_END_CODE', 'Z', nlc),
        ('BEDCOV_TAB_CODE', 'Z', tbc),
        ('BEDCOV_SEP_CODE', 'Z', sepc),
        ('BEDCOV_STR_COLUMNS', 'list string', strcols),
        ('BEDCOV_KEEP_DEFAULT_NA', 'bool', keep_na),
        ('BEDCOV_QUOTING', 'Z', quoting),
        ('COL_CHROMOSOME', 'string', cn[0]),
        ('COL_START', 'string', cn[1]),
        ('COL_END', 'string', cn[2]),
        ('COL_GENE', 'string', cn[3]),
        ('COL_BASECOUNT', 'string', cn[4]),
        ('CHUNK_COMMENT_PREFIX', 'string', T.compare_with(P, 'to_chunks', 'line[0]', 'Eq')),
    ]}
