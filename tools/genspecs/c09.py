"""cnvlib/coverage.py + cnvlib/parallel.py -> Gen/CoverageDefaults.v (property C09).

Only data is taken: default arguments, the literals compared against (span > 0,
depth > 0, min_mapq > 0), the base of the logarithm, the placeholder gene name and
the `else 0` of the count algorithm's depth.  NULL_LOG2_COVERAGE comes from
Gen/Params.v."""
import ast


def _one(T, hits, what):
    if len(hits) != 1:
        raise T.Refuse('c09: expected exactly one %s, found %d' % (what, len(hits)))
    return hits[0]


def _gene_placeholder(T, rel, qual):
    """the string literal assigned to table['gene'] / passed to fillna inside `qual`."""
    f = T.find_func(rel, qual)
    assigned, filled = [], []
    for n in ast.walk(f):
        if isinstance(n, ast.Assign) and len(n.targets) == 1 and isinstance(n.targets[0], ast.Subscript) \
                and ast.unparse(n.targets[0]) == "table['gene']" and isinstance(n.value, ast.Constant):
            assigned.append(n.value.value)
        if isinstance(n, ast.Call) and isinstance(n.func, ast.Attribute) and n.func.attr == 'fillna' \
                and "table['gene']" in ast.unparse(n.func) and len(n.args) == 1:
            filled.append(T.lit(n.args[0], 'fillna'))
    a = _one(T, assigned, "table['gene'] = <literal> in %s" % qual)
    b = _one(T, filled, "table['gene'].fillna(<literal>) in %s" % qual)
    if a != b:
        raise T.Refuse('c09: placeholder gene names differ: %r vs %r' % (a, b))
    return a


def _bed_placeholder(T):
    """gene = fields[3].rstrip() if len(fields) >= 4 else "-"  in skgenome/tabio/bedio.py"""
    f = T.find_func('skgenome/tabio/bedio.py', 'read_bed._parse_line')
    hits = []
    for n in ast.walk(f):
        if isinstance(n, ast.Assign) and len(n.targets) == 1 and isinstance(n.targets[0], ast.Name) \
                and n.targets[0].id == 'gene' and isinstance(n.value, ast.IfExp):
            hits.append(T.lit(n.value.orelse, 'bed gene placeholder'))
    return _one(T, hits, 'gene = ... if ... else <literal> in read_bed')


def _count_zero_depth(T):
    """depth = bases / (end - start) if end > start else 0"""
    f = T.find_func('cnvlib/coverage.py', 'region_depth_count')
    hits = []
    for n in ast.walk(f):
        if isinstance(n, ast.Assign) and len(n.targets) == 1 and isinstance(n.targets[0], ast.Name) \
                and n.targets[0].id == 'depth' and isinstance(n.value, ast.IfExp):
            if ast.unparse(n.value.test) != 'end > start':
                raise T.Refuse('c09: depth guard is %s, expected end > start' % ast.unparse(n.value.test))
            if ast.unparse(n.value.body) != 'bases / (end - start)':
                raise T.Refuse('c09: depth expression is %s' % ast.unparse(n.value.body))
            hits.append(T.lit(n.value.orelse, 'zero-width depth'))
    return _one(T, hits, 'depth = ... if end > start else <literal>')


def specs(T):
    C = 'cnvlib/coverage.py'
    P = 'cnvlib/parallel.py'
    g1 = _gene_placeholder(T, C, 'interval_coverages_pileup')
    g2 = _bed_placeholder(T)
    if g1 != g2:
        raise T.Refuse('c09: the two algorithms use different placeholder gene names: %r vs %r' % (g1, g2))
    return {'CoverageDefaults': [
        ('CHUNK_SIZE', 'Z', T.default(P, 'to_chunks', 'chunk_size')),
        ('COV_MIN_MAPQ_DEFAULT', 'Z', T.default(C, 'do_coverage', 'min_mapq')),
        ('COV_PROCESSES_DEFAULT', 'Z', T.default(C, 'do_coverage', 'processes')),
        ('COV_BY_COUNT_DEFAULT', 'bool', T.default(C, 'do_coverage', 'by_count')),
        ('PILEUP_SPAN_CUT', 'Z', T.compare_with(C, 'interval_coverages_pileup', 'spans', 'Gt')),
        ('PILEUP_DEPTH_CUT', 'Z', T.compare_with(C, 'interval_coverages_pileup', "table['depth']", 'Gt')),
        ('PILEUP_ZERO_DEPTH', 'Q', T.call_kw(C, 'interval_coverages_pileup', 'table.assign', 'depth')),
        ('COUNT_ZERO_DEPTH', 'Q', _count_zero_depth(T)),
        ('BEDCOV_MAPQ_OPTION_CUT', 'Z', T.compare_with(C, 'bedcov', 'min_mapq', 'Gt')),
        ('COUNT_LOG_BASE', 'Z', T.call_arg(C, 'region_depth_count', 'math.log', 1)),
        ('MISSING_GENE_NAME', 'string', g1),
    ]}
