"""skgenome/intersect.py, gary.py, combiners.py -> Gen/RangeDefaults.v (C07):
the literals the range-query model depends on -- the separator of join_strings, the mode
and keep_empty flag into_ranges passes to iter_slices, the keep_empty flags of
GenomicArray.intersection, the public defaults of by_ranges, and the fragments that
make the path switch / the positional first_of what the model says they are."""


def specs(T):
    I = 'skgenome/intersect.py'
    G = 'skgenome/gary.py'
    C = 'skgenome/combiners.py'
    # structural anchors (fail-closed: the translator refuses when they disappear)
    T.body_contains(I, 'idx_ranges', 'if not table.end.is_monotonic_increasing:')
    T.body_contains(I, '_irange_nested', 'if start_val:')
    T.body_contains(I, '_irange_nested', 'if end_val is not None:')
    T.body_contains(I, 'iter_ranges', 'if start_val:')
    T.body_contains(I, 'iter_ranges', 'if end_val:')
    T.body_contains(C, 'first_of', 'elems.iloc[0]')
    T.body_contains(I, 'into_ranges', 'if len(ser) == 1:')
    return {'RangeDefaults': [
        ('join_sep', 'string', T.default(C, 'join_strings', 'sep')),
        ('into_slices_mode', 'string', T.call_arg(I, 'into_ranges', 'iter_slices', 2)),
        ('into_slices_keep_empty', 'bool', T.call_arg(I, 'into_ranges', 'iter_slices', 3)),
        ('intersection_slices_keep_empty', 'bool', T.call_arg(G, 'GenomicArray.intersection', 'iter_slices', 3)),
        ('intersection_trim_keep_empty', 'bool', T.call_kw(G, 'GenomicArray.intersection', 'by_ranges', 'keep_empty')),
        ('by_ranges_default_mode', 'string', T.default(G, 'GenomicArray.by_ranges', 'mode')),
        ('by_ranges_default_keep_empty', 'bool', T.default(G, 'GenomicArray.by_ranges', 'keep_empty')),
        ('in_range_default_mode', 'string', T.default(G, 'GenomicArray.in_range', 'mode')),
        ('intersection_default_mode', 'string', T.default(G, 'GenomicArray.intersection', 'mode')),
        ('iter_ranges_of_default_mode', 'string', T.default(G, 'GenomicArray.iter_ranges_of', 'mode')),
        ('iter_ranges_of_default_keep_empty', 'bool', T.default(G, 'GenomicArray.iter_ranges_of', 'keep_empty')),
    ]}
