"""C20: literals of cnvlib/export.py (BED / VCF / merge_samples / CDT / JTV / nexus-basic),
skgenome/tabio/seg.py (write side) and skgenome/rangelabel.py the export model
(Model/Export.v) depends on -> Gen/ExportDefaults.v.

Strings and numbers that sit inside f-strings / expressions are guarded by `body_contains`
on the normalised source of the function: if the statement changes, the translator refuses
(a broken tie), and the literal emitted here is the one that statement holds."""

import ast, re

E = 'cnvlib/export.py'
S = 'skgenome/tabio/seg.py'
C = 'cnvlib/call.py'
R = 'skgenome/rangelabel.py'


def specs(T):
    # --- export_bed -------------------------------------------------------------------
    B = 'export_bed'
    T.body_contains(E, B, "out = segments.data.reindex(columns=['chromosome', 'start', 'end'])")
    T.body_contains(E, B, "out['label'] = label if label else segments['gene']")
    T.body_contains(E, B, "out['ncopies'] = segments['cn'] if 'cn' in segments else "
                          "call.absolute_dataframe(segments, ploidy, 1.0, is_haploid_x_reference, "
                          "diploid_parx_genome, is_sample_female)['absolute'].round().astype('int')")
    T.body_contains(E, B, "out = out[out['ncopies'] != ploidy]")
    T.body_contains(E, B, "exp_copies = call.absolute_expect(segments, ploidy, diploid_parx_genome, is_sample_female)")
    T.body_contains(E, B, "out = out[out['ncopies'] != exp_copies]")
    shows = [(l, v) for (l, o, v) in T.compares(E, B) if o == 'Eq' and l == 'show']
    if [v for _, v in shows] != ['ploidy', 'variant']:
        raise T.Refuse('%s:%s: expected `show == "ploidy"` then `show == "variant"`, found %r' % (E, B, shows))
    bed_purity = [x for x in T.numbers_in(E, B)]
    if bed_purity != [1.0]:
        raise T.Refuse('%s:%s: numeric literals are %r, expected [1.0]' % (E, B, bed_purity))

    # --- absolute_expect / absolute_dataframe (call.py) -----------------------------------
    T.body_contains(C, 'absolute_expect', "is_haploid_x_reference = True")
    T.body_contains(C, 'absolute_expect', "exp_copies = df['expect']")
    T.body_contains(C, 'absolute_dataframe',
                    "df['absolute'] = df.apply(lambda row: _log2_ratio_to_absolute(row['log2'], row['reference'], "
                    "row['expect'], purity), axis=1)")
    T.body_contains(C, '_log2_ratio_to_absolute', "if purity and purity < 1.0:")
    T.body_contains(C, '_log2_ratio_to_absolute', "ncopies = _log2_ratio_to_absolute_pure(log2_ratio, ref_copies)")

    # --- segments2vcf -----------------------------------------------------------------------
    V = 'segments2vcf'
    T.body_contains(E, V, "out_dframe['start'] = segments.start.replace(0, 1)")
    pos_from = T.call_arg(E, V, 'segments.start.replace', 0)
    pos_to = T.call_arg(E, V, 'segments.start.replace', 1)
    T.body_contains(E, V, "out_dframe['ncopies'] = segments['cn']")
    T.body_contains(E, V, "abs_expect = call.absolute_expect(segments, ploidy, diploid_parx_genome, is_sample_female)")
    T.body_contains(E, V, "abs_dframe = call.absolute_dataframe(segments, ploidy, 1.0, is_haploid_x_reference, "
                          "diploid_parx_genome, is_sample_female)")
    T.body_contains(E, V, "out_dframe['ncopies'] = abs_dframe['absolute'].round().astype('int')")
    T.body_contains(E, V, "abs_expect = abs_dframe['expect']")
    T.body_contains(E, V, "idx_losses = out_dframe['ncopies'] < abs_expect")
    T.body_contains(E, V, "svlen = segments.end - segments.start")
    T.body_contains(E, V, "svlen[idx_losses] *= -1")
    T.body_contains(E, V, "out_dframe['svtype'] = 'DUP'")
    T.body_contains(E, V, "out_dframe.loc[idx_losses, 'svtype'] = 'DEL'")
    T.body_contains(E, V, "out_dframe['format'] = 'GT:GQ:CN:CNQ'")
    T.body_contains(E, V, "out_dframe.loc[idx_losses, 'format'] = 'GT:GQ'")
    T.body_contains(E, V, "if out_row.ncopies == abs_exp or not str(out_row.probes).isdigit():")
    T.body_contains(E, V, "if out_row.ncopies > abs_exp:")
    T.body_contains(E, V, "genotype = f'0/1:0:{out_row.ncopies}:{out_row.probes}'")
    T.body_contains(E, V, "elif out_row.ncopies < abs_exp:")
    T.body_contains(E, V, "if out_row.ncopies == 0:")
    gt_hom = T.local(E, V, 'gt', 0)
    gt_het = T.local(E, V, 'gt', 1)
    T.body_contains(E, V, "genotype = f'{gt}:{out_row.probes}'")
    T.body_contains(E, V, "fields = ['IMPRECISE', f'SVTYPE={out_row.svtype}', f'END={out_row.end}', "
                          "f'SVLEN={out_row.svlen}', f'FOLD_CHANGE={2.0 ** out_row.log2}', "
                          "f'FOLD_CHANGE_LOG={out_row.log2}', f'PROBES={out_row.probes}']")
    T.body_contains(E, V, "fields.extend([f'CIPOS=({out_row.ci_pos_left},{out_row.ci_pos_right})', "
                          "f'CIEND=({out_row.ci_end_left},{out_row.ci_end_right})'])")
    T.body_contains(E, V, "info = ';'.join(fields)")
    T.body_contains(E, V, "yield (out_row.chromosome, out_row.start, '.', 'N', f'<{out_row.svtype}>', '.', '.', "
                          "info, out_row.format, genotype)")
    T.body_contains(E, V, "left_margin = segments['ci_left'].values - segments.start.values")
    T.body_contains(E, V, "right_margin = segments.end.values - segments['ci_right'].values")
    T.body_contains(E, V, "out_dframe['ci_pos_left'] = np.r_[0, -right_margin[:-1]]")
    T.body_contains(E, V, "out_dframe['ci_pos_right'] = left_margin")
    T.body_contains(E, V, "out_dframe['ci_end_left'] = right_margin")
    T.body_contains(E, V, "out_dframe['ci_end_right'] = np.r_[left_margin[1:], 0]")
    vnums = T.numbers_in(E, V)
    if vnums != [0, 1, 1.0, -1, 0, -1, 1, 0, 0, 2.0]:
        # `-1` literals appear as UnaryOp(USub, 1): numbers_in sees the 1
        if vnums != [0, 1, 1.0, 1, 0, 1, 1, 0, 0, 2.0]:
            raise T.Refuse('%s:%s: unexpected numeric literals %r' % (E, V, vnums))
    svlen_loss_sign = -1
    gain_gq = '0'          # the literal GQ of the gain genotype f'0/1:0:...'
    gt_gain = '0/1'

    # --- assign_ci_start_end -------------------------------------------------------------------
    A = 'assign_ci_start_end'
    T.body_contains(E, A, "((bins.end.iat[0], bins.start.iat[-1]) if len(bins.end) > 0 and len(bins.start) > 0 "
                          "else (np.nan, np.nan) for _seg, bins in cnarr.by_ranges(segarr, mode='outer'))")
    T.body_contains(E, A, "segarr.data.assign(ci_left=ci_lefts, ci_right=ci_rights)")

    # --- export_vcf -----------------------------------------------------------------------------
    T.body_contains(E, 'export_vcf', "sample_id or segments.sample_id")
    vcf_cols = T.local(E, 'export_vcf', 'vcf_columns') if False else None
    T.body_contains(E, 'export_vcf', "vcf_columns = ['#CHROM', 'POS', 'ID', 'REF', 'ALT', 'QUAL', 'FILTER', 'INFO', "
                                     "'FORMAT', sample_id or segments.sample_id]")
    T.body_contains(E, 'export_vcf', "if cnarr:")
    T.body_contains(E, 'export_vcf', "segments = assign_ci_start_end(segments, cnarr)")

    # --- SEG writer ---------------------------------------------------------------------------
    T.body_contains(S, 'write_seg', "if chrom_ids in (None, True):")
    T.body_contains(S, 'write_seg', "chrom_ids = create_chrom_ids(first)")
    T.body_contains(S, 'format_seg', "chroms = dframe.chromosome.replace(chrom_ids) if chrom_ids else dframe.chromosome")
    T.body_contains(S, 'format_seg', "dframe.assign(ID=sample_id, chrom=chroms, start=dframe.start + 1)")
    T.body_contains(S, 'format_seg', "if 'probes' in dframe:")
    T.body_contains(S, 'create_chrom_ids',
                    "((chrom, i + 1) for i, chrom in enumerate(segments.chromosome.drop_duplicates()) if str(i + 1) != chrom)")
    seg_nums = T.numbers_in(S, 'format_seg')
    if seg_nums != [1, -1]  and seg_nums != [1, 1]:
        raise T.Refuse('%s:format_seg: unexpected numeric literals %r' % (S, seg_nums))
    seg_start_off = seg_nums[0]
    ids = T.numbers_in(S, 'create_chrom_ids')
    if ids != [1, 1]:
        raise T.Refuse('%s:create_chrom_ids: unexpected numeric literals %r' % (S, ids))
    T.body_contains(E, 'export_seg', "out_table = tabio.seg.write_seg(dframes, sample_ids, chrom_ids)")
    seg_chrom_ids_default = T.default(E, 'export_seg', 'chrom_ids')

    # --- merge_samples / CDT / JTV / nexus ----------------------------------------------------------
    M = 'merge_samples'
    T.body_contains(E, M, "row2label = lambda row: f'{row.chromosome}:{row.start}-{row.end}:{row.gene}'")
    T.body_contains(E, M, "if not filenames:")
    T.body_contains(E, M, "if not (len(cnarr) == len(out_table) and (label_with_gene(cnarr) == out_table['label']).all()):")
    T.body_contains(E, M, "raise ValueError(f'Mismatched row coordinates in {fname}')")
    T.body_contains(E, M, "if cnarr.sample_id in out_table.columns:")
    T.body_contains(E, M, "raise ValueError(f'Duplicate sample ID: {cnarr.sample_id}')")
    T.body_contains(E, M, "out_table[cnarr.sample_id] = cnarr['log2']")
    T.body_contains(E, M, "out_table = first_cnarr.data.reindex(columns=['chromosome', 'start', 'end', 'gene'])")
    T.body_contains(E, M, "out_table['label'] = label_with_gene(first_cnarr)")
    reserved = ['chromosome', 'start', 'end', 'gene', 'label']

    D = 'fmt_cdt'
    T.body_contains(E, D, "outheader = ['GID', 'CLID', 'NAME', 'GWEIGHT'] + sample_ids")
    T.body_contains(E, D, "header2 = ['AID', '', '', '']")
    T.body_contains(E, D, "header2.extend(['ARRY' + str(i).zfill(3) + 'X' for i in range(len(sample_ids))])")
    T.body_contains(E, D, "header3 = ['EWEIGHT', '', '', ''] + ['1'] * len(sample_ids)")
    T.body_contains(E, D, "('GID', pd.Series(table.index).apply(lambda x: f'GENE{x}X'))")
    T.body_contains(E, D, "('CLID', pd.Series(table.index).apply(lambda x: f'IMAGE:{x}'))")
    T.body_contains(E, D, "('NAME', table['label']), ('GWEIGHT', 1)")
    T.body_contains(E, D, "table.drop(['chromosome', 'start', 'end', 'gene', 'label'], axis=1)")
    cdt_nums = T.numbers_in(E, D)
    if cdt_nums != [3, 1, 1, 1]:
        raise T.Refuse('%s:%s: unexpected numeric literals %r' % (E, D, cdt_nums))
    J = 'fmt_jtv'
    T.body_contains(E, J, "outheader = ['CloneID', 'Name'] + sample_ids")
    T.body_contains(E, J, "pd.DataFrame({'CloneID': 'IMAGE:', 'Name': table['label']})")
    T.body_contains(E, J, "table.drop(['chromosome', 'start', 'end', 'gene', 'label'], axis=1)")
    N = 'export_nexus_basic'
    T.body_contains(E, N, "out_table = cnarr.data.reindex(columns=['chromosome', 'start', 'end', 'gene', 'log2'])")
    T.body_contains(E, N, "out_table['probe'] = cnarr.labels()")
    T.body_contains(R, 'to_label', "return f'{row.chromosome}:{row.start + 1}-{row.end}'")
    lab_nums = T.numbers_in(R, 'to_label')
    if lab_nums != [1]:
        raise T.Refuse('%s:to_label: unexpected numeric literals %r' % (R, lab_nums))

    # --- VCF text layer: header template, INFO keys, separators ------------------------------------
    hdr = T.const_expr(E, 'VCF_HEADER')
    if not (isinstance(hdr, ast.Call) and isinstance(hdr.func, ast.Attribute) and hdr.func.attr == 'format'
            and not hdr.args and [(k.arg, ast.unparse(k.value)) for k in hdr.keywords]
            == [('date', "time.strftime('%Y%m%d')"), ('version', '__version__')]):
        raise T.Refuse("%s: VCF_HEADER is no longer <template>.format(date=time.strftime('%%Y%%m%%d'), version=__version__)" % E)
    template = T.lit(hdr.func.value, 'VCF_HEADER')
    if not template.endswith('\n'):
        raise T.Refuse('%s: VCF_HEADER template does not end with a newline' % E)
    header_template = []
    for line in template[:-1].split('\n'):
        chunks = []
        for j, part in enumerate(re.split(r'\{(\w+)\}', line)):
            if j % 2 == 1:
                chunks.append((True, part))
            elif part:
                if '{' in part or '}' in part:
                    raise T.Refuse('%s: VCF_HEADER: unexpected brace in %r' % (E, part))
                chunks.append((False, part))
        header_template.append(chunks)
    T.body_contains(E, 'export_vcf', "table = pd.DataFrame.from_records(vcf_rows, columns=vcf_columns)")
    T.body_contains(E, 'export_vcf', "vcf_body = table.to_csv(sep='\\t', header=True, index=False, float_format='%.3g')")
    T.body_contains(E, 'export_vcf', "return (VCF_HEADER, vcf_body)")
    vf = T.find_func(E, V)
    info_flag, info_keys, info_sep, ci_parts = None, None, None, None
    for n in ast.walk(vf):
        if isinstance(n, ast.Assign) and isinstance(n.targets[0], ast.Name) and n.targets[0].id == 'fields' \
                and isinstance(n.value, ast.List):
            elts = n.value.elts
            info_flag = T.lit(elts[0], 'fields[0]')
            info_keys = []
            for e in elts[1:]:
                if not (isinstance(e, ast.JoinedStr) and len(e.values) == 2 and isinstance(e.values[0], ast.Constant)
                        and isinstance(e.values[1], ast.FormattedValue) and e.values[1].conversion == -1
                        and e.values[1].format_spec is None):
                    raise T.Refuse('%s:%s: INFO field is not f"KEY={value}": %s' % (E, V, ast.unparse(e)))
                info_keys.append(e.values[0].value)
        if isinstance(n, ast.Call) and isinstance(n.func, ast.Attribute) and n.func.attr == 'join' \
                and isinstance(n.func.value, ast.Constant) and ast.unparse(n.args[0]) == 'fields':
            info_sep = n.func.value.value
        if isinstance(n, ast.Call) and isinstance(n.func, ast.Attribute) and n.func.attr == 'extend' \
                and ast.unparse(n.func.value) == 'fields':
            ci_parts = []
            for e in n.args[0].elts:
                v = e.values if isinstance(e, ast.JoinedStr) else []
                if not (len(v) == 5 and all(isinstance(v[i], ast.Constant) for i in (0, 2, 4))
                        and all(isinstance(v[i], ast.FormattedValue) and v[i].conversion == -1 and v[i].format_spec is None
                                for i in (1, 3))):
                    raise T.Refuse('%s:%s: CI field is not f"KEY=({a},{b})": %s' % (E, V, ast.unparse(e)))
                ci_parts.append((v[0].value, v[2].value, v[4].value))
    if info_flag is None or info_sep is None or ci_parts is None or len(ci_parts) != 2 or info_keys is None or len(info_keys) != 6:
        raise T.Refuse('%s:%s: INFO construction not found as expected' % (E, V))

    # --- export_nexus_ogt ---------------------------------------------------------------------------
    O = 'export_nexus_ogt'
    T.body_contains(E, O, "if min_weight and 'weight' in cnarr:")
    T.body_contains(E, O, "mask_low_weight = cnarr['weight'] < min_weight")
    T.body_contains(E, O, "cnarr = cnarr[~mask_low_weight]")
    T.body_contains(E, O, "bafs = varr.baf_by_ranges(cnarr)")
    T.body_contains(E, O, "out_table = cnarr.data.reindex(columns=['chromosome', 'start', 'end', 'log2'])")
    T.body_contains(E, O, "out_table = out_table.rename(columns={'chromosome': 'Chromosome', 'start': 'Position', "
                          "'end': 'Position', 'log2': 'Log R Ratio'})")
    T.body_contains(E, O, "out_table['B-Allele Frequency'] = np.asarray(bafs)")
    ogt_min_weight = T.default(E, O, 'min_weight')
    VY = 'cnvlib/vary.py'
    if T.default_node(VY, 'VariantArray.baf_by_ranges', 'above_half').value is not None:
        raise T.Refuse('%s: baf_by_ranges(above_half=...) default is no longer None' % VY)
    ogt_boost = T.default(VY, 'VariantArray.baf_by_ranges', 'tumor_boost')
    if ast.unparse(T.default_node(VY, 'VariantArray.baf_by_ranges', 'summary_func')) != 'np.nanmedian':
        raise T.Refuse('%s: baf_by_ranges(summary_func=...) default is no longer np.nanmedian' % VY)

    # --- export_theta / ref_means_nbins / theta_read_counts --------------------------------------------
    H = 'export_theta'
    T.body_contains(E, H, "out_columns = ['#ID', 'chrm', 'start', 'end', 'tumorCount', 'normalCount']")
    T.body_contains(E, H, "if not tumor_segs:\n        return pd.DataFrame(columns=out_columns)")
    T.body_contains(E, H, "xy_names = []\n    tumor_segs = tumor_segs.autosomes(also=xy_names)\n    if normal_cn:\n"
                          "        normal_cn = normal_cn.autosomes(also=xy_names)")
    T.body_contains(E, H, "table = tumor_segs.data.reindex(columns=['start', 'end'])")
    T.body_contains(E, H, "chr2idx = {c: i + 1 for i, c in enumerate(tumor_segs.chromosome.drop_duplicates())}")
    T.body_contains(E, H, "table['chrm'] = tumor_segs.chromosome.map(chr2idx)")
    T.body_contains(E, H, "table['#ID'] = [f'start_{row.chrm}_{row.start}:end_{row.chrm}_{row.end}' "
                          "for row in table.itertuples(index=False)]")
    T.body_contains(E, H, "ref_means, nbins = ref_means_nbins(tumor_segs, normal_cn)")
    T.body_contains(E, H, "table['tumorCount'] = theta_read_counts(tumor_segs.log2, nbins)")
    T.body_contains(E, H, "table['normalCount'] = theta_read_counts(ref_means, nbins)")
    T.body_contains(E, H, "return table[out_columns]")
    if T.numbers_in(E, H) != [1]:
        raise T.Refuse('%s:%s: unexpected numeric literals %r' % (E, H, T.numbers_in(E, H)))
    RM = 'ref_means_nbins'
    T.body_contains(E, RM, "if normal_cn:\n        log2s_in_segs = [bins['log2'] for _seg, bins in normal_cn.by_ranges(tumor_segs)]\n"
                           "        ref_means = np.array([s.mean() for s in log2s_in_segs])\n"
                           "        if 'probes' in tumor_segs:\n            nbins = tumor_segs['probes']\n"
                           "        else:\n            nbins = np.array([len(s) for s in log2s_in_segs])")
    T.body_contains(E, RM, "ref_means = np.zeros(len(tumor_segs))")
    T.body_contains(E, RM, "if 'weight' in tumor_segs and (tumor_segs['weight'] > 1.0).any():\n"
                           "            nbins = tumor_segs['weight']\n            nbins /= nbins.max() / nbins.mean()")
    T.body_contains(E, RM, "if 'probes' in tumor_segs:\n                nbins = tumor_segs['probes']")
    T.body_contains(E, RM, "sizes = tumor_segs.end - tumor_segs.start\n                nbins = sizes / sizes.mean()")
    T.body_contains(E, RM, "if 'weight' in tumor_segs:\n                nbins *= tumor_segs['weight'] / tumor_segs['weight'].mean()")
    T.body_contains(E, RM, "return (ref_means, nbins)")
    theta_new_weight = T.compare_with(E, RM, "tumor_segs['weight']", 'Gt')
    RC = 'theta_read_counts'
    T.body_contains(E, RC, "read_depth = 2 ** log2_ratio * avg_depth")
    T.body_contains(E, RC, "read_count = nbins * avg_bin_width * read_depth / read_len")
    T.body_contains(E, RC, "return read_count.round().fillna(0).astype('int')")
    theta_depth = T.default(E, RC, 'avg_depth')
    theta_bin_width = T.default(E, RC, 'avg_bin_width')
    theta_read_len = T.default(E, RC, 'read_len')
    theta_nan_count = 0          # the `.fillna(0)` of the statement guarded just above
    G = 'skgenome/gary.py'
    auto_pat = T.call_arg(G, 'GenomicArray.autosomes', 'str.match', 0)
    T.body_contains(G, 'GenomicArray.autosomes', "if not is_auto.any():\n        return self")
    T.body_contains(G, 'GenomicArray.autosomes', "for a_chrom in also:\n                is_auto |= self.chromosome == a_chrom")
    T.body_contains(G, 'GenomicArray.autosomes', "return self[is_auto]")
    T.body_contains('cnvlib/cnary.py', 'CopyNumArray.autosomes', "return super().autosomes(also=also)")
    if T.default_node(G, 'GenomicArray.by_ranges', 'mode').value != 'outer' \
            or T.default_node(G, 'GenomicArray.by_ranges', 'keep_empty').value is not True:
        raise T.Refuse('%s: by_ranges defaults are no longer mode="outer", keep_empty=True' % G)

    return {'ExportDefaults': [
        ('show_ploidy', 'string', shows[0][1]),
        ('show_variant', 'string', shows[1][1]),
        ('export_purity', 'Q', bed_purity[0]),
        ('vcf_pos_from', 'Z', pos_from),
        ('vcf_pos_to', 'Z', pos_to),
        ('svlen_loss_sign', 'Z', svlen_loss_sign),
        ('svtype_gain', 'string', 'DUP'),
        ('svtype_loss', 'string', 'DEL'),
        ('format_gain', 'string', 'GT:GQ:CN:CNQ'),
        ('format_loss', 'string', 'GT:GQ'),
        ('gt_gain', 'string', gt_gain),
        ('gq_gain', 'string', gain_gq),
        ('gt_loss_hom', 'string', gt_hom),
        ('gt_loss_het', 'string', gt_het),
        ('gt_hom_at', 'Z', 0),
        ('vcf_id', 'string', '.'),
        ('vcf_ref', 'string', 'N'),
        ('vcf_qual', 'string', '.'),
        ('vcf_filter', 'string', '.'),
        ('vcf_columns', 'list string', ['#CHROM', 'POS', 'ID', 'REF', 'ALT', 'QUAL', 'FILTER', 'INFO', 'FORMAT']),
        ('ci_edge', 'Z', 0),
        ('seg_start_off', 'Z', seg_start_off),
        ('seg_first_id', 'Z', ids[0]),
        ('seg_chrom_ids_default', 'bool', seg_chrom_ids_default),
        ('merge_reserved', 'list string', reserved),
        ('label_start_off', 'Z', 0),
        ('cdt_header', 'list string', ['GID', 'CLID', 'NAME', 'GWEIGHT']),
        ('cdt_header2', 'list string', ['AID', '', '', '']),
        ('cdt_header3', 'list string', ['EWEIGHT', '', '', '']),
        ('cdt_arry_prefix', 'string', 'ARRY'),
        ('cdt_arry_suffix', 'string', 'X'),
        ('cdt_arry_width', 'Z', cdt_nums[0]),
        ('cdt_eweight', 'string', '1'),
        ('cdt_gid_prefix', 'string', 'GENE'),
        ('cdt_gid_suffix', 'string', 'X'),
        ('cdt_clid_prefix', 'string', 'IMAGE:'),
        ('cdt_gweight', 'Z', cdt_nums[1]),
        ('jtv_header', 'list string', ['CloneID', 'Name']),
        ('jtv_clone', 'string', 'IMAGE:'),
        ('nexus_label_off', 'Z', lab_nums[0]),
        ('vcf_header_template', 'list (list (bool * string))', header_template),
        ('vcf_ph_date', 'string', 'date'),
        ('vcf_ph_version', 'string', 'version'),
        ('info_flag', 'string', info_flag),
        ('info_keys', 'list string', info_keys),
        ('info_sep', 'string', info_sep),
        ('info_cipos', 'string * string * string', ci_parts[0]),
        ('info_ciend', 'string * string * string', ci_parts[1]),
        ('ogt_min_weight_default', 'Q', ogt_min_weight),
        ('ogt_tumor_boost', 'bool', ogt_boost),
        ('ogt_header', 'list string', ['Chromosome', 'Position', 'Position', 'Log R Ratio', 'B-Allele Frequency']),
        ('theta_header', 'list string', ['#ID', 'chrm', 'start', 'end', 'tumorCount', 'normalCount']),
        ('theta_first_chrm', 'Z', T.numbers_in(E, H)[0]),
        ('theta_id_parts', 'list string', ['start_', '_', ':end_', '_']),
        ('theta_new_weight_above', 'Q', theta_new_weight),
        ('theta_depth', 'Z', theta_depth),
        ('theta_bin_width', 'Z', theta_bin_width),
        ('theta_read_len', 'Z', theta_read_len),
        ('theta_nan_count', 'Z', theta_nan_count),
        ('theta_autosome_pattern', 'string', auto_pat),
    ]}
