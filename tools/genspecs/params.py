"""cnvlib/params.py -> Gen/Params.v (shared by most properties)."""


def specs(T):
    P = 'cnvlib/params.py'
    par = T.const(P, 'PSEUDO_AUTSOMAL_REGIONS')
    par_rows = []
    for build in sorted(par):
        for key in sorted(par[build]):
            lo, hi = par[build][key]
            par_rows.append((build, key, lo, hi))
    return {'Params': [
        ('MIN_REF_COVERAGE', 'Q', T.const(P, 'MIN_REF_COVERAGE')),
        ('MAX_REF_SPREAD', 'Q', T.const(P, 'MAX_REF_SPREAD')),
        ('NULL_LOG2_COVERAGE', 'Q', T.const(P, 'NULL_LOG2_COVERAGE')),
        ('GC_MIN_FRACTION', 'Q', T.const(P, 'GC_MIN_FRACTION')),
        ('GC_MAX_FRACTION', 'Q', T.const(P, 'GC_MAX_FRACTION')),
        ('INSERT_SIZE', 'Z', T.const(P, 'INSERT_SIZE')),
        ('IGNORE_GENE_NAMES', 'list string', T.const(P, 'IGNORE_GENE_NAMES')),
        ('ANTITARGET_NAME', 'string', T.const(P, 'ANTITARGET_NAME')),
        ('ANTITARGET_ALIASES', 'list string', (T.const(P, 'ANTITARGET_NAME'), 'Background')
            if T.body_is(P, 'ANTITARGET_ALIASES', "(ANTITARGET_NAME, 'Background')") else None),
        ('PAR_TABLE', 'list (string * string * Z * Z)', par_rows),
    ]}
