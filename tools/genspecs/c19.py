"""cnvlib/descriptives.py + cnvlib/smoothing.py -> Gen/DescDefaults.v (C19).

Default arguments, decorator defaults and in-body literals of the robust
estimators and smoothers.  Positions in `numbers_in` are fingerprinted (exact
length) and the role of each literal is pinned with a normalised source
fragment, so a changed constant is followed by the model and a changed shape is
refused (tie reported as broken)."""
import sys


def specs(T):
    D = 'cnvlib/descriptives.py'
    S = 'cnvlib/smoothing.py'

    def nums(rel, f, n):
        v = T.numbers_in(rel, f)
        if len(v) != n:
            raise T.Refuse('%s:%s: expected %d numeric literals, found %r' % (rel, f, n, v))
        return v

    # --- biweight location
    T.body_contains(D, 'biweight_location', 'w = d / max(c * mad, epsilon)')
    T.body_contains(D, 'biweight_location', 'mask = np.abs(w) < 1\n        w = (1 - w ** 2) ** 2')
    T.body_contains(D, 'biweight_location', 'if abs(result - initial) <= epsilon')
    nums(D, 'biweight_location', 8)
    # --- biweight midvariance
    bv = nums(D, 'biweight_midvariance', 13)
    T.body_contains(D, 'biweight_midvariance', 'return mad * 1.4826' if bv[4] == 1.4826 else 'return mad * %r' % bv[4])
    T.body_contains(D, 'biweight_midvariance', 'w = d / max(c * mad, epsilon)')
    T.body_contains(D, 'biweight_midvariance', 'if not w[mask].any():')
    T.body_contains(D, 'biweight_midvariance',
                    'n * (d_ ** 2 * (1 - w_) ** %d).sum() / ((1 - w_) * (1 - %d * w_)).sum() ** 2' % (bv[8], bv[11]))
    # --- weighted median
    wm = nums(D, 'weighted_median', 4)
    T.body_contains(D, 'weighted_median', 'midpoint = %r * weights.sum()' % wm[0])
    T.body_contains(D, 'weighted_median', 'tolerance = len(a) * sys.float_info.epsilon * cumulative_weight[-1]')
    T.body_contains(D, 'weighted_median', 'abs(cumulative_weight[midpoint_idx] - midpoint) <= tolerance')
    T.body_contains(D, 'weighted_median', 'midpoint_idx = cumulative_weight.searchsorted(midpoint - tolerance)')
    # --- MAD, IQR, weighted MAD, gapper, mse
    mad = nums(D, 'median_absolute_deviation', 2)
    T.body_contains(D, 'median_absolute_deviation', 'mad *= %r' % mad[1])
    wmad = nums(D, 'weighted_mad', 2)
    T.body_contains(D, 'weighted_mad', 'mad *= %r' % wmad[1])
    iqr = nums(D, 'interquartile_range', 3)
    T.body_contains(D, 'interquartile_range', 'np.percentile(a, %d) - np.percentile(a, %d)' % (iqr[1], iqr[2]))
    gap = nums(D, 'gapper_scale', 3)
    T.body_contains(D, 'gapper_scale', '(gaps * weights).sum() * np.sqrt(np.pi) / (n * (n - 1))')
    mse = nums(D, 'mean_squared_error', 2)
    T.body_contains(D, 'mean_squared_error', 'if initial:\n        a = a - initial\n    return (a ** 2).mean()')
    wstd = nums(D, 'weighted_std', 2)
    T.body_contains(D, 'modal_location', 'if sarr[0] == sarr[-1]:\n        return sarr[0]')
    T.body_contains(S, 'rolling_median', 'if len(x) < 2:\n        return np.asarray(x, dtype=float)')
    # --- Qn
    qn = nums(D, 'q_n', 10)
    T.body_contains(D, 'q_n', 'quartile = np.percentile(vals, %d)' % qn[2])
    T.body_contains(D, 'q_n', 'if n <= %d' % qn[3])
    T.body_contains(D, 'q_n', 'scale = %r' % qn[4])
    T.body_contains(D, 'q_n', 'elif %d < n < %d' % (qn[5], qn[6]))
    T.body_contains(D, 'q_n', 'scale = %r + %d / n' % (qn[7], qn[8]))
    T.body_contains(D, 'q_n', 'return quartile / scale')
    # --- smoothing
    ww = nums(S, '_width2wing', 9)
    T.body_contains(S, '_width2wing', 'wing = int(math.ceil(len(x) * width * %r))' % ww[3])
    T.body_contains(S, '_width2wing', 'if 0 < width < 1')
    T.body_contains(S, '_width2wing', 'wing = int(width // 2)')
    T.body_contains(S, '_pad_array', 'np.concatenate((x[wing - 1::-1], x, x[:-wing - 1:-1]))')
    sg = nums(S, 'savgol', 9)
    T.body_contains(S, 'savgol', 'n_iter = max(1, min(%d, total_width // window_width))' % sg[8])
    T.body_contains(S, 'savgol', 'order = min(order, window_width // 2)')
    gw = nums(S, 'guess_window_size', 4)

    return {'DescDefaults': [
        ('BILOC_C', 'Q', T.default(D, 'biweight_location', 'c')),
        ('BILOC_EPS', 'Q', T.default(D, 'biweight_location', 'epsilon')),
        ('BILOC_MAX_ITER', 'Z', T.default(D, 'biweight_location', 'max_iter')),
        ('BILOC_MASK_BOUND', 'Q', T.compare_with(D, 'biweight_location', 'np.abs(w)', 'Lt')),
        ('BIVAR_DEFAULT', 'Q', bv[0]),
        ('BIVAR_C', 'Q', T.default(D, 'biweight_midvariance', 'c')),
        ('BIVAR_EPS', 'Q', T.default(D, 'biweight_midvariance', 'epsilon')),
        ('BIVAR_MASK_BOUND', 'Q', T.compare_with(D, 'biweight_midvariance', 'np.abs(w)', 'Lt')),
        ('BIVAR_MAD_SCALE', 'Q', bv[4]),
        ('BIVAR_NUM_POW', 'Z', bv[8]),
        ('BIVAR_DEN_COEF', 'Q', bv[11]),
        ('WMEDIAN_HALF', 'Q', wm[0]),
        ('WMEDIAN_TOL_EPS', 'Q', sys.float_info.epsilon),
        ('MAD_DEFAULT', 'Q', mad[0]),
        ('MAD_SCALE', 'Q', mad[1]),
        ('MAD_SCALE_TO_SD', 'bool', T.default(D, 'median_absolute_deviation', 'scale_to_sd')),
        ('WMAD_DEFAULT', 'Q', wmad[0]),
        ('WMAD_SCALE', 'Q', wmad[1]),
        ('WSTD_DEFAULT', 'Q', wstd[0]),
        ('WMAD_SCALE_TO_SD', 'bool', T.default(D, 'weighted_mad', 'scale_to_sd')),
        ('IQR_DEFAULT', 'Q', iqr[0]),
        ('IQR_HI', 'Q', iqr[1]),
        ('IQR_LO', 'Q', iqr[2]),
        ('GAPPER_DEFAULT', 'Q', gap[0]),
        ('MSE_DEFAULT', 'Q', mse[0]),
        ('QN_DEFAULT', 'Q', qn[0]),
        ('QN_PCT', 'Q', qn[2]),
        ('QN_SMALL_N', 'Z', qn[3]),
        ('QN_SMALL_SCALE', 'Q', qn[4]),
        ('QN_MID_LO', 'Z', qn[5]),
        ('QN_MID_HI', 'Z', qn[6]),
        ('QN_MID_BASE', 'Q', qn[7]),
        ('QN_MID_NUM', 'Q', qn[8]),
        ('QN_LARGE_SCALE', 'Q', qn[9]),
        ('MIN_WING', 'Z', T.default(S, '_width2wing', 'min_wing')),
        ('WING_HALF', 'Q', ww[3]),
        ('WIDTH_INT_MIN', 'Q', T.compare_with(S, '_width2wing', 'width', 'GtE')),
        ('WING_ASSERT_MIN', 'Z', T.compare_with(S, '_width2wing', 'wing', 'GtE')),
        ('ROLLING_MIN_PERIODS', 'Z', T.call_arg(S, 'rolling_median', 'rolling', 1)),
        ('ROLLING_MIN_LEN', 'Z', T.compare_with(S, 'rolling_median', 'len(x)', 'Lt')),
        ('KAISER_MIN_LEN', 'Z', T.compare_with(S, 'kaiser', 'len(x)', 'Lt')),
        ('SAVGOL_MIN_LEN', 'Z', T.compare_with(S, 'savgol', 'len(x)', 'Lt')),
        ('KAISER_BETA', 'Z', T.call_arg(S, 'kaiser', 'np.kaiser', 1)),
        ('SAVGOL_WINDOW', 'Z', T.default(S, 'savgol', 'window_width')),
        ('SAVGOL_ORDER', 'Z', T.default(S, 'savgol', 'order')),
        ('SAVGOL_NITER', 'Z', T.default(S, 'savgol', 'n_iter')),
        ('SAVGOL_MAX_ITER', 'Z', sg[8]),
        ('GUESS_FACTOR', 'Q', gw[0]),
        ('GUESS_MIN_WIDTH', 'Z', gw[3]),
    ]}
