"""cnvlib/reference.py, the biweight estimators of cnvlib/descriptives.py and the sex /
flat rules of cnvlib/cnary.py -> Gen/RefDefaults.v  (property C05).

Numbers (c, epsilon, max_iter, 1.4826, the powers and the coefficient 5 of the
midvariance formula, the +1 / -1 sex shifts, the flat level) are extracted; the
statements around them are pinned with body_contains so that a structural edit of
the anchored code makes the translator refuse (the tie is then reported broken)."""


def specs(T):
    D = 'cnvlib/descriptives.py'
    R = 'cnvlib/reference.py'
    C = 'cnvlib/cnary.py'
    G = 'skgenome/gary.py'

    # ---- biweight location -------------------------------------------------
    for frag in ('d = a - initial', 'mad = np.median(np.abs(d))', 'w = d / max(c * mad, epsilon)',
                 'mask = np.abs(w) < 1', 'w = (1 - w ** 2) ** 2', 'weightsum = w[mask].sum()',
                 'if weightsum == 0:\n            return initial',
                 'return initial + (d[mask] * w[mask]).sum() / weightsum',
                 'initial = np.median(a)', 'for _i in range(max_iter):',
                 'if abs(result - initial) <= epsilon:\n            break'):
        T.body_contains(D, 'biweight_location', frag)
    if T.numbers_in(D, 'biweight_location')[3:] != [1, 1, 2, 2, 0]:
        raise T.Refuse('biweight_location: in-body literals changed')

    # ---- biweight midvariance ----------------------------------------------
    nums = T.numbers_in(D, 'biweight_midvariance')
    if len(nums) != 13:
        raise T.Refuse('biweight_midvariance: expected 13 numeric literals, found %r' % (nums,))
    one_digit, mad_scale, num_pow, den_coef = nums[0], nums[4], nums[8], nums[11]
    for frag in ('d = a - initial', 'mad = np.median(np.abs(d))', 'w = d / max(c * mad, epsilon)',
                 'mask = np.abs(w) < 1',
                 'if not w[mask].any():\n        return mad * %r' % mad_scale,
                 'n = mask.sum()', 'd_ = d[mask]', 'w_ = (w ** 2)[mask]',
                 'return np.sqrt(n * (d_ ** 2 * (1 - w_) ** %d).sum() / ((1 - w_) * (1 - %d * w_)).sum() ** 2)'
                 % (num_pow, den_coef)):
        T.body_contains(D, 'biweight_midvariance', frag)
    src = T.func_source(D, 'biweight_midvariance')
    if not src.startswith('@on_array(%r)' % one_digit):
        raise T.Refuse('biweight_midvariance: decorator is not on_array(<default>)')
    if not T.func_source(D, 'biweight_location').startswith('@on_array()'):
        raise T.Refuse('biweight_location: decorator is not on_array()')

    # ---- summarize_info: which columns, which initial ----------------------
    for frag in ('cvg_centers = np.apply_along_axis(descriptives.biweight_location, 0, all_logr)',
                 'depth_centers = np.apply_along_axis(descriptives.biweight_location, 0, all_depths)',
                 'descriptives.biweight_midvariance(a, initial=i) for a, i in zip(all_logr.T, cvg_centers)'):
        T.body_contains(R, 'summarize_info', frag)

    # ---- sex shift ----------------------------------------------------------
    sx = T.numbers_in(R, 'shift_sex_chroms')
    if len(sx) != 2:
        raise T.Refuse('shift_sex_chroms: expected two numeric literals, found %r' % (sx,))
    for frag in ("is_xx = sexes.get(cnarr.sample_id)", "cnarr['log2'] += ref_flat_logr",
                 "if is_xx:\n        cnarr[is_chr_y, 'log2'] = -%r" % sx[0],
                 "else:\n        cnarr[is_chr_x | is_chr_y, 'log2'] += %r" % sx[1]):
        T.body_contains(R, 'shift_sex_chroms', frag)
    T.body_contains(R, 'bias_correct_logr',
                    'cnarr.center_all(skip_low=skip_low, diploid_parx_genome=diploid_parx_genome)\n'
                    '    shift_sex_chroms(cnarr, sexes, ref_flat_logr, is_chr_x, is_chr_y)')

    # ---- flat profile -------------------------------------------------------
    fl = T.numbers_in(C, 'CopyNumArray.expect_flat_log2')
    if len(fl) != 1:
        raise T.Refuse('expect_flat_log2: expected one numeric literal, found %r' % (fl,))
    for frag in ('cvg = np.zeros(len(self), dtype=np.float64)',
                 'if is_haploid_x_reference:\n        idx = self.chr_x_filter(diploid_parx_genome).values | '
                 'self.chr_y_filter(diploid_parx_genome).values',
                 'else:\n        idx = self.chr_y_filter().values',
                 'cvg[idx] = -%r' % fl[0]):
        T.body_contains(C, 'CopyNumArray.expect_flat_log2', frag)
    T.body_contains(C, 'CopyNumArray.chr_x_label',
                    "chr_x_label = 'chrX' if self.chromosome.iat[0].startswith('chr') else 'X'")
    T.body_contains(C, 'CopyNumArray.chr_y_label', "chr_y = 'chrY' if self.chr_x_label.startswith('chr') else 'Y'")
    T.body_contains(C, 'CopyNumArray.chr_x_filter', 'x &= ~self.parx_filter(genome_build=diploid_parx_genome)')
    T.body_contains(C, 'CopyNumArray.chr_y_filter', 'y &= ~self.pary_filter(genome_build=diploid_parx_genome)')
    par = ('f &= (self.start >= par1_start) & (self.end <= par1_end) | '
           '(self.start >= par2_start) & (self.end <= par2_end)')
    T.body_contains(C, 'CopyNumArray.parx_filter', par)
    T.body_contains(C, 'CopyNumArray.pary_filter', par)
    T.body_contains(R, 'do_reference_flat',
                    "ref_probes['log2'] = ref_probes.expect_flat_log2(is_haploid_x_reference, diploid_parx_genome)")
    T.body_contains(R, 'do_reference_flat', "ref_probes['depth'] = np.exp2(ref_probes['log2'])")

    # ---- centring ------------------------------------------------------------
    for frag in ('min_cvg = params.NULL_LOG2_COVERAGE - params.MIN_REF_COVERAGE',
                 "drop_idx = self.data['log2'] < min_cvg",
                 "if 'depth' in self:\n        drop_idx |= self.data['depth'] == 0"):
        T.body_contains(C, 'CopyNumArray.drop_low_coverage', frag)
    for frag in ('cnarr = (self.drop_low_coverage(verbose=verbose) if skip_low else self).autosomes('
                 'diploid_parx_genome=diploid_parx_genome)',
                 "values = pd.Series([estimator(subarr['log2']) for _c, subarr in cnarr.by_chromosome() if len(subarr)])",
                 'shift = -estimator(values)', "self.data['log2'] += shift"):
        T.body_contains(C, 'CopyNumArray.center_all', frag)
    if ast_default_src(T, C, 'CopyNumArray.center_all', 'estimator') != 'pd.Series.median':
        raise T.Refuse('center_all: default estimator is not pd.Series.median')
    if T.default(C, 'CopyNumArray.center_all', 'by_chrom') is not True:
        raise T.Refuse('center_all: by_chrom default is not True')
    auto_pat = T.call_arg(G, 'GenomicArray.autosomes', 'str.match', 0)
    T.body_contains(G, 'GenomicArray.autosomes', 'if not is_auto.any():\n        return self')

    # ---- pooling --------------------------------------------------------------
    for frag in ('filenames = sorted(filenames, key=core.fbase)', 'if len(cnarr1) == 0:\n        for fname in filenames[1:]:\n            if len(read_cna(fname)):\n                raise RuntimeError(',
                 "if not np.array_equal(cnarr1.data.loc[:, ('chromosome', 'start', 'end', 'gene')].values, "
                 "cnarrx.data.loc[:, ('chromosome', 'start', 'end', 'gene')].values):",
                 "raise RuntimeError(f'{fname} bins do not match those in {filenames[0]}')",
                 'ref_flat_logr = cnarr1.expect_flat_log2(is_haploid_x, diploid_parx_genome)',
                 'all_logr = [ref_flat_logr, bias_correct_logr('):
        T.body_contains(R, 'load_sample_block', frag)
    for frag in ('load_sample_block(filenames, fa_fname, is_haploid_x, diploid_parx_genome, sexes, True, fix_gc, '
                 'fix_edge, False)',
                 'load_sample_block(antitarget_fnames, fa_fname, is_haploid_x, diploid_parx_genome, sexes, False, '
                 'fix_gc, False, fix_rmask)',
                 'all_logr = np.hstack([all_logr, anti_logr])', 'ref_cna.sort()'):
        T.body_contains(R, 'combine_probes', frag)

    # ---- gc / rmask -------------------------------------------------------------
    for frag in ("cnt_at_lo = subseq.count('a') + subseq.count('t')", "cnt_at_up = subseq.count('A') + subseq.count('T')",
                 "cnt_gc_lo = subseq.count('g') + subseq.count('c')", "cnt_gc_up = subseq.count('G') + subseq.count('C')",
                 'tot = float(cnt_gc_up + cnt_gc_lo + cnt_at_up + cnt_at_lo)', 'if not tot:\n        return (0.0, 0.0)',
                 'frac_gc = (cnt_gc_lo + cnt_gc_up) / tot', 'frac_lo = (cnt_at_lo + cnt_gc_lo) / tot'):
        T.body_contains(R, 'calculate_gc_lo', frag)
    T.body_contains(R, 'fasta_extract_regions', 'yield fa_file[_chrom][int(start):int(end)]')

    return {'RefDefaults': [
        ('BILOC_C', 'Q', T.default(D, 'biweight_location', 'c')),
        ('BILOC_EPS', 'Q', T.default(D, 'biweight_location', 'epsilon')),
        ('BILOC_MAX_ITER', 'Z', T.default(D, 'biweight_location', 'max_iter')),
        ('BIVAR_C', 'Q', T.default(D, 'biweight_midvariance', 'c')),
        ('BIVAR_EPS', 'Q', T.default(D, 'biweight_midvariance', 'epsilon')),
        ('BIVAR_MAD_SCALE', 'Q', mad_scale),
        ('BIVAR_NUM_POW', 'Z', num_pow),
        ('BIVAR_DEN_COEF', 'Q', den_coef),
        ('BIVAR_SINGLE', 'Q', one_digit),
        ('BIVAR_MASK_BOUND', 'Q', nums[3]),
        ('FEMALE_Y_LOG2', 'Q', -sx[0]),
        ('MALE_SEX_SHIFT', 'Q', sx[1]),
        ('FLAT_SEX_LOG2', 'Q', -fl[0]),
        ('AUTOSOME_PATTERN', 'string', auto_pat),
    ]}


def ast_default_src(T, rel, qual, arg):
    import ast
    return ast.unparse(T.default_node(rel, qual, arg))
