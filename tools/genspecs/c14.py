"""cnvlib/segfilters.py, call.py, descriptives.py -> Gen/SegfilterDefaults.v (C14).

Numbers the segment-filter model depends on: the sem z-score default, the
comparison literals of the level definitions (ampdel 0 / 5, ci and sem against
0), the `region_weight > 0` switch of squash_region, the 0.5 of the weighted
median's midpoint, and the names/order of the filters do_call applies before
calling.  Structural fragments the model relies on are fingerprinted with
body_contains (fail-closed)."""


def specs(T):
    S = 'cnvlib/segfilters.py'
    C = 'cnvlib/call.py'
    D = 'cnvlib/descriptives.py'

    # squash_region: every `region_weight > <literal>` must use the same literal
    rw = {v for (l, o, v) in T.compares(S, 'squash_region') if l == 'region_weight' and o == 'Gt'}
    if len(rw) != 1:
        raise T.Refuse('%s:squash_region: expected one literal in `region_weight > ..`, found %r' % (S, sorted(rw)))
    # the level values written by the three level functions: -1 / 1 (fingerprint of all numeric literals)
    if T.numbers_in(S, 'ampdel') != [0, 1, 5, 1, 0, 5]:
        raise T.Refuse('%s:ampdel: numeric literals changed: %r' % (S, T.numbers_in(S, 'ampdel')))
    if T.numbers_in(S, 'ci') != [0, 1, 0, 1]:
        raise T.Refuse('%s:ci: numeric literals changed: %r' % (S, T.numbers_in(S, 'ci')))
    if T.numbers_in(S, 'sem') != [1.96, 0, 1, 0, 1]:
        raise T.Refuse('%s:sem: numeric literals changed: %r' % (S, T.numbers_in(S, 'sem')))
    for frag in ("levels[segarr['cn'] == 0] = -1", "levels[segarr['cn'] >= 5] = 1",
                 "cnarr[(cnarr['cn'] == 0) | (cnarr['cn'] >= 5)]"):
        T.body_contains(S, 'ampdel', frag)
    for frag in ("levels[segarr['ci_lo'].values > 0] = 1", "levels[segarr['ci_hi'].values < 0] = -1"):
        T.body_contains(S, 'ci', frag)
    for frag in ("margin = segarr['sem'] * zscore", "levels[segarr['log2'] - margin > 0] = 1",
                 "levels[segarr['log2'] + margin < 0] = -1"):
        T.body_contains(S, 'sem', frag)
    T.body_contains(S, 'cn', "squash_by_groups(segarr, segarr['cn'])")
    for frag in ("sort=False", "groupkey.extend(['_g1', '_g2'])", "change_levels += chrom_col",
                 "cnarr['chromosome'].unique()"):
        T.body_contains(S, 'squash_by_groups', frag)
    for frag in ("prev = levels.shift()", "changed = (levels != prev) & ~(levels.isnull() & prev.isnull())",
                 "changed.iloc[:1] = False", "changed.cumsum().astype(int)"):
        T.body_contains(S, 'enumerate_changes', frag)
    for frag in ("out['cn2'] = out['cn'] - out['cn1']", "cnarr['start'].iat[0]", "cnarr['end'].iat[-1]",
                 "cnarr['p_bintest'].max()", "','.join(cnarr['gene'].drop_duplicates())"):
        T.body_contains(S, 'squash_region', frag)
    # every field squash_region computes (C14_merged_fields models them one by one)
    for frag in ("region_weight = cnarr['weight'].sum()",
                 "out['log2'] = np.average(cnarr['log2'], weights=cnarr['weight'])", "out['log2'] = np.mean(cnarr['log2'])",
                 "out['probes'] = cnarr['probes'].sum() if 'probes' in cnarr else len(cnarr)", "out['weight'] = region_weight",
                 "out['depth'] = np.average(cnarr['depth'], weights=cnarr['weight'])", "out['depth'] = np.mean(cnarr['depth'])",
                 "out['baf'] = np.average(cnarr['baf'], weights=cnarr['weight'])", "out['baf'] = np.mean(cnarr['baf'])",
                 "out['cn'] = weighted_median(cnarr['cn'], cnarr['weight'])", "out['cn'] = np.median(cnarr['cn'])",
                 "out['cn1'] = weighted_median(cnarr['cn1'], cnarr['weight'])", "out['cn1'] = np.median(cnarr['cn1'])",
                 "return pd.DataFrame(out)"):
        T.body_contains(S, 'squash_region', frag)
    # the columns each filter insists on (C14_consumes: a second ci / sem is refused)
    T.body_contains(S, 'ci', "@require_column('ci_lo', 'ci_hi')")
    T.body_contains(S, 'sem', "@require_column('sem')")
    T.body_contains(S, 'cn', "@require_column('cn')")
    T.body_contains(S, 'ampdel', "@require_column('cn')")
    T.body_contains(S, 'require_column', "raise ValueError(msg.format(filtname, *colnames))")
    # the skeleton of do_call around the filters (C14_do_call composes them with the C01/C02 calling step)
    for frag in ("outarr = getattr(segfilters, filt)(outarr)", "if purity and purity < 1.0:", "elif method == 'clonal':",
                 "if method == 'threshold':", "if method != 'none':", "outarr['cn'] = absolutes.round().astype('int')",
                 "if 'baf' in outarr:", "outarr['cn2'] = outarr['cn'] - outarr['cn1']", "for filt in filters:",
                 "outarr['log2'] = log2_ratios(outarr, absolutes, ploidy, is_haploid_x_reference, diploid_parx_genome)"):
        T.body_contains(C, 'do_call', frag)
    T.body_contains(C, 'do_call', "for filt in ('ci', 'sem'):")
    T.body_contains(C, 'do_call', "filters.remove(filt)")
    T.body_contains(D, 'weighted_median', "midpoint = 0.5 * weights.sum()")
    T.body_contains(D, 'weighted_median', "tolerance = len(a) * sys.float_info.epsilon * cumulative_weight[-1]")

    return {'SegfilterDefaults': [
        ('sem_zscore', 'Q', T.default(S, 'sem', 'zscore')),
        ('ampdel_del_cn', 'Q', T.compare_with(S, 'ampdel', "segarr['cn']", 'Eq')),
        ('ampdel_amp_cn', 'Q', T.compare_with(S, 'ampdel', "segarr['cn']", 'GtE')),
        ('ampdel_keep_del_cn', 'Q', T.compare_with(S, 'ampdel', "cnarr['cn']", 'Eq')),
        ('ampdel_keep_amp_cn', 'Q', T.compare_with(S, 'ampdel', "cnarr['cn']", 'GtE')),
        ('ci_lo_above', 'Q', T.compare_with(S, 'ci', "ci_lo", 'Gt')),
        ('ci_hi_below', 'Q', T.compare_with(S, 'ci', "ci_hi", 'Lt')),
        ('sem_above', 'Q', T.compare_with(S, 'sem', "- margin", 'Gt')),
        ('sem_below', 'Q', T.compare_with(S, 'sem', "+ margin", 'Lt')),
        ('region_weight_min', 'Q', sorted(rw)[0]),
        ('wmedian_mid_factor', 'Q', T.numbers_in(D, 'weighted_median')[0]),
        ('pre_call_filters', 'list string', ['ci', 'sem']),
    ]}
