"""cnvlib/segmetrics.py, cnvlib/bintest.py and the descriptives they call -> Gen/SegmetricsDefaults.v

Numbers the C17 models depend on are located through the ast and regenerated on
every run; the structure of the anchored functions (which library function each
statistic name is bound to, selection modes, the order of the Benjamini-Hochberg
steps) is fingerprinted with body_contains so that a refactor is refused rather
than silently ignored (function *bodies* are tied by the correspondence check)."""


def _nums(T, rel, qual, n):
    v = T.numbers_in(rel, qual)
    if len(v) != n:
        raise T.Refuse('%s:%s: expected %d numeric literals, found %r' % (rel, qual, n, v))
    return v


def specs(T):
    S = 'cnvlib/segmetrics.py'
    B = 'cnvlib/bintest.py'
    D = 'cnvlib/descriptives.py'
    C = 'cnvlib/cnary.py'

    # --- the stat table: which function each column name is bound to
    for frag in ("'mean': np.mean", "'median': np.median", "'mode': descriptives.modal_location",
                 "'p_ttest': lambda a: stats.ttest_1samp(a, 0.0, nan_policy='omit')[1]",
                 "'stdev': np.std", "'mad': descriptives.median_absolute_deviation",
                 "'mse': descriptives.mean_squared_error", "'iqr': descriptives.interquartile_range",
                 "'bivar': descriptives.biweight_midvariance", "'sem': stats.sem",
                 "'ci': make_ci_func(alpha, bootstraps, smoothed)", "'pi': make_pi_func(alpha)",
                 "cnarr.iter_ranges_of(segarr, 'log2', 'outer', True)",
                 "deviations = (bl - sl for bl, sl in zip(bins_log2s, segarr['log2']))",
                 "cnarr = cnarr.drop_low_coverage()"):
        T.body_contains(S, 'do_segmetrics', frag)
    pi = _nums(T, S, 'make_pi_func', 5)                       # 100 * alpha / 2 ; 100 * (1 - alpha / 2)
    T.body_contains(S, 'make_pi_func', 'pct_lo = 100 * alpha / 2')
    T.body_contains(S, 'make_pi_func', 'pct_hi = 100 * (1 - alpha / 2)')
    T.body_contains(S, 'make_pi_func', 'return np.percentile(ser, [pct_lo, pct_hi])')
    T.body_contains(S, 'calc_intervals', 'if len(ser):')
    T.body_contains(S, 'calc_intervals', 'wt = weights[ser.index]')
    ci = _nums(T, S, 'confidence_interval_bootstrap', 14)
    for frag in ('if bootstraps <= 2 / alpha:', 'new_boots = int(np.ceil(2 / alpha))', 'if k < 2:',
                 'return np.repeat(values[0], 2)', 'np.random.seed(679661)',
                 'rand_indices = np.random.randint(0, k, size=(bootstraps, k))',
                 'seg_means = (np.average(val, weights=wt) for val, wt in samples)',
                 'alphas = np.array([alpha / 2, 1 - alpha / 2])',
                 'ci = np.percentile(bootstrap_dist, list(100 * alphas))'):
        T.body_contains(S, 'confidence_interval_bootstrap', frag)
    sm = _nums(T, S, '_smooth_samples_by_weight', 3)          # k ** (-1 / 4) ; 1 - w
    T.body_contains(S, '_smooth_samples_by_weight', 'k = len(values)')
    T.body_contains(S, '_smooth_samples_by_weight', 'bw = k ** (-1 / 4)')
    T.body_contains(S, '_smooth_samples_by_weight', 'return samples')
    for frag in ('samples = ((np.take(values, idx), np.take(weights, idx)) for idx in rand_indices)',
                 'samples = _smooth_samples_by_weight(values, samples)',
                 'bootstrap_dist = np.fromiter(seg_means, np.float64, bootstraps)', 'bootstraps = new_boots',
                 'k = len(values)'):
        T.body_contains(S, 'confidence_interval_bootstrap', frag)
    for frag in ("segarr['ci_lo'], segarr['ci_hi'] = calc_intervals(bins_log2s, weights, stat_funcs['ci'])",
                 "segarr['pi_lo'], segarr['pi_hi'] = calc_intervals(bins_log2s, weights, stat_funcs['pi'])",
                 "if 'ci' in interval_stats:", "if 'pi' in interval_stats:", 'for statname in location_stats:',
                 'for statname in spread_stats:', 'segarr = segarr.copy()', "weights = cnarr['weight']",
                 'segarr[statname] = np.fromiter(map(func, bins_log2s), np.float64, len(segarr))',
                 'segarr[statname] = np.fromiter(map(func, deviations), np.float64, len(segarr))'):
        T.body_contains(S, 'do_segmetrics', frag)
    T.body_contains(S, 'calc_intervals', 'out_vals_lo[i], out_vals_hi[i] = func(ser.values, wt.values)')
    T.body_contains(S, '_smooth_samples_by_weight',
                    'samples = [(v + bw * np.sqrt(1 - w) * np.random.randn(k), w) for v, w in samples]')

    # --- descriptives: the numbers come from C19's Gen/DescDefaults (Model/Descriptives.v); the
    # statements the C17 model mirrors are fingerprinted here
    T.body_contains(D, 'mean_squared_error', 'if initial:')
    T.body_contains(D, 'mean_squared_error', 'return (a ** 2).mean()')
    T.body_contains(D, 'median_absolute_deviation', 'mad = np.median(np.abs(a - a_median))')
    T.body_contains(D, 'interquartile_range', 'return np.percentile(a, 75) - np.percentile(a, 25)')
    for frag in ('initial = biweight_location(a)', 'w = d / max(c * mad, epsilon)', 'mask = np.abs(w) < 1',
                 'if not w[mask].any():', 'return mad * 1.4826', 'w_ = (w ** 2)[mask]',
                 'return np.sqrt(n * (d_ ** 2 * (1 - w_) ** 4).sum() / ((1 - w_) * (1 - 5 * w_)).sum() ** 2)'):
        T.body_contains(D, 'biweight_midvariance', frag)
    for frag in ('w = d / max(c * mad, epsilon)', 'mask = np.abs(w) < 1', 'w = (1 - w ** 2) ** 2',
                 'if weightsum == 0:', 'return initial + (d[mask] * w[mask]).sum() / weightsum',
                 'initial = np.median(a)', 'if abs(result - initial) <= epsilon:'):
        T.body_contains(D, 'biweight_location', frag)
    for frag in ('if not len(a):', 'if len(a) == 1:', 'if default is None:', 'return a[0]', 'return default'):
        T.body_contains(D, 'on_array', frag)

    # --- bintest
    zp = _nums(T, B, 'z_prob', 2)                             # 1 - weight ; 2.0 * cdf
    for frag in ("sd = np.sqrt(1 - cnarr['weight'])", "z = cnarr['log2'] / sd", 'p = 2.0 * norm.cdf(-np.abs(z))',
                 'return p_adjust_bh(p)'):
        T.body_contains(B, 'z_prob', frag)
    bh = _nums(T, B, 'p_adjust_bh', 4)                        # [::-1] ; arange(len, 0, -1) ; minimum(1, ..)
    for frag in ('by_descend = p.argsort()[::-1]', 'by_orig = by_descend.argsort()',
                 'steps = float(len(p)) / np.arange(len(p), 0, -1)',
                 'q = np.minimum(1, np.minimum.accumulate(steps * p[by_descend]))', 'return q[by_orig]'):
        T.body_contains(B, 'p_adjust_bh', frag)
    for frag in ('resid = cnarr.residuals(segments)', "cnarr['log2'] = resid",
                 "antitarget_idx = cnarr['gene'].isin(params.ANTITARGET_ALIASES)", 'cnarr = cnarr[~antitarget_idx]',
                 "cnarr['p_bintest'] = z_prob(cnarr)", "is_sig = cnarr['p_bintest'] < alpha", 'hits = cnarr[is_sig]'):
        T.body_contains(B, 'do_bintest', frag)
    bt = _nums(T, B, 'do_bintest', 4)                         # alpha default ; head(50) ; probes = 1 ; 100 %
    for frag in ('cnarr = cnarr.copy()', "cnarr['probes'] = 1", 'if target_only:', 'if antitarget_idx.any():',
                 'if not resid.index.is_unique:', 'resid = resid[~resid.index.duplicated()]',
                 'cnarr = cnarr.as_dataframe(cnarr.data.loc[resid.index])', 'if len(cnarr) != len(resid):', 'return hits'):
        T.body_contains(B, 'do_bintest', frag)
    T.body_contains(C, 'CopyNumArray.residuals', 'if not segments:')
    T.body_contains(C, 'CopyNumArray.residuals', "elif 'log2' in segments:")
    T.body_contains(C, 'CopyNumArray.residuals', 'return pd.concat(resids) if resids else pd.Series([])')
    T.body_contains(C, 'CopyNumArray.residuals', "self.iter_ranges_of(segments, 'log2', mode='inner', keep_empty=True)")
    T.body_contains(C, 'CopyNumArray.residuals', 'bins_lr - seg_lr')
    T.body_contains(C, 'CopyNumArray.residuals', 'subcna.log2 - subcna.log2.median() for _chrom, subcna in self.by_chromosome()')
    for frag in ('min_cvg = params.NULL_LOG2_COVERAGE - params.MIN_REF_COVERAGE', "drop_idx = self.data['log2'] < min_cvg",
                 "drop_idx |= self.data['depth'] == 0", 'return self[~drop_idx]'):
        T.body_contains(C, 'CopyNumArray.drop_low_coverage', frag)

    return {'SegmetricsDefaults': [
        ('sm_alpha_default', 'Q', T.default(S, 'do_segmetrics', 'alpha')),
        ('sm_bootstraps_default', 'Z', T.default(S, 'do_segmetrics', 'bootstraps')),
        ('sm_smoothed_default', 'bool', T.default(S, 'do_segmetrics', 'smoothed')),
        ('sm_skip_low_default', 'bool', T.default(S, 'do_segmetrics', 'skip_low')),
        ('pi_hundred_lo', 'Q', pi[0]), ('pi_two_lo', 'Q', pi[1]),
        ('pi_hundred_hi', 'Q', pi[2]), ('pi_one_hi', 'Q', pi[3]), ('pi_two_hi', 'Q', pi[4]),
        ('ci_boot_two', 'Q', ci[3]),                 # bootstraps <= 2 / alpha
        ('ci_boot_ceil_two', 'Q', ci[4]),            # ceil(2 / alpha)
        ('ci_min_k', 'Z', T.compare_with(S, 'confidence_interval_bootstrap', 'k', 'Lt')),
        ('ci_seed', 'Z', ci[8]),
        ('ci_two_lo', 'Q', ci[10]), ('ci_one_hi', 'Q', ci[11]), ('ci_two_hi', 'Q', ci[12]), ('ci_hundred', 'Q', ci[13]),
        ('sm_bw_exp_num', 'Z', sm[0]), ('sm_bw_exp_den', 'Z', sm[1]),   # bw = k ** (-1 / 4)
        ('sm_one', 'Q', sm[2]),                      # np.sqrt(1 - w)
        ('bt_probes', 'Z', bt[2]),                   # cnarr["probes"] = 1
        ('bt_alpha_default', 'Q', T.default(B, 'do_bintest', 'alpha')),
        ('bt_target_only_default', 'bool', T.default(B, 'do_bintest', 'target_only')),
        ('z_one', 'Q', zp[0]), ('z_two', 'Q', zp[1]),
        ('bh_cap', 'Q', bh[3]),                      # np.minimum(1, ...)
    ]}
