"""cnvlib/segmentation/haar.py (+ the haar default threshold of do_segmentation) -> Gen/HaarDefaults.v"""
import ast


def _one(T, hits, what):
    if len(hits) != 1:
        raise T.Refuse('haar: expected exactly one %s, found %d' % (what, len(hits)))
    return hits[0]


def specs(T):
    H = 'cnvlib/segmentation/haar.py'
    S = 'cnvlib/segmentation/__init__.py'
    # T = x_sorted[0] + <eps>
    f = T.find_func(H, 'FDRThres')
    eps = _one(T, [T.lit(n.value.right, 'FDRThres eps') for n in ast.walk(f)
                   if isinstance(n, ast.Assign) and ast.unparse(n.targets[0]) == 'T'
                   and isinstance(n.value, ast.BinOp) and isinstance(n.value.op, ast.Add)
                   and ast.unparse(n.value.left) == 'x_sorted[0]'], 'T = x_sorted[0] + <eps>')
    # return diff_vals.abs().median() * <1.4826>
    f = T.find_func(H, 'haarSeg.med_abs_diff')
    mad = _one(T, [T.lit(n.value.right, 'med_abs_diff scale') for n in ast.walk(f)
                   if isinstance(n, ast.Return) and isinstance(n.value, ast.BinOp) and isinstance(n.value.op, ast.Mult)
                   and ast.unparse(n.value.left) == 'diff_vals.abs().median()'], 'median * <scale>')
    # threshold = {... 'haar': 0.0001}.get(method)
    f = T.find_func(S, 'do_segmentation')
    dicts = [n for n in ast.walk(f) if isinstance(n, ast.Dict)
             and any(isinstance(k, ast.Constant) and k.value == 'haar' for k in n.keys)]
    d = T.lit(_one(T, dicts, "default-threshold dict with key 'haar'"), 'threshold dict')
    # the structure the model mirrors (fail-closed fingerprints of the one-line rules)
    for fn, frag in [
        ('FDRThres', 'if M < 2:\n        return 0'),
        ('FDRThres', 'm = np.arange(1, M + 1) / M'),
        ('FDRThres', 'x_sorted = np.sort(np.abs(x))[::-1]'),
        ('FDRThres', 'p = 2 * (1 - stats.norm.cdf(x_sorted, stdev))'),
        ('FDRThres', 'indices = np.nonzero(p <= m * q)[0]'),
        ('FDRThres', 'T = x_sorted[indices[-1]]'),
        ('haarSeg', 'diffI = pd.Series(HaarConv(I, None, 1))'),
        ('haarSeg', 'for level in range(haarStartLevel, haarEndLevel + 1):'),
        ('haarSeg', 'stepHalfSize = 2 ** level'),
        ('haarSeg', 'addonPeaks = np.extract(np.abs(convRes.take(peakLoc)) >= T, peakLoc)'),
        ('haarSeg', 'breakpoints = UnifyLevels(breakpoints, addonPeaks, 2 ** (level - 1))'),
        ('HaarConv', 'if stepHalfSize > signalSize:'),
        ('HaarConv', 'stepNorm = math.sqrt(2.0 * stepHalfSize)'),
        ('HaarConv', 'result[k] = math.sqrt(stepHalfSize / 2) * (lowNonNormed / lowWeightSum + highNonNormed / highWeightSum)'),
        ('UnifyLevels', 'last_pos = baseLevel[-1] + windowSize if len(baseLevel) else -1'),
        ('one_chrom', "haarSeg(cnarr.smooth_log2(), fdr_q, W=cnarr['weight'].values if 'weight' in cnarr else None)"),
        # the code paths of the clean-step / segment-mean / table theorems
        ('FDRThres', 'if M < 2:\n        return 0'),
        ('haarSeg', 'if rawI:'),
        ('haarSeg', 'T = FDRThres(convRes[peakLoc], breaksFdrQ, peakSigmaEst)'),
        ('haarSeg', 'segs = SegmentByPeaks(I, breakpoints, W)'),
        ('haarSeg', 'segSt = np.insert(breakpoints, 0, 0)'),
        ('haarSeg', 'segEd = np.append(breakpoints, len(I))'),
        ('haarSeg', "return {'start': segSt, 'end': segEd - 1, 'size': segEd - segSt, 'mean': segs[segSt]}"),
        ('HaarConv', 'for k in range(1, signalSize):'),
        ('HaarConv', 'highEnd = k + stepHalfSize - 1'),
        ('HaarConv', 'highEnd = signalSize - 1 - (highEnd - signalSize)'),
        ('HaarConv', 'lowEnd = k - stepHalfSize - 1'),
        ('HaarConv', 'lowEnd = -lowEnd - 1'),
        ('HaarConv', 'result[k] = result[k - 1] + signal[highEnd] + signal[lowEnd] - 2 * signal[k - 1]'),
        ('FindLocalPeaks', 'for k in range(1, len(signal) - 1):'),
        ('FindLocalPeaks', 'sig_prev, sig_curr, sig_next = signal[k - 1:k + 2]'),
        ('FindLocalPeaks', 'if sig_curr > sig_prev and sig_curr > sig_next:\n                peakLoc.append(k)'),
        ('FindLocalPeaks', 'if sig_curr < sig_prev and sig_curr < sig_next:\n                peakLoc.append(k)'),
        ('SegmentByPeaks', 'for seg_start, seg_end in zip(np.insert(peaks, 0, 0), np.append(peaks, len(data))):'),
        ('SegmentByPeaks', 'if weights is not None and weights[seg_start:seg_end].sum() > 0:'),
        ('SegmentByPeaks', 'val = np.average(data[seg_start:seg_end], weights=weights[seg_start:seg_end])'),
        ('SegmentByPeaks', 'val = np.mean(data[seg_start:seg_end])'),
        ('SegmentByPeaks', 'segs[seg_start:seg_end] = val'),
        ('one_chrom', "'start': cnarr['start'].values.take(results['start']), 'end': cnarr['end'].values.take(results['end']), "
                      "'log2': results['mean'], 'gene': '-', 'probes': results['size']"),
        ('segment_haar', 'chrom_tables = [one_chrom(subprobes, fdr_q, chrom) for chrom, subprobes in cnarr.by_arm()]'),
        ('segment_haar', 'segarr = cnarr.as_dataframe(pd.concat(chrom_tables))'),
    ]:
        T.body_contains(H, fn, frag)
    return {'HaarDefaults': [
        ('haar_start_level', 'Z', T.default(H, 'haarSeg', 'haarStartLevel')),
        ('haar_end_level', 'Z', T.default(H, 'haarSeg', 'haarEndLevel')),
        ('haar_fdr_eps', 'Q', eps),
        ('haar_mad_scale', 'Q', mad),
        ('haar_default_q', 'Q', d['haar']),
    ]}
