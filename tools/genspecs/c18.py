"""C18: literals of skgenome/tabio/vcfio.py, cnvlib/vary.py, cnvlib/cmdutil.py, cnvlib/call.py
the VCF/BAF model depends on -> Gen/VcfDefaults.v."""
import ast

V = 'skgenome/tabio/vcfio.py'
Y = 'cnvlib/vary.py'
U = 'cnvlib/cmdutil.py'
C = 'cnvlib/call.py'


def _all_equal(T, rel, qual, expect_n):
    nums = T.numbers_in(rel, qual)
    if len(nums) != expect_n or len(set(nums)) != 1:
        raise T.Refuse('%s:%s: expected %d equal numeric literals, found %r' % (rel, qual, expect_n, nums))
    return nums[0]


def _fillna(T):
    """table.fillna({col: <v> for col in table.columns[<k>:]}) inside read_vcf -> (v, k)"""
    f = T.find_func(V, 'read_vcf')
    hits = []
    for n in ast.walk(f):
        if isinstance(n, ast.Call) and ast.unparse(n.func).endswith('.fillna') and n.args \
                and isinstance(n.args[0], ast.DictComp):
            dc = n.args[0]
            it = dc.generators[0].iter
            if isinstance(it, ast.Subscript) and isinstance(it.slice, ast.Slice) and it.slice.upper is None:
                hits.append((T.lit(dc.value, 'fill value'), T.lit(it.slice.lower, 'first filled column')))
    if len(hits) != 1:
        raise T.Refuse('%s:read_vcf: expected one fillna({col: v for col in table.columns[k:]}), found %d' % (V, len(hits)))
    return hits[0]


def _columns(T):
    cols = T.local(V, 'read_vcf', 'columns')
    return list(cols)


def specs(T):
    fill_v, fill_from = _fillna(T)
    cols = _columns(T)
    # numbers of _tumor_boost in source order: zeros_like has none; 0.5 * t / n ; 1 - 0.5 * (1 - t) / (1 - n)
    tb = T.numbers_in(Y, '_tumor_boost')
    tb = [x for x in tb if x not in (0,)]        # drop the [0] of np.nonzero(...)[0]
    if tb != [0.5, 1, 0.5, 1, 1]:
        raise T.Refuse('%s:_tumor_boost: unexpected numeric literals %r' % (Y, tb))
    zf = T.numbers_in(Y, 'VariantArray.zygosity_from_freq')
    if zf != [0.0, 1.0, 0.0, 1.0, 0.5, 1.0, 0.0]:
        raise T.Refuse('%s:zygosity_from_freq: unexpected numeric literals %r' % (Y, zf))
    het = T.numbers_in(Y, 'VariantArray.heterozygous')
    if het != [0.0, 1.0]:
        raise T.Refuse('%s:heterozygous: unexpected numeric literals %r' % (Y, het))
    T.body_contains(U, 'load_het_snps', "(varr['zygosity'] != 0.0) & (varr['n_zygosity'] == 0.0)")
    T.body_contains(U, 'load_het_snps', 'varr.zygosity_from_freq(zygosity_freq, 1 - zygosity_freq)')
    # the decision table of load_het_snps (Props C18_load_het_table): when the automatic zygosity_freq applies
    T.body_contains(U, 'load_het_snps',
                    "if zygosity_freq is None and 'n_zygosity' in varr and (not varr['n_zygosity'].any()):")
    # the default summary function of baf_by_ranges / the one of het_frac_by_ranges (Model/VBaf.v nanmedian_x, het_frac_value)
    if ast.unparse(T.default_node(Y, 'VariantArray.baf_by_ranges', 'summary_func')) != 'np.nanmedian':
        raise T.Refuse('%s:baf_by_ranges: the default summary_func is no longer np.nanmedian' % Y)
    T.body_contains(Y, 'VariantArray.het_frac_by_ranges', "cnarr.into_ranges(ranges, 'is_het', np.nan, np.nanmean)")
    return {'VcfDefaults': [
        # _extract_genotype: zygosity values, and the comparisons that choose them
        ('zyg_het', 'Q', T.local(V, '_extract_genotype', 'zygosity', 0)),
        ('zyg_ref', 'Q', T.local(V, '_extract_genotype', 'zygosity', 1)),
        ('zyg_hom', 'Q', T.local(V, '_extract_genotype', 'zygosity', 2)),
        ('gt_distinct_gt', 'Z', T.compare_with(V, '_extract_genotype', 'len(gts)', 'Gt')),
        ('gt_ref_allele', 'Z', T.compare_with(V, '_extract_genotype', 'gts.pop()', 'Eq')),
        ('ad_alt_index', 'Z', T.compare_with(V, '_get_alt_count', "len(sample['AD'])", 'Gt')),
        ('non_ref_alt', 'string', T.compare_with(V, '_parse_records', 'alt', 'Eq')),
        ('fill_value', 'Q', fill_v),
        ('fill_from_column', 'Z', fill_from),
        ('vcf_columns', 'list string', cols),
        ('pass_filters', 'list string', sorted(T.lit(
            [n for n in ast.walk(T.find_func(V, '_parse_records')) if isinstance(n, ast.Set)][0], 'PASS set'))),
        # load_het_snps
        ('min_variant_depth', 'Z', T.default(U, 'load_het_snps', 'min_variant_depth')),
        ('het_skip_somatic', 'bool', T.call_kw(U, 'load_het_snps', 'tabio.read', 'skip_somatic')),
        ('fallback_zygosity_freq', 'Q', T.local(U, 'load_het_snps', 'zygosity_freq', 0)),
        # vary.py
        ('zfreq_het_default', 'Q', T.default(Y, 'VariantArray.zygosity_from_freq', 'het_freq')),
        ('zfreq_hom_default', 'Q', T.default(Y, 'VariantArray.zygosity_from_freq', 'hom_freq')),
        ('zfreq_mid', 'Q', zf[4]),
        ('zfreq_hom', 'Q', zf[5]),
        ('zfreq_ref', 'Q', zf[6]),
        ('het_excl_lo', 'Q', het[0]),
        ('het_excl_hi', 'Q', het[1]),
        ('mirror_center', 'Q', _all_equal(T, Y, '_mirrored_baf', 4)),
        ('boost_half', 'Q', tb[0]),
        ('boost_one', 'Q', tb[1]),
        # call.py
        ('normal_baf', 'Q', T.default(C, 'rescale_baf', 'normal_baf')),
    ]}
