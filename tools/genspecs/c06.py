"""skgenome interval arithmetic -> Gen/IvDefaults.v (property C06): the default
arguments and in-body literals the interval models depend on."""


def specs(T):
    M = 'skgenome/merge.py'
    G = 'skgenome/gary.py'
    S = 'skgenome/subdivide.py'
    C = 'skgenome/combiners.py'
    limits = T.local(G, 'GenomicArray.resize_ranges', 'limits')
    if not isinstance(limits, dict) or list(limits) != ['lower']:
        raise T.Refuse('%s: resize_ranges: limits is no longer {"lower": <n>}: %r' % (G, limits))
    return {'IvDefaults': [
        # merge(table, bp=0, ...): the default used by GenomicArray.merge() and by subdivide's merge(regions)
        ('merge_bp_default', 'Z', T.default(M, 'merge', 'bp')),
        ('ga_merge_bp_default', 'Z', T.default(G, 'GenomicArray.merge', 'bp')),
        # _flatten_overlapping: _nonoverlapping_groups(table, 0) (both branches)
        ('flatten_group_bp', 'Z', T.call_arg(M, '_flatten_overlapping', '_nonoverlapping_groups', 1, nth=1)),
        ('flatten_split_group_bp', 'Z', T.call_arg(M, '_flatten_overlapping', '_nonoverlapping_groups', 1, nth=0)),
        # total_range_size: merge(self.data, bp=1)
        ('total_size_bp', 'Z', T.call_kw(G, 'GenomicArray.total_range_size', 'merge', 'bp')),
        # resize_ranges: limits = {"lower": 0}
        ('resize_lower', 'Z', limits['lower']),
        # subdivide(table, avg_size, min_size=0)
        ('subdivide_min_default', 'Z', T.default(S, 'subdivide', 'min_size')),
        ('ga_subdivide_min_default', 'Z', T.default(G, 'GenomicArray.subdivide', 'min_size')),
        # join_strings(elems, sep=",")
        ('join_sep', 'string', T.default(C, 'join_strings', 'sep')),
    ]}
