"""skgenome interval arithmetic -> Gen/IvDefaults.v (property C06): the default
arguments and in-body literals the interval models depend on, and (Gen/IvCombiners.v) the
table of default column combiners of skgenome/combiners.py: get_combiners' `cmb` dictionary
(column name -> name of the combining function), the rule for the strand column, the
string merge_strands returns for mixed strands, and the literals the genome-level model
reads off merge()/flatten() (sort columns, groupby key, kind of the final chromosome sort)."""
import ast


def _combiner_table(T, C):
    """get_combiners: cmb = {"col": <function name>, ...} as [(col, function name)], plus the
    strand rule `cmb["strand"] = A if stranded else B` as (A, B)."""
    f = T.find_func(C, 'get_combiners')
    table = None
    strand = None
    for n in ast.walk(f):
        if isinstance(n, ast.Assign) and len(n.targets) == 1:
            t = n.targets[0]
            if isinstance(t, ast.Name) and t.id == 'cmb' and isinstance(n.value, ast.Dict):
                if table is not None:
                    raise T.Refuse('%s: get_combiners assigns cmb twice' % C)
                table = []
                for k, v in zip(n.value.keys, n.value.values):
                    if not (isinstance(k, ast.Constant) and isinstance(k.value, str) and isinstance(v, ast.Name)):
                        raise T.Refuse('%s: get_combiners: cmb entry is not "name": function' % C)
                    table.append((k.value, v.id))
            if (isinstance(t, ast.Subscript) and isinstance(t.value, ast.Name) and t.value.id == 'cmb'
                    and isinstance(t.slice, ast.Constant)):
                v = n.value
                if not (t.slice.value == 'strand' and isinstance(v, ast.IfExp) and isinstance(v.test, ast.Name)
                        and v.test.id == 'stranded' and isinstance(v.body, ast.Name) and isinstance(v.orelse, ast.Name)):
                    raise T.Refuse('%s: get_combiners: unexpected assignment %s' % (C, ast.unparse(n)))
                strand = (v.body.id, v.orelse.id)
    if table is None or strand is None:
        raise T.Refuse('%s: get_combiners: cmb table / strand rule not found' % C)
    return table, strand


def _mixed_strand(T, C):
    """merge_strands: the string literal returned for more than one distinct strand"""
    f = T.find_func(C, 'merge_strands')
    lits = [n.value.value for n in ast.walk(f)
            if isinstance(n, ast.Return) and isinstance(n.value, ast.Constant) and isinstance(n.value.value, str)]
    if len(lits) != 1:
        raise T.Refuse('%s: merge_strands: expected exactly one string literal result, found %r' % (C, lits))
    return lits[0]


def specs(T):
    M = 'skgenome/merge.py'
    G = 'skgenome/gary.py'
    S = 'skgenome/subdivide.py'
    C = 'skgenome/combiners.py'
    U = 'skgenome/subtract.py'
    limits = T.local(G, 'GenomicArray.resize_ranges', 'limits')
    if not isinstance(limits, dict) or list(limits) != ['lower']:
        raise T.Refuse('%s: resize_ranges: limits is no longer {"lower": <n>}: %r' % (G, limits))
    table, strand = _combiner_table(T, C)
    # structural anchors of the genome-level model (fail-closed)
    T.body_contains(C, 'get_combiners', 'if combine:')
    T.body_contains(C, 'get_combiners', "if 'strand' not in cmb:")
    T.body_contains(C, 'get_combiners', 'return {k: v for k, v in cmb.items() if k in table.columns}')
    T.body_contains(C, 'merge_strands', 'strands = set(elems)')
    T.body_contains(C, 'merge_strands', 'if len(strands) > 1:')
    T.body_contains(C, 'merge_strands', 'return elems[0]')
    T.body_contains(C, 'join_strings', 'return sep.join(pd.unique(pd.Series(elems)))')
    T.body_contains(C, 'last_of', 'elems.iloc[-1]')
    T.body_contains(C, 'first_of', 'elems.iloc[0]')
    T.body_contains(M, 'merge', 'if (gap_sizes > -bp).all():')
    T.body_contains(M, 'merge', "groupkey = ['chromosome']")
    T.body_contains(M, 'merge', "table = table.sort_values(groupkey + ['start', 'end'])")
    T.body_contains(M, 'merge', "table.groupby(by=groupkey, as_index=False, group_keys=False, sort=False)")
    T.body_contains(M, 'merge', "out.chromosome.apply(sorter_chrom).sort_values(kind='mergesort').index")
    T.body_contains(M, 'flatten', 'if (table.start.values[1:] >= table.end.cummax().values[:-1]).all():')
    T.body_contains(M, 'flatten', "table = table.sort_values(['chromosome', 'start', 'end'])")
    T.body_contains(M, 'flatten', "table.groupby(by='chromosome', as_index=False, group_keys=False, sort=False)")
    T.body_contains(M, 'flatten', "out.chromosome.apply(sorter_chrom).sort_values(kind='mergesort').index")
    T.body_contains(M, '_squash_tuples', 'if len(rows) == 1:')
    T.body_contains(M, '_flatten_tuples', 'if len(rows) == 1:')
    T.body_contains(M, '_flatten_tuples', 'extra_cols = [x for x in first_row._fields[3:] if x in combine]')
    T.body_contains(M, '_flatten_tuples', 'row for row in rows if row.start <= bp_start and row.end >= bp_end')
    T.body_contains(U, 'subtract', 'if not len(other):')
    T.body_contains(U, '_subtraction', "by_ranges(other, table, 'outer', True)")
    T.body_contains(G, 'GenomicArray.resize_ranges', 'if chrom_sizes:')
    T.body_contains(G, 'GenomicArray.resize_ranges', "limits['upper'] = self.chromosome.map(chrom_sizes)")
    T.body_contains(G, 'GenomicArray.total_range_size', 'if not len(self):')
    return {'IvDefaults': [
        # merge(table, bp=0, ...): the default used by GenomicArray.merge() and by subdivide's merge(regions)
        ('merge_bp_default', 'Z', T.default(M, 'merge', 'bp')),
        ('ga_merge_bp_default', 'Z', T.default(G, 'GenomicArray.merge', 'bp')),
        # _flatten_overlapping: _nonoverlapping_groups(table, 0) (both branches)
        ('flatten_group_bp', 'Z', T.call_arg(M, '_flatten_overlapping', '_nonoverlapping_groups', 1, nth=1)),
        ('flatten_split_group_bp', 'Z', T.call_arg(M, '_flatten_overlapping', '_nonoverlapping_groups', 1, nth=0)),
        # total_range_size: merge(self.data, bp=1)
        ('total_size_bp', 'Z', T.call_kw(G, 'GenomicArray.total_range_size', 'merge', 'bp')),
        # resize_ranges: limits = {"lower": 0}
        ('resize_lower', 'Z', limits['lower']),
        # subdivide(table, avg_size, min_size=0)
        ('subdivide_min_default', 'Z', T.default(S, 'subdivide', 'min_size')),
        ('ga_subdivide_min_default', 'Z', T.default(G, 'GenomicArray.subdivide', 'min_size')),
        # join_strings(elems, sep=",")
        ('join_sep', 'string', T.default(C, 'join_strings', 'sep')),
    ], 'IvCombiners': [
        # get_combiners: cmb = {...}
        ('combiner_table', 'list (string * string)', [list(x) for x in table]),
        # cmb["strand"] = first_of if stranded else merge_strands
        ('strand_combiner_stranded', 'string', strand[0]),
        ('strand_combiner_unstranded', 'string', strand[1]),
        # merge_strands: the result for mixed strands
        ('mixed_strand', 'string', _mixed_strand(T, C)),
        # merge(table, bp=0, stranded=False, ...)
        ('merge_stranded_default', 'bool', T.default(M, 'merge', 'stranded')),
        ('ga_merge_stranded_default', 'bool', T.default(G, 'GenomicArray.merge', 'stranded')),
        # flatten: get_combiners(table, False, combine)
        ('flatten_stranded', 'bool', T.call_arg(M, 'flatten', 'get_combiners', 1)),
    ]}
