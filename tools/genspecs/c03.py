"""skgenome/gary.py by_arm, cnvlib/segmentation/__init__.py, cnvlib/cnary.py drop_low_coverage,
cnvlib/segmetrics.py segment_mean, cnvlib/segfilters.py squash_region, cnvlib/segmentation/none.py
-> Gen/SegDefaults.v  (constants, defaults and the source fragments Model/Arms.v and Model/Segment.v mirror)"""
import re
from fractions import Fraction


def specs(T):
    G = 'skgenome/gary.py'
    S = 'cnvlib/segmentation/__init__.py'
    # --- by_arm: window, first-maximum candidate, size test
    src = T.func_source(G, 'GenomicArray.by_arm')
    m = re.search(r'margin = max\(min_arm_bins, int\(round\(([0-9.eE+-]+) \* len\(subtable\)\)\)\)', src)
    if not m:
        raise T.Refuse('by_arm: margin = max(min_arm_bins, int(round(<frac> * len(subtable)))) not found')
    frac = Fraction(m.group(1))          # the decimal literal as written (0.1 -> 1/10)
    T.body_contains(G, 'GenomicArray.by_arm', 'if len(subtable) > 2 * margin + 1:')
    T.body_contains(G, 'GenomicArray.by_arm',
                    'gaps = subtable.start.values[margin + 1:-margin] - subtable.end.values[margin:-margin - 1]')
    T.body_contains(G, 'GenomicArray.by_arm', 'cmere_idx = gaps.argmax() + margin + 1')
    T.body_contains(G, 'GenomicArray.by_arm', 'cmere_size = gaps[cmere_idx - margin - 1]')
    T.body_contains(G, 'GenomicArray.by_arm', 'if cmere_idx and cmere_size >= min_gap_size:')
    T.body_contains(G, 'GenomicArray.by_arm', 'p_arm = subtable.index[:cmere_idx]')
    T.body_contains(G, 'GenomicArray.by_arm', 'q_arm = subtable.index[cmere_idx:]')
    # --- which methods run per arm / on the whole table
    T.body_contains(S, 'do_segmentation', "if method == 'flasso' or method.startswith('hmm'):")
    T.body_contains(S, 'do_segmentation', 'for _, ca in cnarr.by_arm()')
    # --- the three filters, in this order
    T.body_contains(S, '_do_segmentation', 'filtered_cn = filtered_cn.drop_low_coverage(verbose=False)')
    T.body_contains(S, '_do_segmentation', "weight_too_low = (filtered_cn['weight'] < min_weight) | filtered_cn['weight'].isna()")
    T.body_contains(S, '_do_segmentation', "weight_too_low = (filtered_cn['weight'] == 0) | filtered_cn['weight'].isna()")
    T.body_contains(S, '_do_segmentation', 'segarr = transfer_fields(segarr, cnarr)')
    C = 'cnvlib/cnary.py'
    T.body_contains(C, 'CopyNumArray.drop_low_coverage', 'min_cvg = params.NULL_LOG2_COVERAGE - params.MIN_REF_COVERAGE')
    T.body_contains(C, 'CopyNumArray.drop_low_coverage', "drop_idx = self.data['log2'] < min_cvg")
    T.body_contains(C, 'CopyNumArray.drop_low_coverage', "drop_idx |= self.data['depth'] == 0")
    # --- transfer_fields: stretch, aggregation source, ignore list
    T.body_contains(S, 'transfer_fields', "if segments.chromosome.iat[0] == bins_chrom:\n        "
                    "segments.data.iloc[0, segments.data.columns.get_loc('start')] = bins_start")
    T.body_contains(S, 'transfer_fields', "if segments.chromosome.iat[-1] == cnarr.chromosome.iat[-1]:\n        "
                    "segments.data.iloc[-1, segments.data.columns.get_loc('end')] = bins_end")
    T.body_contains(S, 'transfer_fields', 'bins_start = cnarr.start.iat[0]')
    T.body_contains(S, 'transfer_fields', 'bins_end = cnarr.end.iat[-1]')
    T.body_contains(S, 'transfer_fields', 'ignore = tuple(ignore) + params.ANTITARGET_ALIASES')
    T.body_contains(S, 'transfer_fields', 'for i, bin_idx in enumerate(iter_slices(cdata, segments.data, ')
    T.body_contains(S, 'transfer_fields', 'if seg_wt > 0:')
    if 'ignore=params.IGNORE_GENE_NAMES' not in T.func_source(S, 'transfer_fields'):
        raise T.Refuse('transfer_fields: default ignore is not params.IGNORE_GENE_NAMES')
    # --- one-segment summary and run squashing
    T.body_contains('cnvlib/segmetrics.py', 'segment_mean', "if 'weight' in cnarr and cnarr['weight'].any():")
    T.body_contains('cnvlib/segfilters.py', 'squash_region', 'if region_weight > 0:')
    T.body_contains('cnvlib/segmentation/none.py', 'segment_none', 'segment_mean(cnarr)')
    # --- haar: table assembly from the haarSeg result, haar's own arm split
    H = 'cnvlib/segmentation/haar.py'
    T.body_contains(H, 'segment_haar', 'chrom_tables = [one_chrom(subprobes, fdr_q, chrom) for chrom, subprobes in cnarr.by_arm()]')
    T.body_contains(H, 'segment_haar', 'segarr = cnarr.as_dataframe(pd.concat(chrom_tables))')
    T.body_contains(H, 'one_chrom', "results = haarSeg(cnarr.smooth_log2(), fdr_q, W=cnarr['weight'].values if 'weight' in cnarr else None)")
    T.body_contains(H, 'one_chrom', "'start': cnarr['start'].values.take(results['start']), 'end': cnarr['end'].values.take(results['end']), "
                                    "'log2': results['mean'], 'gene': '-', 'probes': results['size']")
    T.body_contains(S, 'do_segmentation', "threshold = {'cbs': 0.0001, 'flasso': 0.0001, 'haar': 0.0001}.get(method)")
    # --- the variants= path of the non-HMM methods
    M = 'cnvlib/segmentation/hmm.py'
    T.body_contains(S, '_do_segmentation', "if variants and (not method.startswith('hmm')):")
    T.body_contains(S, '_do_segmentation', 'newsegs = [hmm.variants_in_segment(subvarr, segment) for segment, subvarr in variants.by_ranges(segarr)]')
    T.body_contains(S, '_do_segmentation', 'segarr = segarr.as_dataframe(pd.concat(newsegs))')
    T.body_contains(S, '_do_segmentation', "segarr['baf'] = variants.baf_by_ranges(segarr).values")
    T.body_contains(M, 'variants_in_segment', 'if len(varr) > min_variants:')
    T.body_contains(M, 'variants_in_segment', 'results = squash_by_groups(fake_cnarr, varr.as_series(states), by_arm=False)')
    T.body_contains(M, 'variants_in_segment', 'if results is not None and len(results) > 1:')
    T.body_contains(M, 'variants_in_segment', 'starts = np.concatenate([[segment.start], mid_breakpoints])')
    T.body_contains(M, 'variants_in_segment', 'ends = np.concatenate([mid_breakpoints, [segment.end]])')
    T.body_contains(M, 'variants_in_segment', "'log2': segment.log2, 'probes': results['probes']})")
    T.body_contains(M, 'variants_in_segment', 'bad_segs_idx = dframe.start >= dframe.end')
    T.body_contains(M, 'variants_in_segment', "'log2': segment.log2, 'probes': segment.probes}, index=[0])")
    mm = re.search(r'mid_breakpoints = \(results\.start\.values\[1:\] \+ results\.end\.values\[:-1\]\) // ([0-9]+)\n',
                   T.func_source(M, 'variants_in_segment'))
    if not mm:
        raise T.Refuse('variants_in_segment: mid_breakpoints = (results.start.values[1:] + results.end.values[:-1]) // <k> not found')
    # --- the pool and the final table
    T.body_contains(S, 'do_segmentation', 'with parallel.pick_pool(processes) as pool:')
    T.body_contains(S, 'do_segmentation', 'rets = list(pool.map(_ds, (')
    T.body_contains(S, 'do_segmentation', 'cna = cnarr.concat(rets)')
    T.body_contains(G, 'GenomicArray.concat', 'table = pd.concat([otr.data for otr in others], ignore_index=True)')
    T.body_contains(G, 'GenomicArray.concat', 'result.sort()')
    T.body_contains(G, 'GenomicArray.sort', "sort_values(by=['_sort_key_', 'start', 'end'], kind='mergesort')")
    return {'SegDefaults': [
        ('vseg_min_variants', 'Z', T.default(M, 'variants_in_segment', 'min_variants')),
        ('vseg_mid_divisor', 'Z', int(mm.group(1))),
        ('by_arm_min_gap_size', 'Z', T.default(G, 'GenomicArray.by_arm', 'min_gap_size')),
        ('by_arm_min_arm_bins', 'Z', T.default(G, 'GenomicArray.by_arm', 'min_arm_bins')),
        ('by_arm_frac', 'Z * Z', (frac.numerator, frac.denominator)),
        ('outlier_width', 'Z', T.call_arg(S, '_do_segmentation', 'drop_outliers', 1)),
        ('skip_low_default', 'bool', T.default(S, 'do_segmentation', 'skip_low')),
        ('skip_outliers_default', 'Z', T.default(S, 'do_segmentation', 'skip_outliers')),
        ('min_weight_default', 'Z', T.default(S, 'do_segmentation', 'min_weight')),
        # transfer_fields: iter_slices(cdata, segments.data, <mode>, <keep_empty>)
        ('transfer_slices_mode', 'string', T.call_arg(S, 'transfer_fields', 'iter_slices', 2)),
        ('transfer_slices_keep_empty', 'bool', T.call_arg(S, 'transfer_fields', 'iter_slices', 3)),
    ]}
