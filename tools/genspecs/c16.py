"""C16: literals of by_gene / group_by_genes / do_genemetrics / do_breaks / shift_xx /
drop_low_coverage -> Gen/GenesDefaults.v (the gene-name lists themselves come from Gen/Params.v)."""
import ast


def specs(T):
    C = 'cnvlib/cnary.py'
    R = 'cnvlib/reports.py'
    # by_gene's default ignore list is params.IGNORE_GENE_NAMES and it always adds the Antitarget aliases
    d = ast.unparse(T.default_node(C, 'CopyNumArray.by_gene', 'ignore'))
    if d != 'params.IGNORE_GENE_NAMES':
        raise T.Refuse('by_gene: default ignore is %s, expected params.IGNORE_GENE_NAMES' % d)
    d = ast.unparse(T.default_node(C, 'CopyNumArray.squash_genes', 'ignore'))
    if d != 'params.IGNORE_GENE_NAMES':
        raise T.Refuse('squash_genes: default ignore is %s, expected params.IGNORE_GENE_NAMES' % d)
    d = ast.unparse(T.default_node(R, 'get_gene_intervals', 'ignore'))
    if d != 'params.IGNORE_GENE_NAMES':
        raise T.Refuse('get_gene_intervals: default ignore is %s, expected params.IGNORE_GENE_NAMES' % d)
    T.body_contains(C, 'CopyNumArray.by_gene', 'ignore = tuple(ignore) + params.ANTITARGET_ALIASES')
    T.body_contains(R, 'get_gene_intervals', 'ignore = tuple(ignore) + params.ANTITARGET_ALIASES')
    # group_by_genes skips the empty name, NaN and the Antitarget aliases
    T.body_contains(R, 'group_by_genes', "ignore = ('', np.nan) + params.ANTITARGET_ALIASES")
    # shift_xx: -= 1.0 for a female sample on a haploid-X reference, += 1.0 for a male sample on a diploid one
    T.body_contains(C, 'CopyNumArray.shift_xx', "'log2'] -= 1.0")
    T.body_contains(C, 'CopyNumArray.shift_xx', "'log2'] += 1.0")
    nums = T.numbers_in(C, 'CopyNumArray.shift_xx')
    if nums != [1.0, 1.0]:
        raise T.Refuse('shift_xx: numeric literals are %r, expected [1.0, 1.0]' % (nums,))
    # drop_low_coverage: log2 < NULL_LOG2_COVERAGE - MIN_REF_COVERAGE or depth == 0
    T.body_contains(C, 'CopyNumArray.drop_low_coverage', 'min_cvg = params.NULL_LOG2_COVERAGE - params.MIN_REF_COVERAGE')
    T.body_contains(C, 'CopyNumArray.drop_low_coverage', "self.data['log2'] < min_cvg")
    # ---- literals and comparison sites of the report functions (the function-body translator does not cover their
    # loops; every decision the model takes on scalars is pinned to its source text here, fail-closed) ----
    S = 'cnvlib/segmetrics.py'

    def class_attr(rel, cls, name):
        node = T.find_func(rel, cls)
        hits = [n for n in node.body if isinstance(n, ast.Assign)
                and any(isinstance(t, ast.Name) and t.id == name for t in n.targets)]
        if len(hits) != 1:
            raise T.Refuse('%s:%s: expected one class attribute %s' % (rel, cls, name))
        return list(T.lit(hits[0].value, name))

    def tuple_in(rel, qual, kind, what):
        """the single literal tuple that is the iterable of a `for` (kind='for') / the right-hand side of a
        `not in` comparison (kind='notin') inside function qual"""
        f = T.find_func(rel, qual)
        hits = []
        for n in ast.walk(f):
            if kind == 'for' and isinstance(n, ast.For) and isinstance(n.iter, ast.Tuple):
                hits.append(n.iter)
            if kind == 'notin' and isinstance(n, ast.Compare) and len(n.ops) == 1 and isinstance(n.ops[0], ast.NotIn) \
                    and isinstance(n.comparators[0], ast.Tuple):
                hits.append(n.comparators[0])
        if len(hits) != 1:
            raise T.Refuse('%s:%s: expected one literal tuple (%s), found %d' % (rel, qual, what, len(hits)))
        return list(T.lit(hits[0], what))

    required = class_attr(C, 'CopyNumArray', '_required_columns')
    extra_excl = tuple_in(R, 'gene_metrics_by_segment', 'notin', 'columns never copied from the segment')
    xfields = tuple_in(C, 'CopyNumArray.squash_genes', 'for', 'extra fields of squash_rows')
    bcols = T.call_kw(R, 'do_breaks', 'from_records', 'columns')
    for fn, frag in [
        # by_gene: positional, end-exclusive slices per chromosome
        ('CopyNumArray.by_gene', 'start_idx = gene_idx[0]'), ('CopyNumArray.by_gene', 'end_idx = gene_idx[-1] + 1'),
        ('CopyNumArray.by_gene', 'if prev_idx < start_idx:'), ('CopyNumArray.by_gene', 'subgary.data.iloc[prev_idx:start_idx]'),
        ('CopyNumArray.by_gene', 'subgary.data.iloc[start_idx:end_idx]'), ('CopyNumArray.by_gene', 'prev_idx = end_idx'),
        ('CopyNumArray.by_gene', 'if prev_idx < len(subgary):'), ('CopyNumArray.by_gene', 'subgary.data.iloc[prev_idx:]'),
        ('CopyNumArray.by_gene', 'if gene not in ignore:'), ('CopyNumArray.by_gene', 'subgary.data.reset_index(drop=True)'),
        # squash_genes
        ('CopyNumArray.squash_genes', 'if len(rows) == 1:'), ('CopyNumArray.squash_genes', 'return tuple(rows.iloc[0])'),
        ('CopyNumArray.squash_genes', 'start = rows.start.iat[0]'), ('CopyNumArray.squash_genes', 'end = rows.end.iat[-1]'),
        ('CopyNumArray.squash_genes', 'cvg = summary_func(rows.log2)'),
        ('CopyNumArray.squash_genes', 'outrow = [chrom, start, end, name, cvg]'),
        ('CopyNumArray.squash_genes', 'outrow.append(summary_func(rows[xfield]))'),
        ('CopyNumArray.squash_genes', "if 'probes' in self:"), ('CopyNumArray.squash_genes', "outrow.append(sum(rows['probes']))"),
        ('CopyNumArray.squash_genes', 'if name in params.ANTITARGET_ALIASES and (not squash_antitarget):'),
        ('CopyNumArray.squash_genes', 'outrows.extend(subarr.data.itertuples(index=False))'),
        ('CopyNumArray.squash_genes', 'outrows.append(squash_rows(name, subarr.data))'),
        ('CopyNumArray.squash_genes', 'return self.as_rows(outrows)'),
    ]:
        T.body_contains(C, fn, frag)
    d = ast.unparse(T.default_node(C, 'CopyNumArray.squash_genes', 'summary_func'))
    if d != 'descriptives.biweight_location':
        raise T.Refuse('squash_genes: default summary_func is %s' % d)
    for fn, frag in [
        ('do_genemetrics', 'if is_sample_female is None:'),
        ('do_genemetrics', 'is_sample_female = cnarr.guess_xx(is_haploid_x_reference=is_haploid_x_reference, diploid_parx_genome=diploid_parx_genome)'),
        ('do_genemetrics', 'cnarr = cnarr.shift_xx(is_haploid_x_reference, is_sample_female, diploid_parx_genome)'),
        ('do_genemetrics', 'if segments:'),
        ('do_genemetrics', 'segments = segments.shift_xx(is_haploid_x_reference, is_sample_female, diploid_parx_genome)'),
        ('do_genemetrics', 'rows = gene_metrics_by_segment(cnarr, segments, threshold, skip_low)'),
        ('do_genemetrics', 'rows = gene_metrics_by_gene(cnarr, threshold, skip_low)'),
        ('do_genemetrics', 'columns = rows[0].index if len(rows) else cnarr._required_columns'),
        ('do_genemetrics', "columns = ['gene'] + [col for col in columns if col != 'gene']"),
        ('do_genemetrics', 'pd.DataFrame.from_records(rows).reindex(columns=columns)'),
        ('do_genemetrics', 'if min_probes and len(table):'),
        ('do_genemetrics', "table.segment_probes if 'segment_probes' in table.columns else table.probes"),
        ('do_genemetrics', 'table = table[n_probes >= min_probes]'),
        ('gene_metrics_by_gene', 'for row in group_by_genes(cnarr, skip_low):'),
        ('gene_metrics_by_gene', 'if abs(row.log2) >= threshold and row.gene:'),
        ('gene_metrics_by_segment', 'if col not in cnarr.data.columns and col not in'),
        ('gene_metrics_by_segment', 'cnarr[colname] = np.nan'),
        ('gene_metrics_by_segment', 'subprobes in cnarr.by_ranges(segments):'),
        ('gene_metrics_by_segment', 'if abs(segment.log2) >= threshold:'),
        ('gene_metrics_by_segment', 'for row in group_by_genes(subprobes, skip_low):'),
        ('gene_metrics_by_segment', "row['log2'] = segment.log2"),
        ('gene_metrics_by_segment', "if hasattr(segment, 'weight'):"),
        ('gene_metrics_by_segment', "row['segment_weight'] = segment.weight"),
        ('gene_metrics_by_segment', "if hasattr(segment, 'probes'):"),
        ('gene_metrics_by_segment', "row['segment_probes'] = segment.probes"),
        ('gene_metrics_by_segment', 'row[colname] = getattr(segment, colname)'),
        ('group_by_genes', 'rows in cnarr.by_gene():'),
        ('group_by_genes', 'if not rows or gene in ignore:'),
        ('group_by_genes', 'segmean = segment_mean(rows, skip_low)'),
        ('group_by_genes', 'outrow = rows[0].copy()'),
        ('group_by_genes', "outrow['end'] = rows.end.iat[-1]"),
        ('group_by_genes', "outrow['gene'] = gene"),
        ('group_by_genes', "outrow['log2'] = segmean"),
        ('group_by_genes', "outrow['probes'] = len(rows)"),
        ('group_by_genes', "outrow['weight'] = rows['weight'].sum()"),
        ('group_by_genes', "outrow['depth'] = np.average(rows['depth'], weights=rows['weight'])"),
        # breaks
        ('do_breaks', 'intervals = get_gene_intervals(probes)'),
        ('do_breaks', 'bpoints = get_breakpoints(intervals, segments, min_probes)'),
        ('get_gene_intervals', 'gname = str(row.gene)'), ('get_gene_intervals', 'if gname not in ignore:'),
        ('get_gene_intervals', 'gene_probes[row.chromosome][gname].append(row)'),
        ('get_gene_intervals', 'starts = sorted((row.start for row in probes))'),
        ('get_gene_intervals', 'end = max((row.end for row in probes))'),
        ('get_gene_intervals', 'intervals[chrom].append((gene, starts, end))'),
        ('get_gene_intervals', 'intervals[chrom].sort(key=lambda gse: gse[1])'),
        ('get_breakpoints', 'curr_row in enumerate(segments[:-1]):'),
        ('get_breakpoints', 'next_row = segments[i + 1]'),
        ('get_breakpoints', 'if next_row.chromosome != curr_chrom:'),
        ('get_breakpoints', 'gend in intervals[curr_chrom]:'),
        ('get_breakpoints', 'if gstarts[0] < curr_end < gend:'),
        ('get_breakpoints', 'probes_left = sum((s < curr_end for s in gstarts))'),
        ('get_breakpoints', 'probes_right = sum((s >= curr_end for s in gstarts))'),
        ('get_breakpoints', 'if probes_left >= min_probes and probes_right >= min_probes:'),
        ('get_breakpoints', 'breakpoints.append((gname, curr_chrom, int(math.ceil(curr_end)), next_row.log2 - curr_row.log2, probes_left, probes_right))'),
        ('get_breakpoints', 'breakpoints.sort(key=lambda row: (min(row[4], row[5]), abs(row[3])), reverse=True)'),
    ]:
        T.body_contains(R, fn, frag)
    T.body_contains(S, 'segment_mean', 'if skip_low:')
    T.body_contains(S, 'segment_mean', 'cnarr = cnarr.drop_low_coverage()')
    return {'GenesDefaults': [
        ('CNA_REQUIRED_COLUMNS', 'list string', required),
        ('GM_EXTRA_EXCLUDED', 'list string', extra_excl),
        ('SQUASH_XFIELDS', 'list string', xfields),
        ('BREAKS_COLUMNS', 'list string', bcols),
        ('COL_GENE', 'string', 'gene'), ('COL_PROBES', 'string', 'probes'), ('COL_WEIGHT', 'string', 'weight'),
        ('COL_DEPTH', 'string', 'depth'), ('COL_LOG2', 'string', 'log2'), ('COL_END', 'string', 'end'),
        ('COL_SEGMENT_WEIGHT', 'string', 'segment_weight'), ('COL_SEGMENT_PROBES', 'string', 'segment_probes'),
        ('GROUP_IGNORE_LITERALS', 'list string', ['']),
        ('SHIFT_XX_FEMALE_HAPLOID', 'Q', -nums[0]),
        ('SHIFT_XX_MALE_DIPLOID', 'Q', nums[1]),
        ('DROP_LOW_DEPTH', 'Q', T.compare_with(C, 'CopyNumArray.drop_low_coverage', "self.data['depth']", 'Eq')),
        ('GENEMETRICS_THRESHOLD', 'Q', T.default(R, 'do_genemetrics', 'threshold')),
        ('GENEMETRICS_MIN_PROBES', 'Z', T.default(R, 'do_genemetrics', 'min_probes')),
        ('GENEMETRICS_SKIP_LOW', 'bool', T.default(R, 'do_genemetrics', 'skip_low')),
        ('BREAKS_MIN_PROBES', 'Z', T.default(R, 'do_breaks', 'min_probes')),
        ('SQUASH_ANTITARGET', 'bool', T.default(C, 'CopyNumArray.squash_genes', 'squash_antitarget')),
        ('GENE_SPLIT_SEP', 'string', T.call_arg('skgenome/gary.py', 'GenomicArray._get_gene_map', 'genestr.split', 0)),
    ]}
