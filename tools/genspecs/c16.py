"""C16: literals of by_gene / group_by_genes / do_genemetrics / do_breaks / shift_xx /
drop_low_coverage -> Gen/GenesDefaults.v (the gene-name lists themselves come from Gen/Params.v)."""
import ast


def specs(T):
    C = 'cnvlib/cnary.py'
    R = 'cnvlib/reports.py'
    # by_gene's default ignore list is params.IGNORE_GENE_NAMES and it always adds the Antitarget aliases
    d = ast.unparse(T.default_node(C, 'CopyNumArray.by_gene', 'ignore'))
    if d != 'params.IGNORE_GENE_NAMES':
        raise T.Refuse('by_gene: default ignore is %s, expected params.IGNORE_GENE_NAMES' % d)
    d = ast.unparse(T.default_node(C, 'CopyNumArray.squash_genes', 'ignore'))
    if d != 'params.IGNORE_GENE_NAMES':
        raise T.Refuse('squash_genes: default ignore is %s, expected params.IGNORE_GENE_NAMES' % d)
    d = ast.unparse(T.default_node(R, 'get_gene_intervals', 'ignore'))
    if d != 'params.IGNORE_GENE_NAMES':
        raise T.Refuse('get_gene_intervals: default ignore is %s, expected params.IGNORE_GENE_NAMES' % d)
    T.body_contains(C, 'CopyNumArray.by_gene', 'ignore = tuple(ignore) + params.ANTITARGET_ALIASES')
    T.body_contains(R, 'get_gene_intervals', 'ignore = tuple(ignore) + params.ANTITARGET_ALIASES')
    # group_by_genes skips the empty name, NaN and the Antitarget aliases
    T.body_contains(R, 'group_by_genes', "ignore = ('', np.nan) + params.ANTITARGET_ALIASES")
    # shift_xx: -= 1.0 for a female sample on a haploid-X reference, += 1.0 for a male sample on a diploid one
    T.body_contains(C, 'CopyNumArray.shift_xx', "'log2'] -= 1.0")
    T.body_contains(C, 'CopyNumArray.shift_xx', "'log2'] += 1.0")
    nums = T.numbers_in(C, 'CopyNumArray.shift_xx')
    if nums != [1.0, 1.0]:
        raise T.Refuse('shift_xx: numeric literals are %r, expected [1.0, 1.0]' % (nums,))
    # drop_low_coverage: log2 < NULL_LOG2_COVERAGE - MIN_REF_COVERAGE or depth == 0
    T.body_contains(C, 'CopyNumArray.drop_low_coverage', 'min_cvg = params.NULL_LOG2_COVERAGE - params.MIN_REF_COVERAGE')
    T.body_contains(C, 'CopyNumArray.drop_low_coverage', "self.data['log2'] < min_cvg")
    return {'GenesDefaults': [
        ('GROUP_IGNORE_LITERALS', 'list string', ['']),
        ('SHIFT_XX_FEMALE_HAPLOID', 'Q', -nums[0]),
        ('SHIFT_XX_MALE_DIPLOID', 'Q', nums[1]),
        ('DROP_LOW_DEPTH', 'Q', T.compare_with(C, 'CopyNumArray.drop_low_coverage', "self.data['depth']", 'Eq')),
        ('GENEMETRICS_THRESHOLD', 'Q', T.default(R, 'do_genemetrics', 'threshold')),
        ('GENEMETRICS_MIN_PROBES', 'Z', T.default(R, 'do_genemetrics', 'min_probes')),
        ('GENEMETRICS_SKIP_LOW', 'bool', T.default(R, 'do_genemetrics', 'skip_low')),
        ('BREAKS_MIN_PROBES', 'Z', T.default(R, 'do_breaks', 'min_probes')),
        ('SQUASH_ANTITARGET', 'bool', T.default(C, 'CopyNumArray.squash_genes', 'squash_antitarget')),
        ('GENE_SPLIT_SEP', 'string', T.call_arg('skgenome/gary.py', 'GenomicArray._get_gene_map', 'genestr.split', 0)),
    ]}
