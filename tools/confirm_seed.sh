#!/bin/bash
# usage: tools/confirm_seed.sh <candidate-dir with patch.diff demo.py meta.json> <ID> <name>
# Confirms a seeded change in a scratch worktree of /repo (never /repo itself): demo passes without the patch,
# fails with it, the 61 baseline tests still pass with it; then runs ./check <ID> (quick) against the patched
# worktree and stores everything under /verif/seeded/<name>/.
set -u
SRC=$(readlink -f "$1"); ID=$2; NAME=$3
V=$(cd "$(dirname "$0")/.." && pwd)   # the /verif tree (or a scratch worktree of it) whose check is run
W=/tmp/confirm-$$
OUT=/verif/seeded/$NAME
mkdir -p "$OUT"
git -C /repo worktree add -q --detach "$W" HEAD || exit 2
cp "$SRC/demo.py" "$W/_demo.py"
( cd "$W" && PYTHONPATH=$W PYTHONWARNINGS=ignore timeout 900 /venv/bin/python _demo.py > /tmp/confirm-$$-without.log 2>&1 ); RC0=$?
if ! git -C "$W" apply "$SRC/patch.diff"; then echo "PATCH DOES NOT APPLY"; git -C /repo worktree remove --force "$W"; exit 2; fi
( cd "$W" && PYTHONPATH=$W PYTHONWARNINGS=ignore timeout 900 /venv/bin/python _demo.py > /tmp/confirm-$$-with.log 2>&1 ); RC1=$?
rm -f "$W/_demo.py"
( cd "$W" && /venv/bin/python -m pytest -q -p no:cacheprovider --timeout=900 --continue-on-collection-errors --junitxml=/tmp/confirm-$$.xml > /tmp/confirm-$$-tests.log 2>&1 )
python3 - /tmp/confirm-$$.xml > /tmp/confirm-$$-suite.txt <<'PY'
import json, sys, xml.etree.ElementTree as ET
want = set(json.load(open('/root/.vp/BASELINE.json'))['stable_pass'])
got = set()
for tc in ET.parse(sys.argv[1]).getroot().iter('testcase'):
    if not any(ch.tag in ('failure', 'error', 'skipped') for ch in tc):
        got.add(tc.get('classname') + '::' + tc.get('name'))
print('%d/%d baseline tests pass with the patch' % (len(want & got), len(want)))
for m in sorted(want - got): print('NOT PASSING', m)
PY
cd "$V"
cp evidence/$ID.json /tmp/confirm-ev-$$.json 2>/dev/null
CNVKIT_REPO=$W PYTHONPATH=$W:$V/harness PYTHONHASHSEED=0 CNVKIT_VERIF=1 PYTHONWARNINGS=ignore OMP_NUM_THREADS=1 PYTHONDONTWRITEBYTECODE=1 \
  /venv/bin/python harness/main.py $ID --tier quick > /tmp/confirm-$$-check.log 2>&1
RCC=$?
git -C /repo worktree remove --force "$W"
/venv/bin/python tools/py2v_data.py > /dev/null 2>&1
mv /tmp/confirm-ev-$$.json evidence/$ID.json 2>/dev/null
cp "$SRC/patch.diff" "$SRC/demo.py" "$OUT/"
python3 - "$SRC/meta.json" "$OUT/meta.json" "$RC0" "$RC1" "$RCC" /tmp/confirm-$$-suite.txt /tmp/confirm-$$-check.log /tmp/confirm-$$-with.log /tmp/confirm-$$-without.log "$ID" <<'PY'
import json, sys, subprocess
src, dst, rc0, rc1, rcc, suite, chk, withlog, withoutlog, pid = sys.argv[1:]
m = json.load(open(src))
head = subprocess.check_output(['git', '-C', '/repo', 'rev-parse', '--short', 'HEAD']).decode().strip()
m['confirmed_by_me'] = {
    'repo_head': head,
    'demo_without_patch_exit': int(rc0), 'demo_without_patch_tail': open(withoutlog).read().strip().split('\n')[-1][:300],
    'demo_with_patch_exit': int(rc1), 'demo_with_patch_tail': open(withlog).read().strip().split('\n')[-1][:300],
    'baseline_suite_with_patch': open(suite).read().strip(),
    'check_cmd': './check %s --tier quick (run against a scratch worktree with the patch applied, via CNVKIT_REPO)' % pid,
    'check_exit': int(rcc),
    'check_output_tail': [l for l in open(chk).read().strip().split('\n')[-4:]],
    'caught': int(rcc) == 1,
}
json.dump(m, open(dst, 'w'), indent=1)
print(dst, 'demo without/with:', rc0, rc1, '|', open(suite).read().strip().split('\n')[0], '| check exit', rcc)
PY
rm -f /tmp/confirm-$$*
