#!/bin/bash
# Development aid (not used by any registered command): one-line mutation of a scratch copy of the sources, re-translation, rebuild of the given Proofs files.
# usage: tools/mut_fn.sh <file rel to repo> <sed expr> <Proofs file>...   (run from /verif; restores Gen afterwards)
rel=$1; expr=$2; shift 2
rm -rf /tmp/mutrepo; mkdir -p /tmp/mutrepo; cp -r /repo/cnvlib /repo/skgenome /tmp/mutrepo/
sed -i "$expr" /tmp/mutrepo/$rel
if cmp -s /tmp/mutrepo/$rel /repo/$rel; then echo "MUTATION DID NOT APPLY"; fi
CNVKIT_REPO=/tmp/mutrepo python3 tools/py2v_fn.py | grep -v "^function translator" | head -3
cd coq
for f in "$@"; do
  g=$(grep -o "Gen\.Fn[A-Za-z]*" theories/Proofs/$f.v | sort -u | sed 's/Gen\.//')
  for x in $g; do timeout 120 coqc -Q theories CNV theories/Gen/$x.v 2>&1 | head -3; done
  if timeout 300 coqc -Q theories CNV theories/Proofs/$f.v > /tmp/mut.out 2>&1; then echo "SURVIVED $f"; else echo "KILLED $f: $(grep -m1 -A0 Error /tmp/mut.out)"; fi
done
cd ..
python3 tools/py2v_fn.py > /dev/null
cd coq; for f in "$@"; do g=$(grep -o "Gen\.Fn[A-Za-z]*" theories/Proofs/$f.v | sort -u | sed 's/Gen\.//'); for x in $g; do coqc -Q theories CNV theories/Gen/$x.v; done; coqc -Q theories CNV theories/Proofs/$f.v; done
rm -rf /tmp/mutrepo
