#!/usr/bin/env python3
"""Systematic mutation campaign (development aid; not used by any registered command).

usage: tools/mutation_campaign.py <verif-clone> <out.jsonl> <n-per-property> <ID>...

For every property ID, draws n mutants (fixed seed) from the functions of the property's anchor files
(properties.jsonl -> anchors.files; only the functions the anchors mention by name; cnvlib/params.py and cnvlib/commands.py excluded), one small textual edit each:
  comparison operators (< <-> <=, > <-> >=, == <-> !=), + <-> -, `and` <-> `or`, small integer constants n -> n + 1,
  a negated `if` test.  With MUT_OPS=2: only name / attribute / literal swaps (min <-> max, any <-> all, .start <-> .end,
  True <-> False, 'outer' <-> 'inner', [-1] -> [0]).
Each mutant is written into a scratch worktree of /repo (never /repo itself) and the property's quick check of the
given /verif clone (a git worktree of /verif, already set up) is run against it through CNVKIT_REPO.  One JSON line per
mutant: file, line, operator, the edited source line before / after, the check's exit code, and how it was caught
('input' = a VIOLATION with a failing input, 'tie' = only `no-failing-input-found`, 'exception', 'survived').
Survivors are candidates for (a) equivalent mutants, (b) code outside the property, (c) a gap of the check."""
import ast, json, os, random, subprocess, sys, hashlib

CLONE, OUT, N = sys.argv[1], sys.argv[2], int(sys.argv[3])
IDS = sys.argv[4:]
REPO = '/repo'
SKIP_FILES = {'cnvlib/params.py', 'cnvlib/commands.py'}
props = {json.loads(l)['id']: json.loads(l) for l in open('/verif/properties.jsonl')}


OPS2 = os.environ.get('MUT_OPS') == '2'     # second operator set: name / attribute / literal swaps (min-max, any-all, start-end, True-False, ...)
ANCHORED = None      # names of the functions the property's anchors mention (set per property in main)


def sites_of(path, rel):
    src = open(path).read()
    lines = src.split('\n')
    tree = ast.parse(src)
    out = []

    def seg(a_line, a_col, b_line, b_col):
        if a_line != b_line:
            return None
        return lines[a_line - 1][a_col:b_col]

    for fn in ast.walk(tree):
        if not isinstance(fn, (ast.FunctionDef,)):
            continue
        if ANCHORED is not None and fn.name not in ANCHORED:
            continue
        for n in ast.walk(fn):
            if isinstance(n, ast.Compare) and len(n.ops) == 1:
                l, r = n.left, n.comparators[0]
                s = seg(l.end_lineno, l.end_col_offset, r.lineno, r.col_offset)
                swap = {ast.Lt: ('<', '<='), ast.LtE: ('<=', '<'), ast.Gt: ('>', '>='), ast.GtE: ('>=', '>'),
                        ast.Eq: ('==', '!='), ast.NotEq: ('!=', '==')}.get(type(n.ops[0]))
                if s is not None and swap and s.strip() == swap[0]:
                    if True:
                        out.append((fn.name, l.end_lineno, l.end_col_offset, r.col_offset, s.replace(swap[0], swap[1], 1), 'cmp %s->%s' % swap))
            elif isinstance(n, ast.BinOp) and isinstance(n.op, (ast.Add, ast.Sub)):
                l, r = n.left, n.right
                s = seg(l.end_lineno, l.end_col_offset, r.lineno, r.col_offset)
                a, b = ('+', '-') if isinstance(n.op, ast.Add) else ('-', '+')
                if s is not None and s.strip() == a:
                    out.append((fn.name, l.end_lineno, l.end_col_offset, r.col_offset, s.replace(a, b, 1), 'arith %s->%s' % (a, b)))
            elif isinstance(n, ast.BoolOp) and len(n.values) == 2:
                l, r = n.values
                s = seg(l.end_lineno, l.end_col_offset, r.lineno, r.col_offset)
                a, b = ('and', 'or') if isinstance(n.op, ast.And) else ('or', 'and')
                if s is not None and s.strip() == a:
                    out.append((fn.name, l.end_lineno, l.end_col_offset, r.col_offset, s.replace(a, b, 1), 'bool %s->%s' % (a, b)))
            elif isinstance(n, ast.Constant) and isinstance(n.value, int) and not isinstance(n.value, bool) and 0 <= n.value <= 9 \
                    and n.lineno == n.end_lineno:
                s = seg(n.lineno, n.col_offset, n.end_lineno, n.end_col_offset)
                if s == str(n.value):
                    out.append((fn.name, n.lineno, n.col_offset, n.end_col_offset, str(n.value + 1), 'const %d->%d' % (n.value, n.value + 1)))
            elif OPS2 and isinstance(n, ast.Name) and n.id in ('min', 'max', 'any', 'all') and n.lineno == n.end_lineno:
                swap = {'min': 'max', 'max': 'min', 'any': 'all', 'all': 'any'}[n.id]
                out.append((fn.name, n.lineno, n.col_offset, n.end_col_offset, swap, 'name %s->%s' % (n.id, swap)))
            elif OPS2 and isinstance(n, ast.Attribute) and n.attr in ('start', 'end', 'min', 'max', 'any', 'all', 'first', 'last') \
                    and n.lineno == n.end_lineno and isinstance(n.ctx, ast.Load):
                swap = {'start': 'end', 'end': 'start', 'min': 'max', 'max': 'min', 'any': 'all', 'all': 'any',
                        'first': 'last', 'last': 'first'}[n.attr]
                out.append((fn.name, n.lineno, n.end_col_offset - len(n.attr), n.end_col_offset, swap, 'attr %s->%s' % (n.attr, swap)))
            elif OPS2 and isinstance(n, ast.Constant) and isinstance(n.value, bool) and n.lineno == n.end_lineno:
                out.append((fn.name, n.lineno, n.col_offset, n.end_col_offset, str(not n.value), 'bool %s->%s' % (n.value, not n.value)))
            elif OPS2 and isinstance(n, ast.Constant) and isinstance(n.value, str) and n.value in ('start', 'end', 'outer', 'inner', 'left', 'right') \
                    and n.lineno == n.end_lineno:
                swap = {'start': 'end', 'end': 'start', 'outer': 'inner', 'inner': 'outer', 'left': 'right', 'right': 'left'}[n.value]
                q = lines[n.lineno - 1][n.col_offset]
                out.append((fn.name, n.lineno, n.col_offset, n.end_col_offset, q + swap + q, 'str %s->%s' % (n.value, swap)))
            elif OPS2 and isinstance(n, ast.UnaryOp) and isinstance(n.op, ast.USub) and isinstance(n.operand, ast.Constant) \
                    and n.operand.value == 1 and n.lineno == n.end_lineno:
                out.append((fn.name, n.lineno, n.col_offset, n.end_col_offset, '0', 'index -1->0'))
            elif isinstance(n, ast.If) and n.test.lineno == n.test.end_lineno and not isinstance(n.test, ast.UnaryOp):
                t = n.test
                s = seg(t.lineno, t.col_offset, t.end_lineno, t.end_col_offset)
                if s is not None:
                    out.append((fn.name, t.lineno, t.col_offset, t.end_col_offset, 'not (%s)' % s, 'if negated'))
    return lines, out


def main():
    W = '/tmp/mutcamp-%d' % os.getpid()
    subprocess.check_call(['git', '-C', REPO, 'worktree', 'add', '-q', '--detach', W, 'HEAD'])
    env = dict(os.environ, CNVKIT_REPO=W, PYTHONPATH='%s:%s/harness' % (W, CLONE), PYTHONHASHSEED='0', CNVKIT_VERIF='1',
               PYTHONWARNINGS='ignore', OMP_NUM_THREADS='1', PYTHONDONTWRITEBYTECODE='1')
    try:
        with open(OUT, 'a') as fh:
            for pid in IDS:
                rng = random.Random(int(hashlib.sha256(pid.encode()).hexdigest()[:8], 16))
                import re
                global ANCHORED
                ANCHORED = set(re.findall(r'[A-Za-z_][A-Za-z_0-9]*', json.dumps(props[pid]['anchors'])))
                allsites = []
                for rel in props[pid]['anchors']['files']:
                    if rel in SKIP_FILES or not os.path.exists(os.path.join(REPO, rel)):
                        continue
                    lines, sites = sites_of(os.path.join(REPO, rel), rel)
                    allsites += [(rel, s) for s in sites]
                if OPS2:
                    allsites = [x for x in allsites if x[1][5].split()[0] in ('name', 'attr', 'bool', 'str', 'index')]
                rng.shuffle(allsites)
                for rel, (fname, ln, c0, c1, new, op) in allsites[:N]:
                    path = os.path.join(W, rel)
                    lines = open(os.path.join(REPO, rel)).read().split('\n')
                    before = lines[ln - 1]
                    lines[ln - 1] = before[:c0] + new + before[c1:]
                    after = lines[ln - 1]
                    open(path, 'w').write('\n'.join(lines))
                    try:
                        compile('\n'.join(lines), rel, 'exec')
                    except SyntaxError:
                        subprocess.call(['git', '-C', W, 'checkout', '--', '.'])
                        continue
                    p = subprocess.run(['/venv/bin/python', 'harness/main.py', pid, '--tier', 'quick'], cwd=CLONE, env=env,
                                       capture_output=True, text=True, timeout=3000)
                    outp = p.stdout + p.stderr
                    viol = [l for l in outp.splitlines() if l.startswith('VIOLATION')]
                    if p.returncode == 0:
                        how = 'survived'
                    elif any(not l.rstrip().endswith('no-failing-input-found') for l in viol):
                        how = 'input'
                    elif viol:
                        how = 'tie'
                    else:
                        how = 'exception rc=%d' % p.returncode
                    rec = dict(property=pid, file=rel, function=fname, line=ln, op=op, before=before.strip(), after=after.strip(),
                               rc=p.returncode, how=how, tail=outp.strip().splitlines()[-1][:200] if outp.strip() else '')
                    fh.write(json.dumps(rec) + '\n')
                    fh.flush()
                    subprocess.call(['git', '-C', W, 'checkout', '--', '.'])
    finally:
        subprocess.call(['git', '-C', REPO, 'worktree', 'remove', '--force', W])
        subprocess.call(['/venv/bin/python', 'tools/py2v_data.py'], cwd=CLONE, stdout=subprocess.DEVNULL, stderr=subprocess.DEVNULL)


if __name__ == '__main__':
    main()
