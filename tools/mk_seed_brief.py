#!/usr/bin/env python3
"""usage: mk_seed_brief.py <ID>  -- creates /tmp/seed-<ID> (scratch worktree of /repo) and /tmp/seed-<ID>-out/BRIEF.md
The brief contains ONLY the property text and the rules; nothing from /verif."""
import json, os, subprocess, sys
pid = sys.argv[1]
rnd = sys.argv[2] if len(sys.argv) > 2 else ''
W, OUT = '/tmp/seed%s-%s' % (rnd, pid), '/tmp/seed%s-%s-out' % (rnd, pid)
if not os.path.isdir(W):
    subprocess.check_call(['git', '-C', '/repo', 'worktree', 'add', '-q', '--detach', W, 'HEAD'])
os.makedirs(OUT, exist_ok=True)
p = [json.loads(l) for l in open('/verif/properties.jsonl') if json.loads(l)['id'] == pid][0]
import glob
earlier = []
for mf in sorted(glob.glob('/verif/seeded/%s-m*/meta.json' % pid)):
    try:
        m = json.load(open(mf)); earlier.append('- %s (files: %s)' % (m.get('title', ''), ', '.join(m.get('files_touched', []))))
    except Exception:
        pass
known = [o['what'] for o in json.load(open('/verif/known_findings.json'))['open'] if o['property'] == pid]
KNOWN = ('\n\n## Behaviours of the current tree that are already known and must NOT be used as seeds\n\n' + '\n'.join('- ' + k for k in known) + '\n') if known else ''
EARLIER = ('\n\n## Ideas already used in an earlier round (do NOT repeat these or close variants; touch other functions / clauses)\n\n' + '\n'.join(earlier) + '\n') if (rnd and earlier) else ''
text = json.dumps({k: p[k] for k in ('id', 'title', 'statement', 'quantifier', 'why_tests_cant', 'anchors')}, indent=1)
open(OUT + '/BRIEF.md', 'w').write('''# Brief: seed realistic property-breaking changes into etal/cnvkit

You have your own scratch git worktree of the Python project etal/cnvkit at `%(W)s` (detached HEAD). Work ONLY there and in
`%(OUT)s`. Do not read, list or use anything under `/verif`, and do not touch `/repo` (the main checkout) at all.
Python: `/venv/bin/python` (has the project's dependencies; pandas 3 with copy-on-write, numpy 1.26). Run code against your
worktree with `cd %(W)s && PYTHONPATH=%(W)s /venv/bin/python …`. No network.

## The property (a semantic property users of cnvkit rely on; it currently HOLDS on this tree)

```json
%(text)s
```

%(EARLIER)s%(KNOWN)s
## What to produce

Up to **three** independent changes to the source of cnvkit (cnvlib/ or skgenome/), each of which
1. makes the property above FALSE for some inputs/configurations inside the property's quantifier (a real behavioural break of
   what the statement promises — not a crash on malformed input, not a change outside the statement's scope);
2. still imports/compiles, and the existing test suite still passes exactly as it does without the change:
   `cd %(W)s && /venv/bin/python -m pytest -q -p no:cacheprovider --timeout=900 --continue-on-collection-errors -rA 2>&1 | tail -80`
   (run it from the repository root; on the unmodified tree in this sandbox 64 tests pass and 6 fail for environment reasons —
   test_smooth_log2, test_autobin, test_batch, test_coverage, test_diploid_parx_genome, test_cbs; compare the per-test PASSED/FAILED
   list with and without your change: it must be identical; the run leaves an untracked test/chrM-Y-trunc.hg19.bed behind: delete it);
3. looks like something a developer could plausibly commit (a refactor, an "optimisation", a fast path, a tidy-up of a boundary
   condition, caching, vectorisation, a changed default), NOT an obviously sabotaged line;
4. **needs something specific to manifest**: a particular boundary value, an unusual but valid input shape (nesting, duplicates,
   abutting rows, a filtered/non-default index, a chromosome present in only one table, a rarely used option combination), a
   multi-step sequence, or two cooperating edits that each look fine alone. Changes that ordinary use would expose at once (every
   call wrong) are not wanted. Make the three changes different in kind and in the code path they touch.

For each change `mK` (K = 1, 2, 3) write into `%(OUT)s/mK/`:
* `patch.diff` — `git diff` of the change against the worktree's HEAD (applies with `git apply` at the repository root; source
  files only, no tests);
* `demo.py` — a small self-contained program (run from the repository root with `PYTHONPATH=<root> /venv/bin/python demo.py`)
  that checks the property on a few concrete inputs: it must exit 0 and print a last line starting with `PASS` on the unmodified
  tree, and exit 1 with a last line starting with `FAIL` when the patch is applied. It must test the PROPERTY (e.g. recompute the
  expected answer independently from the statement), not compare against the old code's output;
* `meta.json` — {"property": "%(pid)s", "title": …, "what_it_breaks": which clause and how, "needs_to_manifest": the specific
  condition, "files_touched": […], "test_suite": how you ran it and the outcome, "demo_with_patch": exit code + last line,
  "demo_without_patch": exit code + last line}.

Procedure per change: edit in the worktree → run demo (must FAIL) → run the test suite (same pass/fail list as unmodified) →
`git diff > …/patch.diff` → `git checkout -- .` → run demo again (must PASS). Leave the worktree clean (`git status` empty) at the
end; do not commit. If a candidate fails any of the requirements, drop it and try another; three good ones are better than five
doubtful ones, and one good one is better than none. Final message: for each kept change, one paragraph (what, where, what it
needs to manifest, demo/test outcomes).
''' % dict(W=W, OUT=OUT, text=text, pid=pid, EARLIER=EARLIER, KNOWN=KNOWN))
print(OUT + '/BRIEF.md')
