#!/bin/bash
# Runs the repository's pinned test suite with the verification guard OFF and
# compares the passing set with /root/.vp/BASELINE.json (stable_pass).
unset CNVKIT_VERIF
OUT=${1:-/verif/build/baseline.junit.xml}
mkdir -p "$(dirname "$OUT")"
cd /repo && /venv/bin/python -m pytest -ra -q -p no:cacheprovider --timeout=900 --continue-on-collection-errors --junitxml="$OUT" > "${OUT%.xml}.log" 2>&1
python3 - "$OUT" <<'PY'
import json, sys, xml.etree.ElementTree as ET
want = set(json.load(open('/root/.vp/BASELINE.json'))['stable_pass'])
got = set()
for tc in ET.parse(sys.argv[1]).getroot().iter('testcase'):
    if not any(ch.tag in ('failure', 'error', 'skipped') for ch in tc):
        got.add(tc.get('classname') + '::' + tc.get('name'))
missing = sorted(want - got)
print('baseline: %d/%d stable tests pass' % (len(want & got), len(want)))
for m in missing: print('  NOT PASSING:', m)
sys.exit(1 if missing else 0)
PY
