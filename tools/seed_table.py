#!/usr/bin/env python3
"""Print the DESIGN §9.3 table from seeded/*/meta.json."""
import json, glob, os
rows = []
for f in sorted(glob.glob(os.path.join(os.path.dirname(os.path.abspath(__file__)), '..', 'seeded', '*', 'meta.json'))):
    m = json.load(open(f)); name = os.path.basename(os.path.dirname(f))
    c = m.get('confirmed_by_me', {})
    tail = ' / '.join(c.get('check_output_tail', [])[-1:])[:160]
    rows.append('| %s %s | %s | %s |' % (name, m.get('title', '')[:150].replace('|', '/'), m.get('needs_to_manifest', '')[:220].replace('|', '/').replace('\n', ' '),
                                        ('caught (exit 1)' if c.get('caught') else 'NOT caught (exit %s)' % c.get('check_exit')) + ': ' + tail.replace('|', '/')))
print('| seeded change | needs | ./check quick against the patched tree |\n|---|---|---|')
print('\n'.join(rows))
