#!/bin/bash
# usage: tools/confirm_round.sh <clone> ID...   round-3 seeds /tmp/seedr3-<ID>-out/mK -> seeded/<ID>-m(K+6)  (development aid)
CLONE=$1; shift
for ID in "$@"; do
  for K in 1 2 3; do
    d=/tmp/seedr3-$ID-out/m$K
    [ -f $d/patch.diff ] || continue
    n=$ID-m$((K+6))
    echo "=== $n"
    $CLONE/tools/confirm_seed.sh $d $ID $n 2>&1 | tail -1
  done
done
echo R3-DONE
