#!/bin/bash
# usage: tools/confirm_round.sh <clone> <round> <offset> ID...   seeds /tmp/seedr<round>-<ID>-out/mK -> seeded/<ID>-m(K+offset)  (development aid)
CLONE=$1; RND=$2; OFF=$3; shift 3
for ID in "$@"; do
  for K in 1 2 3; do
    d=/tmp/seedr$RND-$ID-out/m$K
    [ -f $d/patch.diff ] || continue
    n=$ID-m$((K+OFF))
    echo "=== $n"
    $CLONE/tools/confirm_seed.sh $d $ID $n 2>&1 | tail -1
  done
done
echo R$RND-DONE
