#!/usr/bin/env python3
"""Validate MANIFEST.json and evidence/*.json against the schemas (run with python3-vt)."""
import json, sys, glob, jsonschema
ok = True
try:
    jsonschema.validate(json.load(open('/verif/MANIFEST.json')), json.load(open('/root/.vp/MANIFEST.schema.json')))
    print('MANIFEST ok')
except Exception as e:
    ok = False; print('MANIFEST INVALID:', str(e)[:300])
sch = json.load(open('/root/.vp/EVIDENCE.schema.json'))
for f in sorted(glob.glob('/verif/evidence/*.json')):
    try:
        jsonschema.validate(json.load(open(f)), sch); print(f, 'ok')
    except Exception as e:
        ok = False; print(f, 'INVALID:', str(e)[:300])
sys.exit(0 if ok else 1)
