#!/usr/bin/env python3
"""Data translator (fail-closed): regenerates coq/theories/Gen/*.v from /repo's
current source on every run.  Only *data* is translated -- module constants,
default arguments, in-body literals, regex source strings -- located through
the Python `ast`; if a locator no longer finds exactly what it expects the
translator exits non-zero (the tie is then reported as broken).

Specs live in tools/genspecs/*.py; each defines `specs(T)` returning
{ 'ModuleName': [(coq_name, coq_type, python_value), ...] }, where T is this
module (locator toolbox).  Output files are rewritten only when they change."""
import ast, os, sys, glob, importlib.util
from fractions import Fraction

HERE = os.path.dirname(os.path.abspath(__file__))
REPO = os.environ.get('CNVKIT_REPO', '/repo')
OUT = os.path.normpath(os.path.join(HERE, '..', 'coq', 'theories', 'Gen'))


class Refuse(Exception):
    pass


_cache = {}


def tree(rel):
    if rel not in _cache:
        path = os.path.join(REPO, rel)
        if not os.path.exists(path):
            raise Refuse('missing source file %s' % rel)
        _cache[rel] = ast.parse(open(path).read(), rel)
    return _cache[rel]


def lit(node, what=''):
    """literal value of an AST node (numbers, strings, tuples, lists, dicts, unary minus,
    simple arithmetic between numbers such as 6.0/9.0 is NOT folded: refuse)."""
    try:
        return ast.literal_eval(node)
    except Exception:
        raise Refuse('not a literal: %s (%s)' % (ast.dump(node)[:120], what))


def find_func(rel, qual):
    """qual: 'f' or 'Class.f' or 'outer.inner' (first definition of each name, searched depth-first)."""
    node = tree(rel)
    for part in qual.split('.'):
        found = None
        for ch in ast.walk(node):
            if ch is not node and isinstance(ch, (ast.FunctionDef, ast.ClassDef)) and ch.name == part:
                found = ch
                break
        if found is None:
            raise Refuse('%s: no definition %s' % (rel, qual))
        node = found
    return node


def const(rel, name):
    """module-level NAME = <literal>"""
    hits = [n for n in tree(rel).body if isinstance(n, ast.Assign)
            and any(isinstance(t, ast.Name) and t.id == name for t in n.targets)]
    if len(hits) != 1:
        raise Refuse('%s: expected exactly one module-level assignment to %s, found %d' % (rel, name, len(hits)))
    return lit(hits[0].value, name)


def const_expr(rel, name):
    hits = [n for n in tree(rel).body if isinstance(n, ast.Assign)
            and any(isinstance(t, ast.Name) and t.id == name for t in n.targets)]
    if len(hits) != 1:
        raise Refuse('%s: expected exactly one module-level assignment to %s, found %d' % (rel, name, len(hits)))
    return hits[0].value


def body_is(rel, name, expected_src):
    """module-level NAME = <expr> whose normalised source is exactly `expected_src`."""
    src = ast.unparse(const_expr(rel, name))
    if src != expected_src:
        raise Refuse('%s: %s = %s, expected %s' % (rel, name, src, expected_src))
    return True


def default(rel, qual, arg):
    f = find_func(rel, qual)
    a = f.args
    pos = a.posonlyargs + a.args
    defaults = [None] * (len(pos) - len(a.defaults)) + list(a.defaults)
    for p, d in zip(pos, defaults):
        if p.arg == arg:
            if d is None:
                raise Refuse('%s:%s: argument %s has no default' % (rel, qual, arg))
            return lit(d, arg)
    for p, d in zip(a.kwonlyargs, a.kw_defaults):
        if p.arg == arg:
            if d is None:
                raise Refuse('%s:%s: argument %s has no default' % (rel, qual, arg))
            return lit(d, arg)
    raise Refuse('%s:%s: no argument %s' % (rel, qual, arg))


def default_node(rel, qual, arg):
    f = find_func(rel, qual)
    a = f.args
    pos = a.posonlyargs + a.args
    defaults = [None] * (len(pos) - len(a.defaults)) + list(a.defaults)
    for p, d in zip(pos, defaults):
        if p.arg == arg and d is not None:
            return d
    raise Refuse('%s:%s: no default for %s' % (rel, qual, arg))


def local(rel, qual, var, nth=0):
    """literal assigned to `var` inside function `qual` (nth occurrence)."""
    f = find_func(rel, qual)
    hits = [n for n in ast.walk(f) if isinstance(n, ast.Assign)
            and any(isinstance(t, ast.Name) and t.id == var for t in n.targets)]
    if len(hits) <= nth:
        raise Refuse('%s:%s: no assignment #%d to %s' % (rel, qual, nth, var))
    return lit(hits[nth].value, var)


def compares(rel, qual):
    """all (lhs_src, op, literal) of comparisons against a literal inside function `qual`, in source order."""
    f = find_func(rel, qual)
    out = []
    for n in ast.walk(f):
        if isinstance(n, ast.Compare) and len(n.ops) == 1:
            try:
                v = ast.literal_eval(n.comparators[0])
            except Exception:
                continue
            out.append((n.lineno, n.col_offset, ast.unparse(n.left), type(n.ops[0]).__name__, v))
    out.sort()
    return [(l, o, v) for _, _, l, o, v in out]


def compare_with(rel, qual, lhs_contains, op):
    """the literal compared (with operator class name `op`, e.g. 'GtE') to an lhs whose source contains the given text;
    exactly one match required."""
    hits = [(l, o, v) for (l, o, v) in compares(rel, qual) if lhs_contains in l and o == op]
    if len(hits) != 1:
        raise Refuse('%s:%s: expected one comparison %s %s <literal>, found %r' % (rel, qual, lhs_contains, op, hits))
    return hits[0][2]


def numbers_in(rel, qual):
    """all numeric literals inside function `qual` in source order (for fingerprinting)."""
    f = find_func(rel, qual)
    out = []
    for n in ast.walk(f):
        if isinstance(n, ast.Constant) and isinstance(n.value, (int, float)) and not isinstance(n.value, bool):
            out.append((n.lineno, n.col_offset, n.value))
    out.sort()
    return [v for _, _, v in out]


def call_kw(rel, qual, callee_contains, kw):
    f = find_func(rel, qual)
    hits = []
    for n in ast.walk(f):
        if isinstance(n, ast.Call) and callee_contains in ast.unparse(n.func):
            for k in n.keywords:
                if k.arg == kw:
                    hits.append(lit(k.value, kw))
    if len(hits) != 1:
        raise Refuse('%s:%s: expected one call %s(..%s=..), found %d' % (rel, qual, callee_contains, kw, len(hits)))
    return hits[0]


def call_arg(rel, qual, callee_contains, idx, nth=0):
    f = find_func(rel, qual)
    hits = []
    for n in ast.walk(f):
        if isinstance(n, ast.Call) and callee_contains in ast.unparse(n.func) and len(n.args) > idx:
            hits.append((n.lineno, n.col_offset, n.args[idx]))
    hits.sort(key=lambda t: t[:2])
    if len(hits) <= nth:
        raise Refuse('%s:%s: no call #%d of %s with arg %d' % (rel, qual, nth, callee_contains, idx))
    return lit(hits[nth][2], callee_contains)


def regex_source(rel, name):
    """NAME = re.compile(<string literal>[, flags]) at module level -> (pattern, flags_src)."""
    e = const_expr(rel, name)
    if not (isinstance(e, ast.Call) and ast.unparse(e.func) in ('re.compile',)):
        raise Refuse('%s: %s is not re.compile(...)' % (rel, name))
    pat = lit(e.args[0], name)
    flags = ast.unparse(e.args[1]) if len(e.args) > 1 else ''
    for k in e.keywords:
        flags += ' %s=%s' % (k.arg, ast.unparse(k.value))
    return pat, flags


def func_source(rel, qual):
    return ast.unparse(find_func(rel, qual))


def body_contains(rel, qual, text):
    """the normalised (ast.unparse) source of function `qual` contains `text`; returns True or refuses."""
    src = func_source(rel, qual)
    if text not in src:
        raise Refuse('%s:%s: expected source fragment not found: %s' % (rel, qual, text))
    return True


# ---------------------------------------------------------------------------
# Coq emission


def qlit(x):
    f = Fraction(x)
    return '(%d # %d)' % (f.numerator, f.denominator) if f.numerator >= 0 else '(-%d # %d)' % (-f.numerator, f.denominator)


def zlit(x):
    if isinstance(x, bool) or not isinstance(x, int):
        if isinstance(x, float) and x == int(x):
            x = int(x)
        else:
            raise Refuse('not an integer: %r' % (x,))
    return '(%d)%%Z' % x


def slit(s):
    if not isinstance(s, str):
        raise Refuse('not a string: %r' % (s,))
    for ch in s:
        if ord(ch) < 32 or ord(ch) > 126:
            raise Refuse('non-printable character in string literal %r' % s)
    return '"%s"%%string' % s.replace('"', '""')


def emit(ty, v):
    if ty == 'Z':
        return zlit(v)
    if ty == 'Q':
        if isinstance(v, bool) or not isinstance(v, (int, float)):
            raise Refuse('not a number: %r' % (v,))
        return qlit(v)
    if ty == 'string':
        return slit(v)
    if ty == 'bool':
        if not isinstance(v, bool):
            raise Refuse('not a bool: %r' % (v,))
        return 'true' if v else 'false'
    if ty.startswith('list '):
        inner = ty[5:].strip()
        if inner.startswith('(') and inner.endswith(')'):
            inner = inner[1:-1]
        if not isinstance(v, (list, tuple)):
            raise Refuse('not a sequence: %r' % (v,))
        return '[' + '; '.join(emit(inner, x) for x in v) + ']'
    if '*' in ty:
        parts = [p.strip() for p in ty.split('*')]
        if not isinstance(v, (list, tuple)) or len(v) != len(parts):
            raise Refuse('not a %d-tuple: %r' % (len(parts), v))
        return '(' + ', '.join(emit(p, x) for p, x in zip(parts, v)) + ')'
    raise Refuse('unknown Coq type %s' % ty)


def main():
    os.makedirs(OUT, exist_ok=True)
    import json
    mods = {}
    errors = []
    # which spec file feeds which generated module (remembered from the last run in which the spec was
    # accepted): lets a refusal be attributed to the modules -- and hence the properties -- it concerns
    owners_path = os.path.join(OUT, '.owners.json')
    try:
        owners = json.load(open(owners_path))
    except Exception:
        owners = {}
    refused, stale, unknown = {}, set(), False
    for f in sorted(glob.glob(os.path.join(HERE, 'genspecs', '*.py'))):
        base = os.path.basename(f)
        spec = importlib.util.spec_from_file_location('genspec_' + base[:-3], f)
        m = importlib.util.module_from_spec(spec)
        try:
            spec.loader.exec_module(m)
            res = m.specs(sys.modules[__name__])
        except (Refuse, SyntaxError) as e:
            msg = '%s: %s' % (base, e) if isinstance(e, Refuse) else '%s: source does not parse: %s' % (base, e)
            errors.append(msg)
            refused[base] = str(e)
            mine = [mod for mod, gs in owners.items() if base in gs]
            if mine:
                stale.update(mine)
            else:
                unknown = True
            continue
        for mod, gs in owners.items():
            if base in gs and mod not in res:
                gs.remove(base)
        for mod, items in res.items():
            mods.setdefault(mod, []).extend(items)
            if base not in owners.setdefault(mod, []):
                owners[mod].append(base)
    for mod, items in mods.items():
        lines = ['(* GENERATED from %s by tools/py2v_data.py -- do not edit, never committed by hand. *)' % REPO,
                 'From Coq Require Import ZArith QArith String List.', 'Import ListNotations.', 'Open Scope Z_scope.', '']
        for name, ty, v in items:
            try:
                lines.append('Definition %s : %s := %s.' % (name, ty.replace('(', '(').replace('list (', 'list ('), emit(ty, v)))
            except Refuse as e:
                errors.append('%s.%s: %s' % (mod, name, e))
                refused['%s.%s' % (mod, name)] = str(e)
                stale.add(mod)
        text = '\n'.join(lines) + '\n'
        path = os.path.join(OUT, mod + '.v')
        if not (os.path.exists(path) and open(path).read() == text):
            open(path, 'w').write(text)
    # function bodies (tools/py2v_fn.py, specs in tools/fnspecs/*.py)
    sys.path.insert(0, HERE)
    import py2v_fn
    py2v_fn.REPO = REPO
    nfm, nfn, ferrors = py2v_fn.translate_all()
    errors += ferrors
    for e in ferrors:
        refused['fn:' + e.split(' ', 1)[0]] = e
        stale.add(e.split(' ', 1)[0])          # the message starts with the module name
    json.dump(owners, open(owners_path, 'w'), indent=1, sort_keys=True)
    json.dump({'refused': refused, 'stale_modules': sorted(stale), 'unattributed': unknown},
              open(os.path.join(OUT, '.translator_status.json'), 'w'), indent=1)
    if errors:
        for e in errors:
            print('TRANSLATOR REFUSES: ' + e)
        sys.exit(1)
    print('translator: %d modules, %d definitions; %d function modules, %d function bodies' % (
        len(mods), sum(len(v) for v in mods.values()), nfm, nfn))


if __name__ == '__main__':
    try:
        main()
    except Refuse as e:
        print('TRANSLATOR REFUSES: %s' % e)
        sys.exit(1)
