#!/usr/bin/env python3
"""Regenerate MANIFEST.json from tools/claims.json (one entry per claimed property)
and properties.jsonl (every unclaimed property goes to not_applicable with its reason)."""
import json, os
HERE = os.path.dirname(os.path.abspath(__file__))
V = os.path.normpath(os.path.join(HERE, '..'))
claims = json.load(open(os.path.join(HERE, 'claims.json')))
props = [json.loads(l) for l in open(os.path.join(V, 'properties.jsonl'))]
TB = ('Trusted: Coq 8.16.1 kernel (coqc; coqchk in the thorough tier), no native_compute; no axioms of ours '
      '(Print Assumptions parsed on every run; only the stdlib Reals/classical axioms sig_not_dec, sig_forall_dec, '
      'functional_extensionality_dep, classic are whitelisted, for RealFacts); the data translator tools/py2v_data.py and the '
      'function-body translator tools/py2v_fn.py with its specs tools/fnspecs/*.py (which source expressions / statement ranges '
      'are opaque inputs; `/` read as the total Qdiv with the zero-divisor case a recorded guard; floats as exact rationals; '
      'validated on every build by tools/fn_selftest.py, a test); '
      'extraction (ExtrOcamlBasic directives only) + coq/ocaml/driver.ml; the Python harness (generators, canonicalisation, '
      '1e-9 float-vs-rational comparison). The Python code is modelled, not verified: the ties are the source-tie theorems '
      'C<ID>_source_* over definitions regenerated from the Python source on every run, and the differential correspondence run '
      'on every check. ')
checks, na = [], []
for p in props:
    pid = p['id']
    c = claims['claimed'].get(pid)
    if c is None:
        na.append({'property_id': pid, 'reason': claims['unclaimed'].get(pid, 'check not built yet (work in progress; see DESIGN.md section 5)')})
        continue
    checks.append({
        'property_id': pid,
        'quick_cmd': './check %s --tier quick' % pid,
        'thorough_cmd': './check %s --tier thorough' % pid,
        'evidence_file': '/verif/evidence/%s.json' % pid,
        'replay_cmd_template': './check %s --replay {path}' % pid,
        'engine': 'coq-proof+correspondence',
        'level_claimed': {'category': c['level'], 'text': c['text'], 'design_ref': 'DESIGN.md section 5, %s' % pid},
        'level_note': TB + c.get('note', ''),
        'technique': c['technique'],
    })
man = {
    'version': 1,
    'setup_cmd': './setup.sh',
    'hooks': {
        'guard': 'CNVKIT_VERIF',
        'enable': 'no source hooks exist: checks observe public functions and files only; CNVKIT_VERIF=1 is exported by ./check for completeness',
        'baseline_off_cmd': '/verif/tools/baseline.sh',
        'source_commits': [],
        'add_only': True,
    },
    'engines': [{
        'name': 'coq-proof+correspondence', 'path': '/verif/coq + /verif/harness',
        'serves_properties': sorted(claims['claimed']),
        'kind_free_text': 'Machine-checked proof in Coq 8.16.1 of theorems about an executable Gallina model (Model ⊑ Spec); the model is tied to /repo on every run by a fail-closed data translator (Gen/*.v) and a differential correspondence check against the model extracted to OCaml',
    }],
    'checks': checks,
    'not_applicable': na,
    'notes': claims.get('notes', ''),
}
json.dump(man, open(os.path.join(V, 'MANIFEST.json'), 'w'), indent=1)
print('MANIFEST: %d checks, %d not claimed' % (len(checks), len(na)))
