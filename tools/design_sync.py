#!/usr/bin/env python3
"""Rewrites the generated blocks of DESIGN.md (between <!-- BEGIN x --> / <!-- END x --> markers):
findings (from known_findings.json) and seeded (from seeded/*/meta.json)."""
import json, glob, os, re, subprocess
V = os.path.normpath(os.path.join(os.path.dirname(os.path.abspath(__file__)), '..'))
k = json.load(open(os.path.join(V, 'known_findings.json')))
f = ['Open (recorded, not repaired; matched by signature, so only that situation is downgraded to a `KNOWN-FINDING` line):', '']
for o in k['open']:
    f.append('* **%s** `%s` — %s' % (o['property'], o['signature'], o['what']))
f += ['', 'Repaired in /repo, one minimal `fix:` commit each (the failing inputs live on as corpus cases of the property\'s check; '
      'a fixed entry suppresses nothing):', '']
for x in k['fixed']:
    f.append('* ' + x[len('fixed: '):])
rows = ['| seeded change | needs | `./check <ID> --tier quick` on the patched tree |', '|---|---|---|']
n = c = 0
for mf in sorted(glob.glob(os.path.join(V, 'seeded', '*', 'meta.json'))):
    m = json.load(open(mf)); name = os.path.basename(os.path.dirname(mf))
    cm = m.get('confirmed_by_me', {})
    obsolete = cm.get('demo_with_patch_exit') == 0
    if obsolete:
        clean0 = lambda s0, k0: re.sub(r'\s+', ' ', str(s0)).replace('|', '/')[:k0]
        rows.append('| %s: %s | %s | obsolete on the current tree: with the patch applied the demonstration passes (a later `fix:` commit in /repo removed the condition it needs); kept for the record, not counted |'
                    % (name, clean0(m.get('title', ''), 170), clean0(m.get('needs_to_manifest', ''), 200)))
        continue
    n += 1; c += 1 if cm.get('caught') else 0
    clean = lambda s, k: re.sub(r'\s+', ' ', str(s)).replace('|', '/')[:k]
    tail = clean((cm.get('check_output_tail') or [''])[-1], 140)
    rows.append('| %s: %s | %s | %s |' % (name, clean(m.get('title', ''), 170), clean(m.get('needs_to_manifest', ''), 260),
                                         ('caught — ' if cm.get('caught') else 'NOT caught (exit %s) — ' % cm.get('check_exit')) + tail))
rows.append('')
rows.append('%d of %d confirmed seeded changes are caught by the quick tier.' % (c, n))
man = json.load(open(os.path.join(V, 'MANIFEST.json')))
st = ['| property | level | obligations (theorems of Props/<ID>.v, all discharged) | quick-tier evaluations / distinct non-trivial | exhaustive scope | wall s |', '|---|---|---|---|---|---|']
tot = 0
for chk in man['checks']:
    pid = chk['property_id']
    try:
        ev = json.load(open(os.path.join(V, 'evidence', pid + '.json')))
        cv = ev['coverage']
        st.append('| %s | %s | %s/%s | %s / %s | %s | %s |' % (pid, chk['level_claimed']['category'], cv.get('discharged'), cv.get('obligations'),
                  cv.get('evaluations'), cv.get('distinct_nontrivial'), 'yes' if cv.get('exhaustive') else '-', int(ev.get('wall_s', 0))))
        tot += cv.get('obligations') or 0
    except Exception as e:
        st.append('| %s | %s | (no evidence: %s) | | | |' % (pid, chk['level_claimed']['category'], e))
st.append('')
st.append('%d proof obligations in all; every one is closed under the global context except the corollaries over the reals, '
          'which depend on the four standard-library axioms named in section 3.3.' % tot)
blocks = {'findings': '\n'.join(f), 'seeded': '\n'.join(rows), 'status': '\n'.join(st)}
p = os.path.join(V, 'DESIGN.md'); s = open(p).read()
for name, text in blocks.items():
    b, e = '<!-- BEGIN %s -->' % name, '<!-- END %s -->' % name
    if b in s:
        s = s[:s.index(b) + len(b)] + '\n' + text + '\n' + s[s.index(e):]
open(p, 'w').write(s)
print('DESIGN.md synced: %d open, %d fixed, %d seeds (%d caught)' % (len(k['open']), len(k['fixed']), n, c))
