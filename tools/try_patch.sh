#!/bin/bash
# usage: tools/try_patch.sh <patch.diff> <ID> [tier]
# Runs ./check <ID> against a scratch worktree of /repo with the patch applied (never touches /repo),
# prints the tail of the output, removes the worktree, and restores Gen/evidence by NOT rewriting them:
# evidence of the patched run is written to evidence/<ID>.json -- re-run ./check <ID> afterwards if you commit evidence.
set -u
PATCH=$(readlink -f "$1"); ID=$2; TIER=${3:-quick}
V=$(cd "$(dirname "$0")/.." && pwd)
W=/tmp/trypatch-$$
git -C /repo worktree add -q --detach "$W" HEAD || exit 2
if ! git -C "$W" apply "$PATCH"; then echo "PATCH DOES NOT APPLY"; git -C /repo worktree remove --force "$W"; exit 2; fi
cd "$V"
cp evidence/$ID.json /tmp/trypatch-ev-$$.json 2>/dev/null
CNVKIT_REPO=$W PYTHONPATH=$W:$V/harness PYTHONHASHSEED=0 CNVKIT_VERIF=1 PYTHONWARNINGS=ignore OMP_NUM_THREADS=1 PYTHONDONTWRITEBYTECODE=1 \
  /venv/bin/python harness/main.py $ID --tier $TIER 2>&1 | tail -${TAIL:-6}
RC=${PIPESTATUS[0]}
git -C /repo worktree remove --force "$W"
# restore generated constants and the evidence file of the unpatched tree
/venv/bin/python tools/py2v_data.py > /dev/null 2>&1
mv /tmp/trypatch-ev-$$.json evidence/$ID.json 2>/dev/null
echo "exit=$RC"
exit $RC
